------------------------------- MODULE System -------------------------------
(***************************************************************************)
(* The public API as a state machine (C14, C15).                           *)
(*                                                                         *)
(* Environments: "mod" (the module-level default environment behind        *)
(* jsonpath_rfc9535.find/compile/...), "e1" (a fresh JSONPathEnvironment)  *)
(* and "e2" (an instance of a subclass, created by NewSub, with its own    *)
(* integer range [-1, 1] and its own function 'f').  Each environment may  *)
(* have a function f: ValueType -> LogicalType registered, with a constant *)
(* body ("ct" always true, "cf" always false); the subclass starts with an *)
(* 'f' of ANOTHER signature, ValueType -> ValueType ("v1": always 1), so   *)
(* that the same call is well-typed in one environment and ill-typed in    *)
(* another (q2 / q8).                                                      *)
(*                                                                         *)
(* Compile-time validity uses the registry at compile time; function       *)
(* lookup happens against the registry of the query's own environment at   *)
(* call time (that is what the implementation does, and C14 only forbids   *)
(* influence ACROSS environments).                                         *)
(*                                                                         *)
(* Purity / isolation hold here by construction: every response is         *)
(* Observable(text, doc, envs[e]), a function of nothing else.  Their      *)
(* content is the conformance step: TLC enumerates every history up to a   *)
(* depth and the real objects are stepped along each, response compared    *)
(* after every operation, documents snapshot-compared.                     *)
(***************************************************************************)
EXTENDS Eval, Json

CONSTANTS QText,      \* query id -> Text
          DocVal,     \* document id -> Value
          DocAlt,     \* document id -> the value the USER may edit the document to, in place
          MaxOps, MaxHandles

Envs == {"mod", "e1", "e2"}
QIds == DOMAIN QText
DIds == DOMAIN DocVal

VARIABLES env, handles, docs, hist
vars == <<env, handles, docs, hist>>

FName == <<102>>                                    \* "f"
RegOfEnv(e) == IF env[e].f = "none" THEN Builtins
               ELSE Builtins \o <<[name |-> FName, params |-> <<"V">>, ret |-> (IF env[e].f = "v1" THEN "V" ELSE "L"), sem |-> env[e].f]>>
One == IntLit(FALSE, <<1>>)
MinusOne == IntLit(TRUE, <<1>>)
LoOfEnv(e) == IF e = "e2" THEN MinusOne ELSE IJsonLo
HiOfEnv(e) == IF e = "e2" THEN One ELSE IJsonHi

\* what compile(e, q) must do now
Compilable(e, q) == CompileVerdict(QText[q], RegOfEnv(e), LoOfEnv(e), HiOfEnv(e)).v = "accept"

Locs(nl) == [k \in 1..Len(nl) |-> nl[k].loc]
\* the observable result of evaluating q (compiled under e) on d with e's registry now
\* documents belong to the user, who may edit them in place between applications: the library
\* must read their content at the time of the call (docs[d] says which content d has now)
DocNow(d) == IF docs[d] = "alt" THEN DocAlt[d] ELSE DocVal[d]
Observable(e, q, d) == Locs(Find(Parse(QText[q], FALSE).v, DocNow(d), RegOfEnv(e)))

\* Besides the empty history, exploration starts from a few prefixes that bounded depth would not get past:
\* an environment that already has 'f' registered and a query using it compiled (and the same for the
\* module-level environment); the prefix is part of the history, so the replay performs it too.
Prefix(e) == << [op |-> "register", e |-> e, b |-> "ct"], [op |-> "compile", e |-> e, q |-> "q2", resp |-> "ok"],
                [op |-> "compile", e |-> e, q |-> "q7", resp |-> "ok"] >>
\* ... and an environment on which the two queries with a '$'-rooted sub-query are compiled (apply / edit / apply of the SAME
\* handle on the SAME document object is then within the explored depth)
PrefixB(e) == << [op |-> "find", e |-> e, q |-> "q6", d |-> "d1", resp |-> <<"error">>],
                 [op |-> "compile", e |-> e, q |-> "q1", resp |-> "ok"], [op |-> "compile", e |-> e, q |-> "q3", resp |-> "ok"] >>
Init == /\ docs = [d \in DIds |-> "base"]
        /\ \/ /\ env = [e \in Envs |-> [exists |-> e # "e2", f |-> "none"]]
              /\ handles = <<>>
              /\ hist = <<>>
           \/ \E e0 \in {"e1", "mod"} :
              /\ env = [e \in Envs |-> [exists |-> e # "e2", f |-> IF e = e0 THEN "ct" ELSE "none"]]
              /\ handles = <<[e |-> e0, q |-> "q2"], [e |-> e0, q |-> "q7"]>>
              /\ hist = Prefix(e0)
           \/ \E e0 \in {"e1", "mod"} :
              /\ env = [e \in Envs |-> [exists |-> e # "e2", f |-> "none"]]
              /\ handles = <<[e |-> e0, q |-> "q1"], [e |-> e0, q |-> "q3"]>>
              /\ hist = PrefixB(e0)

Log(entry) == hist' = Append(hist, entry)
\* histories that started from a prefix scenario only exercise what was prepared (apply / find_one / register / edit / newsub)
Prefixed == Len(hist) >= 3 /\ hist[1].op \in {"register", "find"} /\ hist[2].op = "compile" /\ hist[3].op = "compile"

Compile(e, q) ==
    /\ env[e].exists
    /\ IF Compilable(e, q)
       THEN /\ Len(handles) < MaxHandles
            /\ handles' = Append(handles, [e |-> e, q |-> q])
            /\ Log([op |-> "compile", e |-> e, q |-> q, resp |-> "ok"])
       ELSE /\ UNCHANGED handles
            /\ Log([op |-> "compile", e |-> e, q |-> q, resp |-> "error"])
    /\ UNCHANGED <<env, docs>>

Apply(h, d) ==
    /\ h \in 1..Len(handles)
    /\ Log([op |-> "apply", h |-> h, d |-> d, resp |-> Observable(handles[h].e, handles[h].q, d)])
    /\ UNCHANGED <<env, handles, docs>>

\* find_one on a compiled query: the first node or none - the rest of the evaluation is abandoned
ApplyOne(h, d) ==
    /\ h \in 1..Len(handles)
    /\ LET all == Observable(handles[h].e, handles[h].q, d)
       IN  Log([op |-> "applyone", h |-> h, d |-> d, resp |-> IF all = <<>> THEN <<>> ELSE <<all[1]>>])
    /\ UNCHANGED <<env, handles, docs>>

EnvFind(e, q, d) ==
    /\ env[e].exists
    /\ Log([op |-> "find", e |-> e, q |-> q, d |-> d,
            resp |-> IF Compilable(e, q) THEN Observable(e, q, d) ELSE <<"error">>])
    /\ UNCHANGED <<env, handles, docs>>

Register(e, b) ==
    /\ env[e].exists
    /\ env[e].f # b
    /\ env' = [env EXCEPT ![e].f = b]
    /\ Log([op |-> "register", e |-> e, b |-> b])
    /\ UNCHANGED <<handles, docs>>

NewSub ==
    /\ ~env["e2"].exists
    /\ env' = [env EXCEPT !["e2"] = [exists |-> TRUE, f |-> "v1"]]
    /\ Log([op |-> "newsub"])
    /\ UNCHANGED <<handles, docs>>

\* the user edits a document in place (same object, new content)
Edit(d) ==
    /\ DocAlt[d] # DocVal[d]
    /\ docs' = [docs EXCEPT ![d] = IF docs[d] = "base" THEN "alt" ELSE "base"]
    /\ Log([op |-> "edit", d |-> d, to |-> IF docs[d] = "base" THEN "alt" ELSE "base"])
    /\ UNCHANGED <<env, handles>>

Next ==
    /\ Len(hist) < MaxOps + (IF Prefixed THEN 3 ELSE 0)
    /\ \/ (~Prefixed /\ \E e \in Envs, q \in QIds : Compile(e, q))
       \/ \E h \in 1..MaxHandles, d \in DIds : Apply(h, d) \/ ApplyOne(h, d)
       \/ (~Prefixed /\ \E e \in Envs, q \in QIds, d \in DIds : EnvFind(e, q, d))
       \/ \E e \in Envs, b \in {"ct", "cf"} : Register(e, b)
       \/ NewSub
       \/ \E d \in DIds : Edit(d)

Spec == Init /\ [][Next]_vars

\* the abstract state plus the last operation (so that no operation kind is
\* starved by another one reaching the same abstract state first)
View == <<env, handles, docs, IF hist = <<>> THEN <<>> ELSE hist[Len(hist)], Len(hist)>>

(* ---- properties of the design (hold by construction; checked as sanity) ---- *)
\* Repeatability: re-applying a handle answers the same unless ITS environment changed
Repeatable ==
    \A i, j \in 1..Len(hist) :
        (/\ i < j /\ hist[i].op = "apply" /\ hist[j].op = "apply"
         /\ hist[i].h = hist[j].h /\ hist[i].d = hist[j].d
         /\ \A k \in i..j : hist[k].op # "edit" \/ hist[k].d # hist[i].d
         /\ \A k \in i..j : hist[k].op \in {"register", "newsub"} => hist[k].op = "newsub" \/ hist[k].e # handles[hist[i].h].e)
        => hist[i].resp = hist[j].resp

ExportAll   == hist = <<>> \/ PrintT("GEN " \o ToJson([hist |-> hist, env |-> env]))
ExportFinal == Len(hist) < MaxOps \/ PrintT("GEN " \o ToJson([hist |-> hist, env |-> env]))
=============================================================================
