------------------------------- MODULE Typing -------------------------------
(***************************************************************************)
(* RFC 9535 validity beyond the grammar:                                   *)
(*   - well-typedness of function expressions (2.4.3), position by         *)
(*     position: test, comparison operand, each parameter kind;            *)
(*   - integers of index and slice selectors within [lo, hi] (2.1: the     *)
(*     I-JSON range by default, the environment's configured range in      *)
(*     general), decided on digit sequences, no arithmetic.                *)
(* A registry is a sequence of                                             *)
(*   [name |-> Text, params |-> Seq({"V","L","N"}), ret |-> "V"|"L"|"N",   *)
(*    sem |-> "length"|"count"|"value"|"match"|"search"|"probe"]           *)
(***************************************************************************)
EXTENDS Syntax

Sig(reg, f) == SelectSeq(reg, LAMBDA x : x.name = f)          \* <<>> or <<sig>>

T(str) == [k \in 1..Len(str) |-> str[k]]
NameLength == <<108, 101, 110, 103, 116, 104>>
NameCount  == <<99, 111, 117, 110, 116>>
NameValue  == <<118, 97, 108, 117, 101>>
NameMatch  == <<109, 97, 116, 99, 104>>
NameSearch == <<115, 101, 97, 114, 99, 104>>

Builtins == <<
    [name |-> NameLength, params |-> <<"V">>,      ret |-> "V", sem |-> "length"],
    [name |-> NameCount,  params |-> <<"N">>,      ret |-> "V", sem |-> "count"],
    [name |-> NameValue,  params |-> <<"N">>,      ret |-> "V", sem |-> "value"],
    [name |-> NameMatch,  params |-> <<"V", "V">>, ret |-> "L", sem |-> "match"],
    [name |-> NameSearch, params |-> <<"V", "V">>, ret |-> "L", sem |-> "search"] >>

LogicalNodes == {"or", "and", "not", "paren", "cmp"}

RECURSIVE WtSegs(_, _), WtLogical(_, _), WtComparable(_, _), WtCall(_, _), WtArg(_, _, _)

WtSegs(segs, reg) ==
    \A k \in 1..Len(segs) : \A j \in 1..Len(segs[k].sels) :
        segs[k].sels[j].t = "filter" => WtLogical(segs[k].sels[j].e, reg)

RetOf(e, reg) == Sig(reg, e.f)[1].ret

\* e stands where a logical value is required (filter, operand of ! && ||, parentheses)
WtLogical(e, reg) ==
    CASE e.t \in {"or", "and"}   -> WtLogical(e.l, reg) /\ WtLogical(e.r, reg)
      [] e.t \in {"not", "paren"} -> WtLogical(e.e, reg)
      [] e.t = "cmp"   -> WtComparable(e.l, reg) /\ WtComparable(e.r, reg)
      [] e.t = "query" -> WtSegs(e.segs, reg)
      [] e.t = "call"  -> WtCall(e, reg) /\ RetOf(e, reg) \in {"L", "N"}
      [] OTHER -> FALSE

WtComparable(e, reg) ==
    CASE e.t = "lit"   -> TRUE
      [] e.t = "query" -> IsSingularSegs(e.segs) /\ WtSegs(e.segs, reg)
      [] e.t = "call"  -> WtCall(e, reg) /\ RetOf(e, reg) = "V"
      [] OTHER -> FALSE

WtCall(e, reg) ==
    LET sg == Sig(reg, e.f)
    IN  /\ sg # <<>>
        /\ Len(e.args) = Len(sg[1].params)
        /\ \A k \in 1..Len(e.args) : WtArg(e.args[k], sg[1].params[k], reg)

WtArg(a, p, reg) ==
    CASE p = "V" -> \/ a.t = "lit"
                    \/ (a.t = "query" /\ IsSingularSegs(a.segs) /\ WtSegs(a.segs, reg))
                    \/ (a.t = "call" /\ WtCall(a, reg) /\ RetOf(a, reg) = "V")
      [] p = "N" -> \/ (a.t = "query" /\ WtSegs(a.segs, reg))
                    \/ (a.t = "call" /\ WtCall(a, reg) /\ RetOf(a, reg) = "N")
      [] p = "L" -> \/ (a.t \in LogicalNodes /\ WtLogical(a, reg))
                    \/ (a.t = "query" /\ WtSegs(a.segs, reg))
                    \/ (a.t = "call" /\ WtCall(a, reg) /\ RetOf(a, reg) \in {"L", "N"})

WellTyped(segs, reg) == WtSegs(segs, reg)

(* ---------------- integer range, on digit sequences -------------------- *)
RECURSIVE DigLeFrom(_, _, _)
DigLeFrom(a, b, i) == IF i > Len(a) THEN TRUE
                      ELSE IF a[i] # b[i] THEN a[i] < b[i]
                      ELSE DigLeFrom(a, b, i + 1)
\* magnitudes without leading zeros
DigitsLe(a, b) == Len(a) < Len(b) \/ (Len(a) = Len(b) /\ DigLeFrom(a, b, 1))
IsZeroLit(x) == x.ds = <<0>>
\* x <= y on IntLit
IntLe(x, y) ==
    IF x.neg /\ ~y.neg THEN TRUE
    ELSE IF ~x.neg /\ y.neg THEN FALSE
    ELSE IF x.neg THEN DigitsLe(y.ds, x.ds)
    ELSE DigitsLe(x.ds, y.ds)
IntInRange(x, lo, hi) == IntLe(lo, x) /\ IntLe(x, hi)

RECURSIVE RangeSegs(_, _, _), RangeExpr(_, _, _)
RangeSel(sel, lo, hi) ==
    CASE sel.t = "idx"    -> IntInRange(sel.i, lo, hi)
      [] sel.t = "slice"  -> /\ (sel.s # <<>>  => IntInRange(sel.s[1], lo, hi))
                             /\ (sel.e # <<>>  => IntInRange(sel.e[1], lo, hi))
                             /\ (sel.st # <<>> => IntInRange(sel.st[1], lo, hi))
      [] sel.t = "filter" -> RangeExpr(sel.e, lo, hi)
      [] OTHER -> TRUE
RangeSegs(segs, lo, hi) ==
    \A k \in 1..Len(segs) : \A j \in 1..Len(segs[k].sels) : RangeSel(segs[k].sels[j], lo, hi)
RangeExpr(e, lo, hi) ==
    CASE e.t \in {"or", "and", "cmp"} -> RangeExpr(e.l, lo, hi) /\ RangeExpr(e.r, lo, hi)
      [] e.t \in {"not", "paren"}     -> RangeExpr(e.e, lo, hi)
      [] e.t = "query" -> RangeSegs(e.segs, lo, hi)
      [] e.t = "call"  -> \A k \in 1..Len(e.args) : RangeExpr(e.args[k], lo, hi)
      [] OTHER -> TRUE
InRange(segs, lo, hi) == RangeSegs(segs, lo, hi)

\* 2^53 - 1 = 9007199254740991
IJsonHi == IntLit(FALSE, <<9, 0, 0, 7, 1, 9, 9, 2, 5, 4, 7, 4, 0, 9, 9, 1>>)
IJsonLo == IntLit(TRUE,  <<9, 0, 0, 7, 1, 9, 9, 2, 5, 4, 7, 4, 0, 9, 9, 1>>)

\* does any number literal fall outside the model's exact range?
RECURSIVE BigSegs(_), BigExpr(_)
BigSegs(segs) ==
    \E k \in 1..Len(segs) : \E j \in 1..Len(segs[k].sels) :
        segs[k].sels[j].t = "filter" /\ BigExpr(segs[k].sels[j].e)
BigExpr(e) ==
    CASE e.t \in {"or", "and", "cmp"} -> BigExpr(e.l) \/ BigExpr(e.r)
      [] e.t \in {"not", "paren"}     -> BigExpr(e.e)
      [] e.t = "query" -> BigSegs(e.segs)
      [] e.t = "call"  -> \E k \in 1..Len(e.args) : BigExpr(e.args[k])
      [] e.t = "lit"   -> e.v.k = "numbig"
      [] OTHER -> FALSE

\* the three-way verdict a conforming compile() must respect
\*   "accept"  : in the grammar, well-typed, in range          (C03)
\*   "reject"  : outside the (lax) grammar (C04) or invalid     (C05)
\*   "either"  : the declared don't-care sets
CompileVerdict(s, reg, lo, hi) ==
    LET lax == Parse(s, FALSE)
    IN  IF ~lax.ok THEN [v |-> "reject", why |-> "syntax", at |-> lax.i, msg |-> lax.why]
        ELSE IF ~WellTyped(lax.v, reg) THEN [v |-> "reject", why |-> "typing", at |-> 0, msg |-> "not well-typed"]
        ELSE IF ~InRange(lax.v, lo, hi) THEN [v |-> "reject", why |-> "range", at |-> 0, msg |-> "integer out of range"]
        ELSE IF ~Parse(s, TRUE).ok THEN [v |-> "either", why |-> "blank next to bracket of singular query", at |-> 0, msg |-> ""]
        ELSE IF BigSegs(lax.v) THEN [v |-> "either", why |-> "number outside exact range", at |-> 0, msg |-> ""]
        ELSE [v |-> "accept", why |-> "", at |-> 0, msg |-> ""]
=============================================================================
