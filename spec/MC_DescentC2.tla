-------------------- MODULE MC_DescentC2 --------------------
EXTENDS MC_Descent
MCGraphs == CyclicGraphs2F(0)
======================================================================
