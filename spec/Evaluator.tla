------------------------------ MODULE Evaluator ------------------------------
(***************************************************************************)
(* The evaluator of jsonpath_rfc9535 (query.py, segments.py, selectors.py, *)
(* filter_expressions.py, function_extensions) as a model shaped like the  *)
(* implementation: one operator per resolve() / evaluate() / helper,       *)
(* Python's objects and conventions made explicit -                        *)
(*   - what evaluate() returns is a Python object: a JSON value, the       *)
(*     special NOTHING, or a node list; a logical result is a Python bool, *)
(*     the same object as JSON true / false;                               *)
(*   - _is_truthy, _compare, _eq, _value_eq, _lt as written (bool is an    *)
(*     int in Python: the explicit isinstance tests that keep them apart); *)
(*   - comparison operands and ValueType arguments unwrap a one-node list, *)
(*     an empty list stands for NOTHING;                                   *)
(*   - && and || evaluate both operands (no short circuit);                *)
(*   - the index selector's negative-index arithmetic and suppress(        *)
(*     IndexError); the slice selector through Python's slice.indices();   *)
(*   - '@' on a scalar: a one-node list for the bare '@', empty otherwise. *)
(* Coverage beyond the listed properties: C01/C02/C06/C07/C10 are decided  *)
(* against Eval.tla (what RFC 9535 REQUIRES); this module says what the    *)
(* code DOES, and the refinement theorem T16 (MC_Parser.tla) ties them:    *)
(*     ImplFind(ImplCompile(text), doc) = Find(Parse(text), doc)           *)
(* for every accepted unit text and every document of a small universe.    *)
(* Boundaries: the regular-expression engine is represented by its         *)
(* specification (IRegexp.tla), the descendant walk by pre-order (its      *)
(* implementation-shaped model with the depth limit is Descent.tla).       *)
(***************************************************************************)
EXTENDS Eval

NL(ns) == [k |-> "nl", ns |-> ns]
IsNL(x) == x.k = "nl"
PyTrue  == Bool(TRUE)
PyFalse == Bool(FALSE)
PyB(b)  == Bool(b)

\* bool(obj) for the objects that can reach _is_truthy
PyBoolOf(x) ==
    CASE x.k = "bool" -> x.b
      [] x.k = "num"  -> ~IsZero(x)
      [] x.k = "str"  -> x.s # <<>>
      [] x.k = "arr"  -> x.xs # <<>>
      [] x.k = "obj"  -> x.ms # <<>>
      [] x.k = "nl"   -> x.ns # <<>>
      [] OTHER -> FALSE

\* _is_truthy
IsTruthy(x) ==
    IF IsNL(x) /\ Len(x.ns) = 0 THEN FALSE
    ELSE IF x.k = "nothing" THEN FALSE
    ELSE IF x.k = "null" THEN TRUE
    ELSE PyBoolOf(x)

\* left == right between two Python objects that are not both lists / both dicts and not bools
\* (int and float compare by value; different types are unequal; NOTHING equals only NOTHING and an empty node list)
PyEq(l, r) ==
    IF l.k = "nothing" \/ r.k = "nothing" THEN
        (l.k = "nothing" /\ (r.k = "nothing" \/ (IsNL(r) /\ r.ns = <<>>))) \/ (r.k = "nothing" /\ IsNL(l) /\ l.ns = <<>>)
    ELSE IF l.k # r.k THEN FALSE
    ELSE IF l.k = "num" THEN NumEq(l, r)
    ELSE l = r

RECURSIVE ValueEq(_, _)
\* _value_eq
ValueEq(l, r) ==
    IF l.k = "bool" \/ r.k = "bool" THEN l.k = "bool" /\ r.k = "bool" /\ l.b = r.b
    ELSE IF l.k = "arr" /\ r.k = "arr" THEN
        Len(l.xs) = Len(r.xs) /\ \A i \in 1..Len(l.xs) : ValueEq(l.xs[i], r.xs[i])
    ELSE IF l.k = "obj" /\ r.k = "obj" THEN
        /\ {l.ms[i].n : i \in 1..Len(l.ms)} = {r.ms[i].n : i \in 1..Len(r.ms)}
        /\ \A i \in 1..Len(l.ms) : \E j \in 1..Len(r.ms) : r.ms[j].n = l.ms[i].n /\ ValueEq(l.ms[i].v, r.ms[j].v)
    ELSE PyEq(l, r)

\* _eq
ImplEq(left, right) ==
    LET l == IF IsNL(right) THEN right ELSE left        \* if isinstance(right, NodeList): swap
        r == IF IsNL(right) THEN left ELSE right
    IN  IF IsNL(l) THEN
            IF IsNL(r) THEN l.ns = r.ns                 \* list equality (node objects: equal iff the same lists)
            ELSE IF l.ns = <<>> THEN r.k = "nothing"
            ELSE IF Len(l.ns) = 1 THEN FALSE            \* left[0] == right: a node object is never equal to a value
            ELSE FALSE
        ELSE IF l.k = "nothing" /\ r.k = "nothing" THEN TRUE
        ELSE ValueEq(l, r)

\* _lt
ImplLt(l, r) ==
    IF l.k = "str" /\ r.k = "str" THEN TextLt(l.s, r.s)
    ELSE IF l.k = "bool" \/ r.k = "bool" THEN FALSE
    ELSE IF l.k = "num" /\ r.k = "num" THEN NumLt(l, r)
    ELSE FALSE

\* _compare
ImplCompare(l, op, r) ==
    CASE op = "&&" -> IsTruthy(l) /\ IsTruthy(r)
      [] op = "||" -> IsTruthy(l) \/ IsTruthy(r)
      [] op = "==" -> ImplEq(l, r)
      [] op = "!=" -> ~ImplEq(l, r)
      [] op = "<"  -> ImplLt(l, r)
      [] op = ">"  -> ImplLt(r, l)
      [] op = ">=" -> ImplLt(r, l) \/ ImplEq(l, r)
      [] op = "<=" -> ImplLt(l, r) \/ ImplEq(l, r)
      [] OTHER -> FALSE

(* ---- Python's slice.indices(len) and range() ---------------------------------------- *)
\* PySlice_AdjustIndices: s, e, st are <<>> (None) or <<int>>; step # 0
PyIndices(len, s, e, st) ==
    LET step == IF st = <<>> THEN 1 ELSE st[1]
        adj(x, dflt) ==
            IF x = <<>> THEN dflt
            ELSE LET y == IF x[1] < 0 THEN x[1] + len ELSE x[1]
                 IN  IF y < 0 THEN (IF step < 0 THEN -1 ELSE 0)
                     ELSE IF y >= len THEN (IF step < 0 THEN len - 1 ELSE len)
                     ELSE y
    IN  [start |-> adj(s, IF step < 0 THEN len - 1 ELSE 0), stop |-> adj(e, IF step < 0 THEN -1 ELSE len), step |-> step]
RECURSIVE PyRange(_, _, _)
PyRange(i, stop, step) ==
    IF (step > 0 /\ i < stop) \/ (step < 0 /\ i > stop) THEN <<i>> \o PyRange(i + step, stop, step) ELSE <<>>

(* ---- selectors --------------------------------------------------------------------------- *)
NewChild(nd, v, key) == [loc |-> Append(nd.loc, key), v |-> v]

RECURSIVE ISel(_, _, _, _), ISeg(_, _, _, _), ISegs(_, _, _, _), IEval(_, _, _, _), IFilterHolds(_, _, _, _), ICall(_, _, _, _)

ISel(sel, nd, root, reg) ==
    CASE sel.t = "name" ->
            \* isinstance(value, dict); suppress(KeyError): value[name]
            IF nd.v.k = "obj" THEN
                LET hit == SelectSeq(nd.v.ms, LAMBDA m : m.n = sel.n)
                IN  IF hit = <<>> THEN <<>> ELSE <<NewChild(nd, hit[1].v, [n |-> sel.n])>>
            ELSE <<>>
      [] sel.t = "idx" ->
            \* isinstance(value, list); _normalized_index; suppress(IndexError): value[self.index]
            IF nd.v.k = "arr" THEN
                LET i    == IntVal(sel.i)
                    len  == Len(nd.v.xs)
                    norm == IF i < 0 /\ len >= -i THEN len + i ELSE i
                    pyix == IF i < 0 THEN len + i ELSE i                     \* Python's own indexing
                IN  IF pyix < 0 \/ pyix >= len THEN <<>>                      \* IndexError, suppressed
                    ELSE <<NewChild(nd, nd.v.xs[pyix + 1], [i |-> norm])>>
            ELSE <<>>
      [] sel.t = "slice" ->
            \* isinstance(value, list) and step != 0: zip(range(*slice.indices(len)), value[slice])
            IF nd.v.k = "arr" /\ (sel.st = <<>> \/ IntVal(sel.st[1]) # 0) THEN
                LET ix == PyIndices(Len(nd.v.xs), MaybeVal(sel.s), MaybeVal(sel.e), MaybeVal(sel.st))
                    rg == PyRange(ix.start, ix.stop, ix.step)
                IN  [k \in 1..Len(rg) |-> NewChild(nd, nd.v.xs[rg[k] + 1], [i |-> rg[k]])]
            ELSE <<>>
      [] sel.t = "wild" ->
            IF nd.v.k = "obj" THEN [k \in 1..Len(nd.v.ms) |-> NewChild(nd, nd.v.ms[k].v, [n |-> nd.v.ms[k].n])]
            ELSE IF nd.v.k = "arr" THEN [k \in 1..Len(nd.v.xs) |-> NewChild(nd, nd.v.xs[k], [i |-> k - 1])]
            ELSE <<>>
      [] sel.t = "filter" ->
            IF nd.v.k = "obj" THEN
                LET all == [k \in 1..Len(nd.v.ms) |-> NewChild(nd, nd.v.ms[k].v, [n |-> nd.v.ms[k].n])]
                IN  SelectSeq(all, LAMBDA c : IFilterHolds(sel.e, c.v, root, reg))
            ELSE IF nd.v.k = "arr" THEN
                LET all == [k \in 1..Len(nd.v.xs) |-> NewChild(nd, nd.v.xs[k], [i |-> k - 1])]
                IN  SelectSeq(all, LAMBDA c : IFilterHolds(sel.e, c.v, root, reg))
            ELSE <<>>

\* JSONPathChildSegment.resolve / JSONPathRecursiveDescentSegment.resolve (the walk: pre-order, see Descent.tla)
ISeg(seg, nodes, root, reg) ==
    FlattenSeq([k \in 1..Len(nodes) |->
        LET visit == IF seg.desc THEN DescOrSelf(nodes[k]) ELSE <<nodes[k]>>
        IN  FlattenSeq([d \in 1..Len(visit) |->
                FlattenSeq([j \in 1..Len(seg.sels) |-> ISel(seg.sels[j], visit[d], root, reg)])])])
ISegs(segs, nodes, root, reg) ==
    IF segs = <<>> THEN nodes ELSE ISegs(Tail(segs), ISeg(Head(segs), nodes, root, reg), root, reg)

\* FilterExpression.evaluate: _is_truthy(expression.evaluate(context))
IFilterHolds(e, cur, root, reg) == IsTruthy(IEval(e, cur, root, reg))

\* Expression.evaluate(context): context.current = cur (a VALUE: the filter context carries no location), context.root = root
IEval(e, cur, root, reg) ==
    CASE e.t = "lit" -> e.v
      [] e.t = "not" -> PyB(~IsTruthy(IEval(e.e, cur, root, reg)))
      [] e.t \in {"and", "or"} ->
            PyB(ImplCompare(IEval(e.l, cur, root, reg), IF e.t = "and" THEN "&&" ELSE "||", IEval(e.r, cur, root, reg)))
      [] e.t = "cmp" ->
            LET l0 == IEval(e.l, cur, root, reg)
                l  == IF IsNL(l0) /\ Len(l0.ns) = 1 THEN l0.ns[1].v ELSE l0
                r0 == IEval(e.r, cur, root, reg)
                r  == IF IsNL(r0) /\ Len(r0.ns) = 1 THEN r0.ns[1].v ELSE r0
            IN  PyB(ImplCompare(l, e.op, r))
      [] e.t = "query" ->
            IF e.abs THEN NL(ISegs(e.segs, <<[loc |-> <<>>, v |-> root]>>, root, reg))       \* query.find(context.root)
            ELSE IF cur.k \notin {"arr", "obj"} THEN
                (IF e.segs = <<>> THEN NL(<<[loc |-> <<>>, v |-> cur]>>) ELSE NL(<<>>))
            ELSE NL(ISegs(e.segs, <<[loc |-> <<>>, v |-> cur]>>, root, reg))
      [] e.t = "call" -> ICall(e, cur, root, reg)

\* FunctionExtension.evaluate with _unpack_node_lists, then the function's __call__
ICall(e, cur, root, reg) ==
    LET sg == Sig(reg, e.f)
    IN  IF sg = <<>> THEN Nothing                         \* except KeyError: return NOTHING
        ELSE
        LET sig  == sg[1]
            raw  == [k \in 1..Len(e.args) |-> IEval(e.args[k], cur, root, reg)]
            unp(k) == LET a == raw[k]
                      IN  IF sig.params[k] = "L" THEN PyB(IsTruthy(a))
                          ELSE IF sig.params[k] # "N" /\ IsNL(a) THEN
                              (IF Len(a.ns) = 0 THEN Nothing ELSE IF Len(a.ns) = 1 THEN a.ns[1].v ELSE a)
                          ELSE a
            args == [k \in 1..Len(e.args) |-> unp(k)]
        IN  CASE sig.sem = "length" ->
                    \* len(obj) / except TypeError: NOTHING
                    LET a == args[1]
                    IN  CASE a.k = "str" -> Num(Len(a.s), 0) [] a.k = "arr" -> Num(Len(a.xs), 0) [] a.k = "obj" -> Num(Len(a.ms), 0)
                          [] a.k = "nl" -> Num(Len(a.ns), 0) [] OTHER -> Nothing
              [] sig.sem = "count" -> Num(Len(args[1].ns), 0)
              [] sig.sem = "value" -> IF Len(args[1].ns) = 1 THEN args[1].ns[1].v ELSE Nothing
              [] sig.sem \in {"match", "search"} ->
                    \* isinstance checks, then the regex engine (represented by IRegexp.tla)
                    IF args[1].k # "str" \/ args[2].k # "str" THEN PyFalse
                    ELSE LET rv == ReVerdict(args[2].s, args[1].s)
                         IN  IF rv.dc # "" THEN [k |-> "dontcare"] ELSE PyB(IF sig.sem = "match" THEN rv.m ELSE rv.s)
              [] OTHER -> [k |-> "dontcare"]                    \* user-registered functions: not in this model

\* JSONPathQuery.find: finditer from the root node
ImplFind(segs, doc, reg) == ISegs(segs, <<[loc |-> <<>>, v |-> doc]>>, doc, reg)
=============================================================================
