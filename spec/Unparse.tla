------------------------------- MODULE Unparse -------------------------------
(***************************************************************************)
(* A serialiser of the AST in the specification itself: Unparse(segs) is   *)
(* one canonical text of the query - bracket notation throughout, names    *)
(* and string literals in the normal single-quoted form of NormPath.tla,   *)
(* numbers as <digits>e<exponent>, every operand of '!', '&&', '||' that   *)
(* is itself an operator application in parentheses.                       *)
(* T2 (MC_Parser.tla): Parse(Unparse(a)) = a up to the normal form NF, on  *)
(* every query the unit texts produce - the parser and the serialiser are  *)
(* two formulations that must agree.  The text is also a generated input:  *)
(* the implementation must accept it and select what it selects for the    *)
(* original text (./check EXTRA).  Nothing obliges the implementation's    *)
(* own str() to spell queries this way (C12 asks for faithfulness, not for *)
(* this spelling).                                                         *)
(***************************************************************************)
EXTENDS Canon

RECURSIVE NatText(_)
NatText(n) == IF n < 10 THEN <<48 + n>> ELSE NatText(n \div 10) \o <<48 + (n % 10)>>
IntText(n) == IF n < 0 THEN <<45>> \o NatText(-n) ELSE NatText(n)
DigitsText(ds) == [k \in 1..Len(ds) |-> 48 + ds[k]]
IntLitText(x) == (IF x.neg THEN <<45>> ELSE <<>>) \o DigitsText(x.ds)

\* a number value [neg, ds, e] as  [-]digits e exponent   (zero: "0")
NumText(v) ==
    IF v.ds = <<>> THEN <<48>>
    ELSE (IF v.neg THEN <<45>> ELSE <<>>) \o DigitsText(v.ds) \o (IF v.e = 0 THEN <<>> ELSE <<101>> \o IntText(v.e))

LitText(v) ==
    CASE v.k = "null" -> <<110, 117, 108, 108>>
      [] v.k = "bool" -> (IF v.b THEN <<116, 114, 117, 101>> ELSE <<102, 97, 108, 115, 101>>)
      [] v.k = "num"  -> NumText(v)
      [] v.k = "str"  -> CanonicalString(v.s)

RECURSIVE JoinWith(_, _)
JoinWith(parts, sep) == IF parts = <<>> THEN <<>> ELSE IF Len(parts) = 1 THEN parts[1] ELSE parts[1] \o sep \o JoinWith(Tail(parts), sep)

OptInt(mx) == IF mx = <<>> THEN <<>> ELSE IntLitText(mx[1])

OpCodes(op) == CASE op = "==" -> <<61, 61>> [] op = "!=" -> <<33, 61>> [] op = "<" -> <<60>> [] op = "<=" -> <<60, 61>>
                 [] op = ">" -> <<62>> [] op = ">=" -> <<62, 61>>

RECURSIVE USegs(_), UExpr(_), UOperand(_)
USel(sel) ==
    CASE sel.t = "name"   -> CanonicalString(sel.n)
      [] sel.t = "idx"    -> IntLitText(sel.i)
      [] sel.t = "slice"  -> OptInt(sel.s) \o <<58>> \o OptInt(sel.e) \o (IF sel.st = <<>> THEN <<>> ELSE <<58>> \o OptInt(sel.st))
      [] sel.t = "wild"   -> <<42>>
      [] sel.t = "filter" -> <<63>> \o UExpr(sel.e)
USegs(segs) ==
    FlattenSeq([k \in 1..Len(segs) |->
        (IF segs[k].desc THEN <<46, 46>> ELSE <<>>) \o <<91>>
        \o JoinWith([j \in 1..Len(segs[k].sels) |-> USel(segs[k].sels[j])], <<44>>) \o <<93>>])
\* an operand of ! && ||: operator applications go in parentheses
UOperand(e) == IF e.t \in {"or", "and", "cmp", "not"} THEN <<40>> \o UExpr(e) \o <<41>> ELSE UExpr(e)
UExpr(e) ==
    CASE e.t = "or"    -> UOperand(e.l) \o <<124, 124>> \o UOperand(e.r)
      [] e.t = "and"   -> UOperand(e.l) \o <<38, 38>> \o UOperand(e.r)
      [] e.t = "not"   -> <<33>> \o UOperand(e.e)
      [] e.t = "paren" -> <<40>> \o UExpr(e.e) \o <<41>>
      [] e.t = "cmp"   -> UExpr(e.l) \o OpCodes(e.op) \o UExpr(e.r)
      [] e.t = "query" -> (IF e.abs THEN <<36>> ELSE <<64>>) \o USegs(e.segs)
      [] e.t = "call"  -> e.f \o <<40>> \o JoinWith([k \in 1..Len(e.args) |-> UExpr(e.args[k])], <<44>>) \o <<41>>
      [] e.t = "lit"   -> LitText(e.v)

Unparse(segs) == <<36>> \o USegs(segs)
=============================================================================
