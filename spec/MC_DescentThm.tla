-------------------- MODULE MC_DescentThm --------------------
EXTENDS MC_Descent
(* constant-level theorems of Descent.tla *)
ASSUME T8aF(0)
ASSUME T8a_smallF(0)
ASSUME CountsF(0)
ASSUME T8eF(0)
ASSUME T8e_smallF(0)
MCGraphs == {GraphOf(Z)}
======================================================================
