-------------------------------- MODULE ABNF --------------------------------
(***************************************************************************)
(* RFC 9535 Appendix A held as DATA: a function from rule name to an       *)
(* expression tree, transcribed line by line (including the ABNF rule that *)
(* quoted strings are case-insensitive and %x.. terminals are not), and a  *)
(* generic recogniser with set-of-end-positions semantics - complete for   *)
(* any grammar without left recursion.  This is a second, independent      *)
(* formulation of the syntax; theorem T1 (checked by TLC on enumerated and *)
(* sampled strings) says it accepts exactly what Syntax!Parse(.., TRUE)    *)
(* accepts.                                                                *)
(*                                                                         *)
(*   expr  [t |-> "rng", lo, hi] | [t |-> "cat", xs] | [t |-> "alt", xs]   *)
(*       | [t |-> "rep", x, lo, hi]   (hi = -1: unbounded) | [t |-> "nt", n]*)
(***************************************************************************)
EXTENDS Integers, Sequences, FiniteSets

Rng(lo, hi) == [t |-> "rng", lo |-> lo, hi |-> hi]
Ch(c)       == Rng(c, c)
Cat(xs)     == [t |-> "cat", xs |-> xs]
Alt(xs)     == [t |-> "alt", xs |-> xs]
Rep(x, lo, hi) == [t |-> "rep", x |-> x, lo |-> lo, hi |-> hi]
Star(x)     == Rep(x, 0, -1)
Plus(x)     == Rep(x, 1, -1)
Opt(x)      == Rep(x, 0, 1)
NT(n)       == [t |-> "nt", n |-> n]

\* ABNF quoted string: case-insensitive for letters
CI(c) == IF c >= 65 /\ c <= 90 THEN Alt(<<Ch(c), Ch(c + 32)>>)
         ELSE IF c >= 97 /\ c <= 122 THEN Alt(<<Ch(c), Ch(c - 32)>>)
         ELSE Ch(c)
Q(cs)  == Cat([k \in 1..Len(cs) |-> CI(cs[k])])          \* "..." in ABNF
X(cs)  == Cat([k \in 1..Len(cs) |-> Ch(cs[k])])          \* %x..  in ABNF (case-sensitive)

S   == NT("S")
ESC == Ch(92)
DIGIT  == Rng(48, 57)
HEXDIG == Alt(<<DIGIT, CI(65), CI(66), CI(67), CI(68), CI(69), CI(70)>>)

Rules9535 == [
  \* jsonpath-query      = root-identifier segments
  jsonpath_query |-> Cat(<<NT("root_identifier"), NT("segments")>>),
  \* segments            = *(S segment)
  segments |-> Star(Cat(<<S, NT("segment")>>)),
  \* B = %x20 / %x09 / %x0A / %x0D      S = *B
  B |-> Alt(<<Ch(32), Ch(9), Ch(10), Ch(13)>>),
  S |-> Star(NT("B")),
  root_identifier |-> Q(<<36>>),
  \* selector = name-selector / wildcard-selector / slice-selector / index-selector / filter-selector
  selector |-> Alt(<<NT("name_selector"), NT("wildcard_selector"), NT("slice_selector"), NT("index_selector"), NT("filter_selector")>>),
  name_selector |-> NT("string_literal"),
  \* string-literal = %x22 *double-quoted %x22 / %x27 *single-quoted %x27
  string_literal |-> Alt(<<Cat(<<Ch(34), Star(NT("double_quoted")), Ch(34)>>), Cat(<<Ch(39), Star(NT("single_quoted")), Ch(39)>>)>>),
  \* double-quoted = unescaped / %x27 / ESC %x22 / ESC escapable
  double_quoted |-> Alt(<<NT("unescaped"), Ch(39), Cat(<<ESC, Ch(34)>>), Cat(<<ESC, NT("escapable")>>)>>),
  single_quoted |-> Alt(<<NT("unescaped"), Ch(34), Cat(<<ESC, Ch(39)>>), Cat(<<ESC, NT("escapable")>>)>>),
  \* unescaped = %x20-21 / %x23-26 / %x28-5B / %x5D-D7FF / %xE000-10FFFF
  unescaped |-> Alt(<<Rng(32, 33), Rng(35, 38), Rng(40, 91), Rng(93, 55295), Rng(57344, 1114111)>>),
  \* escapable = %x62 / %x66 / %x6E / %x72 / %x74 / "/" / "\" / (%x75 hexchar)
  escapable |-> Alt(<<Ch(98), Ch(102), Ch(110), Ch(114), Ch(116), Q(<<47>>), Q(<<92>>), Cat(<<Ch(117), NT("hexchar")>>)>>),
  \* hexchar = non-surrogate / (high-surrogate "\" %x75 low-surrogate)
  hexchar |-> Alt(<<NT("non_surrogate"), Cat(<<NT("high_surrogate"), Q(<<92>>), Ch(117), NT("low_surrogate")>>)>>),
  \* non-surrogate = ((DIGIT / "A"/"B"/"C" / "E"/"F") 3HEXDIG) / ("D" %x30-37 2HEXDIG )
  non_surrogate |-> Alt(<<Cat(<<Alt(<<DIGIT, CI(65), CI(66), CI(67), CI(69), CI(70)>>), Rep(HEXDIG, 3, 3)>>),
                          Cat(<<CI(68), Rng(48, 55), Rep(HEXDIG, 2, 2)>>)>>),
  \* high-surrogate = "D" ("8"/"9"/"A"/"B") 2HEXDIG      low-surrogate = "D" ("C"/"D"/"E"/"F") 2HEXDIG
  high_surrogate |-> Cat(<<CI(68), Alt(<<Ch(56), Ch(57), CI(65), CI(66)>>), Rep(HEXDIG, 2, 2)>>),
  low_surrogate  |-> Cat(<<CI(68), Alt(<<CI(67), CI(68), CI(69), CI(70)>>), Rep(HEXDIG, 2, 2)>>),
  wildcard_selector |-> Q(<<42>>),
  index_selector |-> NT("int"),
  \* int = "0" / (["-"] DIGIT1 *DIGIT)
  int |-> Alt(<<Q(<<48>>), Cat(<<Opt(Q(<<45>>)), Rng(49, 57), Star(DIGIT)>>)>>),
  \* slice-selector = [start S] ":" S [end S] [":" [S step ]]
  slice_selector |-> Cat(<<Opt(Cat(<<NT("int"), S>>)), Q(<<58>>), S, Opt(Cat(<<NT("int"), S>>)),
                           Opt(Cat(<<Q(<<58>>), Opt(Cat(<<S, NT("int")>>))>>))>>),
  \* filter-selector = "?" S logical-expr
  filter_selector |-> Cat(<<Q(<<63>>), S, NT("logical_expr")>>),
  logical_expr |-> NT("logical_or_expr"),
  \* logical-or-expr = logical-and-expr *(S "||" S logical-and-expr)
  logical_or_expr |-> Cat(<<NT("logical_and_expr"), Star(Cat(<<S, Q(<<124, 124>>), S, NT("logical_and_expr")>>))>>),
  logical_and_expr |-> Cat(<<NT("basic_expr"), Star(Cat(<<S, Q(<<38, 38>>), S, NT("basic_expr")>>))>>),
  \* basic-expr = paren-expr / comparison-expr / test-expr
  basic_expr |-> Alt(<<NT("paren_expr"), NT("comparison_expr"), NT("test_expr")>>),
  \* paren-expr = [logical-not-op S] "(" S logical-expr S ")"
  paren_expr |-> Cat(<<Opt(Cat(<<Q(<<33>>), S>>)), Q(<<40>>), S, NT("logical_expr"), S, Q(<<41>>)>>),
  \* test-expr = [logical-not-op S] (filter-query / function-expr)
  test_expr |-> Cat(<<Opt(Cat(<<Q(<<33>>), S>>)), Alt(<<NT("filter_query"), NT("function_expr")>>)>>),
  filter_query |-> Alt(<<NT("rel_query"), NT("jsonpath_query")>>),
  rel_query |-> Cat(<<Q(<<64>>), NT("segments")>>),
  \* comparison-expr = comparable S comparison-op S comparable
  comparison_expr |-> Cat(<<NT("comparable"), S, NT("comparison_op"), S, NT("comparable")>>),
  \* literal = number / string-literal / true / false / null
  literal |-> Alt(<<NT("number"), NT("string_literal"), X(<<116, 114, 117, 101>>), X(<<102, 97, 108, 115, 101>>), X(<<110, 117, 108, 108>>)>>),
  comparable |-> Alt(<<NT("literal"), NT("singular_query"), NT("function_expr")>>),
  comparison_op |-> Alt(<<Q(<<61, 61>>), Q(<<33, 61>>), Q(<<60, 61>>), Q(<<62, 61>>), Q(<<60>>), Q(<<62>>)>>),
  singular_query |-> Alt(<<NT("rel_singular_query"), NT("abs_singular_query")>>),
  rel_singular_query |-> Cat(<<Q(<<64>>), NT("singular_query_segments")>>),
  abs_singular_query |-> Cat(<<NT("root_identifier"), NT("singular_query_segments")>>),
  \* singular-query-segments = *(S (name-segment / index-segment))
  singular_query_segments |-> Star(Cat(<<S, Alt(<<NT("name_segment"), NT("index_segment")>>)>>)),
  \* name-segment = ("[" name-selector "]") / ("." member-name-shorthand)
  name_segment |-> Alt(<<Cat(<<Q(<<91>>), NT("name_selector"), Q(<<93>>)>>), Cat(<<Q(<<46>>), NT("member_name_shorthand")>>)>>),
  index_segment |-> Cat(<<Q(<<91>>), NT("index_selector"), Q(<<93>>)>>),
  \* number = (int / "-0") [ frac ] [ exp ]
  number |-> Cat(<<Alt(<<NT("int"), Q(<<45, 48>>)>>), Opt(NT("frac")), Opt(NT("exp"))>>),
  frac |-> Cat(<<Q(<<46>>), Plus(DIGIT)>>),
  \* exp = "e" [ "-" / "+" ] 1*DIGIT
  exp |-> Cat(<<Q(<<101>>), Opt(Alt(<<Q(<<45>>), Q(<<43>>)>>)), Plus(DIGIT)>>),
  \* function-name = function-name-first *function-name-char
  function_name |-> Cat(<<NT("function_name_first"), Star(NT("function_name_char"))>>),
  function_name_first |-> Rng(97, 122),
  function_name_char |-> Alt(<<NT("function_name_first"), Q(<<95>>), DIGIT>>),
  \* function-expr = function-name "(" S [function-argument *(S "," S function-argument)] S ")"
  function_expr |-> Cat(<<NT("function_name"), Q(<<40>>), S,
                          Opt(Cat(<<NT("function_argument"), Star(Cat(<<S, Q(<<44>>), S, NT("function_argument")>>))>>)), S, Q(<<41>>)>>),
  \* function-argument = literal / filter-query / logical-expr / function-expr
  function_argument |-> Alt(<<NT("literal"), NT("filter_query"), NT("logical_expr"), NT("function_expr")>>),
  segment |-> Alt(<<NT("child_segment"), NT("descendant_segment")>>),
  \* child-segment = bracketed-selection / ("." (wildcard-selector / member-name-shorthand))
  child_segment |-> Alt(<<NT("bracketed_selection"), Cat(<<Q(<<46>>), Alt(<<NT("wildcard_selector"), NT("member_name_shorthand")>>)>>)>>),
  \* bracketed-selection = "[" S selector *(S "," S selector) S "]"
  bracketed_selection |-> Cat(<<Q(<<91>>), S, NT("selector"), Star(Cat(<<S, Q(<<44>>), S, NT("selector")>>)), S, Q(<<93>>)>>),
  member_name_shorthand |-> Cat(<<NT("name_first"), Star(NT("name_char"))>>),
  \* name-first = ALPHA / "_" / %x80-D7FF / %xE000-10FFFF        name-char = name-first / DIGIT
  name_first |-> Alt(<<Rng(65, 90), Rng(97, 122), Q(<<95>>), Rng(128, 55295), Rng(57344, 1114111)>>),
  name_char |-> Alt(<<NT("name_first"), DIGIT>>),
  \* descendant-segment = ".." (bracketed-selection / wildcard-selector / member-name-shorthand)
  descendant_segment |-> Cat(<<Q(<<46, 46>>), Alt(<<NT("bracketed_selection"), NT("wildcard_selector"), NT("member_name_shorthand")>>)>>)
]

(* ---------------- generic recogniser ---------------------------------------- *)
RECURSIVE Ends(_, _, _, _), CatEndsG(_, _, _, _, _), RepUp(_, _, _, _, _), RepClosure(_, _, _, _), RepMin(_, _, _, _, _)
\* the set of positions at which e can stop when started at any position of I (positions 1..Len(s)+1)
Ends(G, e, s, I) ==
    IF I = {} THEN {}
    ELSE CASE e.t = "rng" -> {i + 1 : i \in {j \in I : j <= Len(s) /\ s[j] >= e.lo /\ s[j] <= e.hi}}
           [] e.t = "cat" -> CatEndsG(G, e.xs, 1, s, I)
           [] e.t = "alt" -> UNION {Ends(G, e.xs[k], s, I) : k \in 1..Len(e.xs)}
           [] e.t = "nt"  -> Ends(G, G[e.n], s, I)
           [] e.t = "rep" ->
                 LET base == RepMin(G, e.x, e.lo, s, I)
                 IN  IF e.hi = -1 THEN RepClosure(G, e.x, s, base)
                     ELSE RepUp(G, e.x, e.hi - e.lo, s, base)
CatEndsG(G, xs, k, s, I) == IF k > Len(xs) THEN I ELSE CatEndsG(G, xs, k + 1, s, Ends(G, xs[k], s, I))
RepMin(G, x, n, s, I) == IF n = 0 THEN I ELSE RepMin(G, x, n - 1, s, Ends(G, x, s, I))
RepUp(G, x, n, s, I) == IF n = 0 THEN I ELSE RepUp(G, x, n - 1, s, I \cup Ends(G, x, s, I))
RepClosure(G, x, s, I) == LET J == I \cup Ends(G, x, s, I) IN IF J = I THEN I ELSE RepClosure(G, x, s, J)

Accepts(G, start, s) == (Len(s) + 1) \in Ends(G, G[start], s, {1})
AcceptsQuery(s) == Accepts(Rules9535, "jsonpath_query", s)
=============================================================================
