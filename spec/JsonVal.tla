------------------------------ MODULE JsonVal ------------------------------
(***************************************************************************)
(* Value model shared by every module of the specification.                *)
(*                                                                         *)
(*  - Text is Seq(Nat): a sequence of Unicode scalar values (code points). *)
(*  - JSON values are tagged records, so that TLC never has to compare     *)
(*    values of different TLA+ types:                                      *)
(*      [k |-> "null"]               [k |-> "bool", b |-> TRUE]            *)
(*      [k |-> "num", neg |-> FALSE, ds |-> <<1, 5>>, e |-> -1]            *)
(*                               (the decimal  +-ds * 10^e, any size)      *)
(*      [k |-> "str", s |-> <<97>>]                                        *)
(*      [k |-> "arr", xs |-> << v1, v2 >>]                                 *)
(*      [k |-> "obj", ms |-> << [n |-> <<97>>, v |-> v1], ... >>]          *)
(*    Object members are a SEQUENCE: "the mapping's own order".            *)
(*  - Nothing (RFC 9535 2.4.1) is [k |-> "nothing"].                       *)
(*  - A node is [loc |-> Seq([i: Nat] \cup [n: Text]), v |-> Value].        *)
(*  - Numbers are normalised decimals of arbitrary size: ds is the digit    *)
(*    sequence of the significand without leading or trailing zeros (<<>>  *)
(*    for zero, then neg = FALSE and e = 0).  Equality and order work on   *)
(*    digit sequences, so nothing depends on TLC's 32-bit integers.        *)
(***************************************************************************)
EXTENDS Integers, Sequences, FiniteSets, SequencesExt, TLC

Null       == [k |-> "null"]
Bool(b)    == [k |-> "bool", b |-> b]
Str(s)     == [k |-> "str", s |-> s]
Arr(xs)    == [k |-> "arr", xs |-> xs]
Obj(ms)    == [k |-> "obj", ms |-> ms]
Mem(n, v)  == [n |-> n, v |-> v]
Nothing    == [k |-> "nothing"]

Abs(x) == IF x < 0 THEN -x ELSE x
Min2(a, b) == IF a < b THEN a ELSE b
Max2(a, b) == IF a > b THEN a ELSE b

RECURSIVE Pow10(_)
Pow10(n) == IF n <= 0 THEN 1 ELSE 10 * Pow10(n - 1)

RECURSIVE NDigits(_)
NDigits(n) == IF n < 10 THEN 1 ELSE 1 + NDigits(n \div 10)   \* n >= 0

\* digits of a natural number (most significant first); <<>> for 0
RECURSIVE NatDs(_)
NatDs(n) == IF n = 0 THEN <<>> ELSE Append(NatDs(n \div 10), n % 10)
RECURSIVE DropLeadZ(_)
DropLeadZ(ds) == IF Len(ds) > 0 /\ ds[1] = 0 THEN DropLeadZ(Tail(ds)) ELSE ds
RECURSIVE DropTrailZ(_)
DropTrailZ(ds) == IF Len(ds) > 0 /\ ds[Len(ds)] = 0 THEN DropTrailZ(SubSeq(ds, 1, Len(ds) - 1)) ELSE ds

\* the number  +-(digits) * 10^e, normalised
NumDs(neg, digits, e) ==
    LET lead == DropLeadZ(digits)
        sig  == DropTrailZ(lead)
    IN  IF sig = <<>> THEN [k |-> "num", neg |-> FALSE, ds |-> <<>>, e |-> 0]
        ELSE [k |-> "num", neg |-> neg, ds |-> sig, e |-> e + (Len(lead) - Len(sig))]
\* from a TLC integer significand (used by the MC_* instances and for lengths / counts)
Num(m, e) == NumDs(m < 0, NatDs(Abs(m)), e)
IntV(i)   == Num(i, 0)

IsNormNum(v) == /\ v.k = "num"
                /\ (v.ds = <<>> => (v.e = 0 /\ ~v.neg))
                /\ (v.ds # <<>> => (v.ds[1] # 0 /\ v.ds[Len(v.ds)] # 0))
                /\ \A i \in 1..Len(v.ds) : v.ds[i] \in 0..9

(* ---------------- numbers: order on normalised decimals ---------------- *)
IsZero(a) == a.ds = <<>>
Sign(a) == IF IsZero(a) THEN 0 ELSE IF a.neg THEN -1 ELSE 1
Mag(a)  == Len(a.ds) + a.e                    \* position of the leading digit, a # 0

\* lexicographic order on significands without trailing zeros: a proper prefix is smaller
RECURSIVE DsLtFrom(_, _, _)
DsLtFrom(x, y, i) ==
    IF i > Len(y) THEN FALSE
    ELSE IF i > Len(x) THEN TRUE
    ELSE IF x[i] # y[i] THEN x[i] < y[i]
    ELSE DsLtFrom(x, y, i + 1)

AbsLt(a, b) ==   \* |a| < |b| for a # 0, b # 0
    IF Mag(a) # Mag(b) THEN Mag(a) < Mag(b) ELSE DsLtFrom(a.ds, b.ds, 1)

NumEq(a, b) == a.neg = b.neg /\ a.ds = b.ds /\ a.e = b.e
NumLt(a, b) ==
    LET sa == Sign(a)  sb == Sign(b)
    IN  IF sa # sb THEN sa < sb
        ELSE IF sa = 0 THEN FALSE
        ELSE IF sa > 0 THEN AbsLt(a, b)
        ELSE AbsLt(b, a)

(* ---------------- text: order by code points --------------------------- *)
RECURSIVE TextLtFrom(_, _, _)
TextLtFrom(a, b, i) ==
    IF i > Len(b) THEN FALSE
    ELSE IF i > Len(a) THEN TRUE
    ELSE IF a[i] # b[i] THEN a[i] < b[i]
    ELSE TextLtFrom(a, b, i + 1)
TextLt(a, b) == TextLtFrom(a, b, 1)

(* ---------------- RFC 9535 2.3.5.2.2  comparison table ----------------- *)
RECURSIVE Eq(_, _)
Eq(a, b) ==
    IF a.k # b.k THEN FALSE
    ELSE CASE a.k = "nothing" -> TRUE
           [] a.k = "null"    -> TRUE
           [] a.k = "bool"    -> a.b = b.b
           [] a.k = "num"     -> NumEq(a, b)
           [] a.k = "str"     -> a.s = b.s
           [] a.k = "arr"     -> /\ Len(a.xs) = Len(b.xs)
                                 /\ \A i \in 1..Len(a.xs) : Eq(a.xs[i], b.xs[i])
           [] a.k = "obj"     -> /\ Len(a.ms) = Len(b.ms)
                                 /\ \A i \in 1..Len(a.ms) :
                                      \E j \in 1..Len(b.ms) :
                                         /\ a.ms[i].n = b.ms[j].n
                                         /\ Eq(a.ms[i].v, b.ms[j].v)
           [] OTHER           -> FALSE

Lt(a, b) ==
    IF a.k = "num" /\ b.k = "num" THEN NumLt(a, b)
    ELSE IF a.k = "str" /\ b.k = "str" THEN TextLt(a.s, b.s)
    ELSE FALSE

CmpOps == {"==", "!=", "<", "<=", ">", ">="}
Cmp(op, a, b) ==
    CASE op = "==" -> Eq(a, b)
      [] op = "!=" -> ~Eq(a, b)
      [] op = "<"  -> Lt(a, b)
      [] op = ">"  -> Lt(b, a)
      [] op = "<=" -> Lt(a, b) \/ Eq(a, b)
      [] op = ">=" -> Lt(b, a) \/ Eq(a, b)

(* ---------------- structure ------------------------------------------- *)
IsContainer(v) == v.k \in {"arr", "obj"}

RootNode(doc) == [loc |-> <<>>, v |-> doc]

Children(nd) ==
    IF nd.v.k = "arr"
    THEN [i \in 1..Len(nd.v.xs) |->
             [loc |-> Append(nd.loc, [i |-> i - 1]), v |-> nd.v.xs[i]]]
    ELSE IF nd.v.k = "obj"
    THEN [i \in 1..Len(nd.v.ms) |->
             [loc |-> Append(nd.loc, [n |-> nd.v.ms[i].n]), v |-> nd.v.ms[i].v]]
    ELSE <<>>

\* the node itself and all its descendants, document pre-order
RECURSIVE DescOrSelf(_)
DescOrSelf(nd) ==
    LET cs == Children(nd)
    IN  <<nd>> \o FlattenSeq([i \in 1..Len(cs) |-> DescOrSelf(cs[i])])

\* maximum number of containers on a root-to-leaf path
RECURSIVE Nesting(_)
Nesting(v) ==
    IF ~IsContainer(v) THEN 0
    ELSE LET cs == Children(RootNode(v))
         IN  1 + (IF cs = <<>> THEN 0
                  ELSE LET S == {Nesting(cs[i].v) : i \in 1..Len(cs)}
                       IN  CHOOSE x \in S : \A y \in S : y <= x)

IsIdxKey(key)  == DOMAIN key = {"i"}
IsNameKey(key) == DOMAIN key = {"n"}

\* follow a location from a value; <<>> when the location does not exist
RECURSIVE Locate(_, _)
Locate(v, loc) ==
    IF loc = <<>> THEN <<v>>
    ELSE LET key == Head(loc)
             cs  == Children(RootNode(v))
             hit == SelectSeq(cs, LAMBDA c : c.loc[1] = key)
         IN  IF hit = <<>> THEN <<>> ELSE Locate(hit[1].v, Tail(loc))

\* well-formedness of a value as delivered by the harness
RECURSIVE WfValue(_)
WfValue(v) ==
    CASE v.k \in {"null"} -> TRUE
      [] v.k = "bool" -> v.b \in BOOLEAN
      [] v.k = "num"  -> IsNormNum(v)
      [] v.k = "str"  -> \A i \in 1..Len(v.s) : v.s[i] \in 0..1114111
      [] v.k = "arr"  -> \A i \in 1..Len(v.xs) : WfValue(v.xs[i])
      [] v.k = "obj"  -> /\ \A i \in 1..Len(v.ms) : WfValue(v.ms[i].v)
                         /\ \A i, j \in 1..Len(v.ms) : i # j => v.ms[i].n # v.ms[j].n
      [] OTHER -> FALSE

(* ---------------- bounded universes (used by the MC_* instances) ------- *)
RECURSIVE SeqsUpTo(_, _)
SeqsUpTo(S, n) == IF n = 0 THEN {<<>>}
                  ELSE LET P == SeqsUpTo(S, n - 1)
                       IN  P \cup {Append(p, x) : p \in {q \in P : Len(q) = n - 1}, x \in S}

\* object member lists: sequences of distinct names from Names, in any order
ObjsOver(Names, Vs, w) ==
    LET NameSeqs == {ns \in SeqsUpTo(Names, w) : \A i, j \in 1..Len(ns) : i # j => ns[i] # ns[j]}
    IN  UNION {{Obj([i \in 1..Len(ns) |-> Mem(ns[i], vs[i])]) : vs \in [1..Len(ns) -> Vs]} : ns \in NameSeqs}

RECURSIVE Vals(_, _, _, _)
Vals(h, w, Scalars, Names) ==
    IF h = 0 THEN Scalars
    ELSE LET Sub == Vals(h - 1, w, Scalars, Names)
         IN  Scalars \cup {Arr(xs) : xs \in SeqsUpTo(Sub, w)} \cup ObjsOver(Names, Sub, w)
=============================================================================
