------------------------------ MODULE ErrorPos ------------------------------
(***************************************************************************)
(* Line and column of an offset in a query text (C19).  Offsets are        *)
(* 0-based, between 0 and Len(text) inclusive.  Lines are 1-based, columns *)
(* 0-based (the convention the implementation's two single-line tests      *)
(* pin); LF is the only line terminator, CR an ordinary character.         *)
(***************************************************************************)
EXTENDS Integers, Sequences

\* number of LF among the first `off` characters
RECURSIVE CountLF(_, _)
CountLF(text, off) == IF off = 0 THEN 0
                      ELSE (IF text[off] = 10 THEN 1 ELSE 0) + CountLF(text, off - 1)
\* 0-based offset of the first character of the line containing offset `off`
RECURSIVE LineStart(_, _)
LineStart(text, off) == IF off = 0 THEN 0
                        ELSE IF text[off] = 10 THEN off
                        ELSE LineStart(text, off - 1)

Position(text, off) == <<1 + CountLF(text, off), off - LineStart(text, off)>>

\* inverse: the offset of (line, col), for T14
RECURSIVE NthLineStart(_, _, _)
NthLineStart(text, line, from) ==
    IF line = 1 THEN from
    ELSE IF from >= Len(text) THEN from
    ELSE IF text[from + 1] = 10 THEN NthLineStart(text, line - 1, from + 1)
    ELSE NthLineStart(text, line, from + 1)
Offset(text, line, col) == NthLineStart(text, line, 0) + col
=============================================================================
