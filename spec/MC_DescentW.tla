-------------------- MODULE MC_DescentW --------------------
EXTENDS MC_Descent
MCGraphs == WitnessGraphsF(0)
======================================================================
