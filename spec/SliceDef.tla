------------------------------ MODULE SliceDef ------------------------------
(***************************************************************************)
(* RFC 9535 2.3.3 (index selector) and 2.3.4.2.2 (slice normalisation,     *)
(* bounds and iteration) in closed form.  An omitted component is <<>>, a  *)
(* present one <<x>>.  Slice.tla holds the same procedure as the RFC's     *)
(* step-by-step pseudo-code (PlusCal) and TLC checks that the two agree.   *)
(***************************************************************************)
EXTENDS Integers, Sequences

Normalize(i, len) == IF i >= 0 THEN i ELSE len + i

SMin(a, b) == IF a < b THEN a ELSE b
SMax(a, b) == IF a > b THEN a ELSE b

StepOf(st)          == IF st = <<>> THEN 1 ELSE st[1]
StartOf(s, step, len) == IF s # <<>> THEN s[1] ELSE IF step >= 0 THEN 0 ELSE len - 1
EndOf(e, step, len)   == IF e # <<>> THEN e[1] ELSE IF step >= 0 THEN len ELSE -len - 1

Lower(start, end, step, len) ==
    IF step >= 0 THEN SMin(SMax(Normalize(start, len), 0), len)
    ELSE SMin(SMax(Normalize(end, len), -1), len - 1)
Upper(start, end, step, len) ==
    IF step >= 0 THEN SMin(SMax(Normalize(end, len), 0), len)
    ELSE SMin(SMax(Normalize(start, len), -1), len - 1)

RECURSIVE UpFrom(_, _, _)
UpFrom(i, upper, step)   == IF i < upper THEN <<i>> \o UpFrom(i + step, upper, step) ELSE <<>>
RECURSIVE DownFrom(_, _, _)
DownFrom(i, lower, step) == IF lower < i THEN <<i>> \o DownFrom(i + step, lower, step) ELSE <<>>

\* the sequence of (0-based, non-negative) indices selected by [s:e:st] on an array of length len
SliceIdx(len, s, e, st) ==
    LET step  == StepOf(st)
        start == StartOf(s, step, len)
        end   == EndOf(e, step, len)
        lo    == Lower(start, end, step, len)
        up    == Upper(start, end, step, len)
    IN  IF step > 0 THEN UpFrom(lo, up, step)
        ELSE IF step < 0 THEN DownFrom(up, lo, step)
        ELSE <<>>

\* the index selected by [i]: <<j>> or <<>>
IndexSel(len, i) ==
    LET j == Normalize(i, len) IN IF 0 <= j /\ j < len THEN <<j>> ELSE <<>>
=============================================================================
