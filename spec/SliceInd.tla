------------------------------ MODULE SliceInd ------------------------------
(***************************************************************************)
(* The RFC 9535 slice procedure of Slice.tla once more, typed for          *)
(* Apalache, for an UNBOUNDED statement of T4b: for every array length and *)
(* every start / end / step (arbitrary integers, present or omitted) each  *)
(* index the loop emits lies in 0..len-1 and the emitted indices are       *)
(* strictly monotone in the direction of step.  TLC checks the same on     *)
(* small constants (MC_Slice); here IndInv is shown inductive:             *)
(*     apalache-mc check --init=IndInit --inv=IndInv --length=1            *)
(*     apalache-mc check --init=Init    --inv=IndInv --length=0            *)
(* and IndInv implies Safe.  The emitted index is kept as `last` (with a   *)
(* counter), not as a sequence: the statement is about each emission.      *)
(***************************************************************************)
EXTENDS Integers

VARIABLES
    \* @type: Str;
    pc,
    \* @type: Int;
    len,
    \* @type: Bool;
    hasS,
    \* @type: Int;
    sv,
    \* @type: Bool;
    hasE,
    \* @type: Int;
    ev,
    \* @type: Bool;
    hasSt,
    \* @type: Int;
    stv,
    \* @type: Int;
    step,
    \* @type: Int;
    start,
    \* @type: Int;
    stop,
    \* @type: Int;
    nstart,
    \* @type: Int;
    nend,
    \* @type: Int;
    lower,
    \* @type: Int;
    upper,
    \* @type: Int;
    i,
    \* @type: Int;
    n,
    \* @type: Int;
    last

SMin(a, b) == IF a < b THEN a ELSE b
SMax(a, b) == IF a > b THEN a ELSE b

PCs == {"Defaults", "Norm", "Bounds", "Pick", "Up", "Down", "Done"}

Init ==
    /\ pc = "Defaults"
    /\ len \in Nat
    /\ hasS \in BOOLEAN /\ sv \in Int
    /\ hasE \in BOOLEAN /\ ev \in Int
    /\ hasSt \in BOOLEAN /\ stv \in Int
    /\ step = 0 /\ start = 0 /\ stop = 0 /\ nstart = 0 /\ nend = 0
    /\ lower = 0 /\ upper = 0 /\ i = 0 /\ n = 0 /\ last = 0

Defaults ==
    /\ pc = "Defaults"
    /\ step' = (IF hasSt THEN stv ELSE 1)
    /\ start' = (IF hasS THEN sv ELSE IF step' >= 0 THEN 0 ELSE len - 1)
    /\ stop' = (IF hasE THEN ev ELSE IF step' >= 0 THEN len ELSE -len - 1)
    /\ pc' = "Norm"
    /\ UNCHANGED <<len, hasS, sv, hasE, ev, hasSt, stv, nstart, nend, lower, upper, i, n, last>>

Norm ==
    /\ pc = "Norm"
    /\ nstart' = (IF start >= 0 THEN start ELSE len + start)
    /\ nend' = (IF stop >= 0 THEN stop ELSE len + stop)
    /\ pc' = "Bounds"
    /\ UNCHANGED <<len, hasS, sv, hasE, ev, hasSt, stv, step, start, stop, lower, upper, i, n, last>>

Bounds ==
    /\ pc = "Bounds"
    /\ IF step >= 0
       THEN /\ lower' = SMin(SMax(nstart, 0), len)
            /\ upper' = SMin(SMax(nend, 0), len)
       ELSE /\ upper' = SMin(SMax(nstart, -1), len - 1)
            /\ lower' = SMin(SMax(nend, -1), len - 1)
    /\ pc' = "Pick"
    /\ UNCHANGED <<len, hasS, sv, hasE, ev, hasSt, stv, step, start, stop, nstart, nend, i, n, last>>

Pick ==
    /\ pc = "Pick"
    /\ IF step > 0 THEN i' = lower /\ pc' = "Up"
       ELSE IF step < 0 THEN i' = upper /\ pc' = "Down"
       ELSE i' = i /\ pc' = "Done"
    /\ UNCHANGED <<len, hasS, sv, hasE, ev, hasSt, stv, step, start, stop, nstart, nend, lower, upper, n, last>>

\* out := Append(out, i) is "emit i": n counts the emissions, last is the one before
Up ==
    /\ pc = "Up"
    /\ IF i < upper
       THEN /\ n' = n + 1 /\ last' = i /\ i' = i + step /\ pc' = "Up"
       ELSE /\ pc' = "Done" /\ UNCHANGED <<i, n, last>>
    /\ UNCHANGED <<len, hasS, sv, hasE, ev, hasSt, stv, step, start, stop, nstart, nend, lower, upper>>

Down ==
    /\ pc = "Down"
    /\ IF lower < i
       THEN /\ n' = n + 1 /\ last' = i /\ i' = i + step /\ pc' = "Down"
       ELSE /\ pc' = "Done" /\ UNCHANGED <<i, n, last>>
    /\ UNCHANGED <<len, hasS, sv, hasE, ev, hasSt, stv, step, start, stop, nstart, nend, lower, upper>>

Next == Defaults \/ Norm \/ Bounds \/ Pick \/ Up \/ Down

(* ---- what is claimed, for every length and every component --------------------------- *)
\* the last emitted index is a position of the array; the next one to be emitted lies strictly beyond it
Safe ==
    /\ n > 0 => (0 <= last /\ last < len)
    /\ (pc = "Up" /\ n > 0) => i > last
    /\ (pc = "Down" /\ n > 0) => i < last
    /\ (pc = "Done" /\ step = 0) => n = 0

(* ---- the inductive invariant ------------------------------------------------------------ *)
AfterBounds == pc \in {"Pick", "Up", "Down", "Done"}
IndInv ==
    /\ pc \in PCs
    /\ len >= 0
    /\ n >= 0
    /\ pc \in {"Defaults", "Norm", "Bounds", "Pick"} => n = 0
    /\ pc \in {"Norm", "Bounds", "Pick", "Up", "Down", "Done"} => step = (IF hasSt THEN stv ELSE 1)
    /\ AfterBounds =>
          IF step >= 0 THEN 0 <= lower /\ lower <= len /\ 0 <= upper /\ upper <= len
          ELSE -1 <= lower /\ lower <= len - 1 /\ -1 <= upper /\ upper <= len - 1
    /\ pc = "Up" => (step > 0 /\ i >= lower)
    /\ pc = "Down" => (step < 0 /\ i <= upper)
    /\ (pc = "Done" /\ step = 0) => n = 0
    /\ n > 0 => (0 <= last /\ last < len /\ step # 0)
    /\ (n > 0 /\ pc \in {"Up", "Down", "Done"}) => i = last + step
    /\ (n > 0 /\ step > 0) => pc \in {"Up", "Done"}
    /\ (n > 0 /\ step < 0) => pc \in {"Down", "Done"}
    /\ Safe

\* an arbitrary state satisfying the invariant (Apalache: the variables are unconstrained integers)
IndInit ==
    /\ pc \in PCs
    /\ len \in Int /\ sv \in Int /\ ev \in Int /\ stv \in Int
    /\ hasS \in BOOLEAN /\ hasE \in BOOLEAN /\ hasSt \in BOOLEAN
    /\ step \in Int /\ start \in Int /\ stop \in Int /\ nstart \in Int /\ nend \in Int
    /\ lower \in Int /\ upper \in Int /\ i \in Int /\ n \in Int /\ last \in Int
    /\ IndInv
=============================================================================
