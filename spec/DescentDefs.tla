---------------------------- MODULE DescentDefs ----------------------------
(***************************************************************************)
(* Part 1 of the descendant-traversal specification: what RFC 9535 allows, *)
(* as sets (see Descent.tla for the traversal machines).                   *)
(***************************************************************************)
EXTENDS Eval, Json


(* ======================= Part 1: allowed results ========================== *)
RECURSIVE PermsOf(_)
PermsOf(seq) ==
    IF seq = <<>> THEN {<<>>}
    ELSE UNION {{<<seq[i]>> \o p : p \in PermsOf([j \in 1..(Len(seq) - 1) |-> IF j < i THEN seq[j] ELSE seq[j + 1]])}
                : i \in 1..Len(seq)}

RECURSIVE ConcatSets(_)
\* {s1 \o ... \o sn : si \in Ss[i]}
ConcatSets(Ss) ==
    IF Ss = <<>> THEN {<<>>}
    ELSE {a \o b : a \in Head(Ss), b \in ConcatSets(Tail(Ss))}

\* immediate predecessors of the node at loc, relative to the subtree rooted at base
Preds(loc, base) ==
    IF loc = base THEN {}
    ELSE LET parent == SubSeq(loc, 1, Len(loc) - 1)
             key    == loc[Len(loc)]
         IN  {parent} \cup (IF DOMAIN key = {"i"} /\ key.i > 0
                            THEN {Append(parent, [i |-> key.i - 1])} ELSE {})

RECURSIVE LE(_, _, _)
\* linear extensions: placed (sequence of nodes), remaining (set of nodes)
LE(placed, remaining, base) ==
    IF remaining = {} THEN {placed}
    ELSE LET done == {placed[k].loc : k \in 1..Len(placed)}
             ready == {x \in remaining : Preds(x.loc, base) \subseteq done}
         IN  UNION {LE(Append(placed, x), remaining \ {x}, base) : x \in ready}

LinExts(nd) == LET all == DescOrSelf(nd)
               IN  LE(<<>>, {all[k] : k \in 1..Len(all)}, nd.loc)

SelND(sel, nd, root, reg) ==
    LET r == ApplySel(sel, nd, root, reg)
    IN  IF sel.t \in {"wild", "filter"} /\ nd.v.k = "obj" THEN PermsOf(r) ELSE {r}
NodeND(sels, nd, root, reg) == ConcatSets([j \in 1..Len(sels) |-> SelND(sels[j], nd, root, reg)])

SegND(seg, nl, root, reg) ==
    ConcatSets([k \in 1..Len(nl) |->
        IF seg.desc
        THEN UNION {ConcatSets([d \in 1..Len(order) |-> NodeND(seg.sels, order[d], root, reg)]) : order \in LinExts(nl[k])}
        ELSE NodeND(seg.sels, nl[k], root, reg)])

RECURSIVE QueryND(_, _, _, _)
QueryND(segs, NLs, root, reg) ==
    IF segs = <<>> THEN NLs
    ELSE QueryND(Tail(segs), UNION {SegND(Head(segs), nl, root, reg) : nl \in NLs}, root, reg)

(* ---- the same sets through the visit orders of CONTAINERS only --------------------------- *)
\* A selector applied to a primitive value selects nothing, so when a primitive is visited is invisible in every result: the set of
\* permitted results is already determined by the orders in which the containers may be visited.  (T8e: the two formulations agree,
\* checked by TLC on the witnesses and small trees.)  The container formulation is what makes WIDE documents affordable: the
\* primitives, each free to go almost anywhere, multiply the linear extensions without adding a single result.
IsContNode(x) == x.v.k \in {"arr", "obj"}
\* predecessors among containers: the parent, and every container element with a smaller index of the same array
PredsC(x, all, base) ==
    IF x.loc = base THEN {}
    ELSE LET parent == SubSeq(x.loc, 1, Len(x.loc) - 1)
             key    == x.loc[Len(x.loc)]
         IN  {parent} \cup (IF DOMAIN key = {"i"}
                            THEN {y.loc : y \in {z \in all : /\ Len(z.loc) = Len(x.loc)
                                                              /\ SubSeq(z.loc, 1, Len(z.loc) - 1) = parent
                                                              /\ DOMAIN z.loc[Len(z.loc)] = {"i"}
                                                              /\ z.loc[Len(z.loc)].i < key.i}}
                            ELSE {})
RECURSIVE LEC(_, _, _, _)
LEC(placed, remaining, all, base) ==
    IF remaining = {} THEN {placed}
    ELSE LET done  == {placed[k].loc : k \in 1..Len(placed)}
             ready == {x \in remaining : PredsC(x, all, base) \subseteq done}
         IN  UNION {LEC(Append(placed, x), remaining \ {x}, all, base) : x \in ready}
LinExtsC(nd) ==
    IF ~IsContNode(nd) THEN {<<nd>>}
    ELSE LET ds  == DescOrSelf(nd)
             all == {ds[k] : k \in 1..Len(ds)} \cap {x \in {ds[k] : k \in 1..Len(ds)} : IsContNode(x)}
         IN  LEC(<<>>, all, all, nd.loc)
SegNDC(seg, nl, root, reg) ==
    ConcatSets([k \in 1..Len(nl) |->
        IF seg.desc
        THEN UNION {ConcatSets([d \in 1..Len(order) |-> NodeND(seg.sels, order[d], root, reg)]) : order \in LinExtsC(nl[k])}
        ELSE NodeND(seg.sels, nl[k], root, reg)])
RECURSIVE QueryNDC(_, _, _, _)
QueryNDC(segs, NLs, root, reg) ==
    IF segs = <<>> THEN NLs
    ELSE QueryNDC(Tail(segs), UNION {SegNDC(Head(segs), nl, root, reg) : nl \in NLs}, root, reg)

LocsOf(nl) == [k \in 1..Len(nl) |-> nl[k].loc]
AllowedResultsC(segs, doc, reg) ==
    {LocsOf(nl) : nl \in QueryNDC(segs, {<<RootNode(doc)>>}, doc, reg)}
\* every nodelist (as locations) RFC 9535 permits for the query on the document
AllowedResults(segs, doc, reg) ==
    {LocsOf(nl) : nl \in QueryND(segs, {<<RootNode(doc)>>}, doc, reg)}

=============================================================================
