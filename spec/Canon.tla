-------------------------------- MODULE Canon --------------------------------
(***************************************************************************)
(* Normal form of an AST for "means the same query" (C12), and the check   *)
(* that every string literal of a text is in canonical single-quoted form. *)
(***************************************************************************)
EXTENDS Eval, NormPath

RECURSIVE NFSegs(_), NFExpr(_), Flat(_, _)

NFSel(sel) ==
    CASE sel.t = "slice"  -> [t |-> "slice", s |-> sel.s, e |-> sel.e,
                              st |-> IF sel.st = <<>> THEN <<IntLit(FALSE, <<1>>)>> ELSE sel.st]
      [] sel.t = "filter" -> [t |-> "filter", e |-> NFExpr(sel.e)]
      [] OTHER -> sel
NFSegs(segs) ==
    [k \in 1..Len(segs) |->
        [desc |-> segs[k].desc, sels |-> [j \in 1..Len(segs[k].sels) |-> NFSel(segs[k].sels[j])]]]

\* operands of a maximal chain of the associative operator op, left to right
Flat(e, op) ==
    IF e.t = "paren" THEN Flat(e.e, op)
    ELSE IF e.t = op THEN Flat(e.l, op) \o Flat(e.r, op)
    ELSE <<NFExpr(e)>>

NFExpr(e) ==
    CASE e.t = "paren" -> NFExpr(e.e)
      [] e.t \in {"or", "and"} -> [t |-> e.t, xs |-> Flat(e, e.t)]
      [] e.t = "not"   -> [t |-> "not", e |-> NFExpr(e.e)]
      [] e.t = "cmp"   -> [t |-> "cmp", op |-> e.op, l |-> NFExpr(e.l), r |-> NFExpr(e.r)]
      [] e.t = "query" -> [t |-> "query", abs |-> e.abs, segs |-> NFSegs(e.segs)]
      [] e.t = "call"  -> [t |-> "call", f |-> e.f, args |-> [k \in 1..Len(e.args) |-> NFExpr(e.args[k])]]
      [] OTHER -> e

NF(segs) == NFSegs(segs)

\* every string literal of the (valid) text s is spelled canonically
RECURSIVE CanonScan(_, _)
CanonScan(s, i) ==
    IF i > Len(s) THEN TRUE
    ELSE IF s[i] = 39 \/ s[i] = 34 THEN
        LET r == StringLit(s, i)
        IN  /\ r.ok
            /\ SubSeq(s, i, r.i - 1) = CanonicalString(r.v)
            /\ CanonScan(s, r.i)
    ELSE CanonScan(s, i + 1)
StringsCanonical(s) == CanonScan(s, 1)
=============================================================================
