------------------------------ MODULE IRegexp ------------------------------
(***************************************************************************)
(* RFC 9485 (I-Regexp): the grammar as a recursive-descent parser to a     *)
(* regular-expression AST, and the matching semantics by sets of end       *)
(* positions.  Used by RFC 9535's match() (whole string) and search()      *)
(* (some substring).                                                       *)
(*                                                                         *)
(*   Re  [t |-> "alt", xs |-> Seq(Re)] | [t |-> "cat", xs |-> Seq(Re)]     *)
(*     | [t |-> "rep", x |-> Re, lo |-> Nat, hi |-> Nat \cup {-1}]         *)
(*     | [t |-> "chr", c] | [t |-> "dot"]                                  *)
(*     | [t |-> "cls", neg, items |-> Seq(Item)] | [t |-> "prop", neg, p]  *)
(*   Item [t |-> "rng", lo, hi] | [t |-> "prop", neg, p]                   *)
(*                                                                         *)
(* Declared don't-cares (ReParse(..).dc # ""): '^' or '$' outside a class  *)
(* (C11 excludes them), the class "[^]", reversed ranges, quantifier       *)
(* bounds outside the model's range, {n,m} with n > m.                     *)
(***************************************************************************)
EXTENDS Syntax

ROk(i, v, dc) == [ok |-> TRUE, i |-> i, v |-> v, dc |-> dc]
RFail(i, why) == [ok |-> FALSE, i |-> i, why |-> why, dc |-> ""]
Dc2(a, b) == IF a # "" THEN a ELSE b

MaxQuant == 6

IsNormalChar(c) ==
    \/ (c >= 0 /\ c <= 39) \/ c = 44 \/ c = 45 \/ (c >= 47 /\ c <= 62)
    \/ (c >= 64 /\ c <= 90) \/ (c >= 94 /\ c <= 122)
    \/ (c >= 126 /\ c <= 55295) \/ (c >= 57344 /\ c <= 1114111)

\* character after the backslash of a SingleCharEsc
IsSingleEscChar(d) ==
    \/ (d >= 40 /\ d <= 43) \/ d = 45 \/ d = 46 \/ d = 63 \/ (d >= 91 /\ d <= 94)
    \/ d = 110 \/ d = 114 \/ d = 116 \/ (d >= 123 /\ d <= 125)
SingleEscVal(d) == IF d = 110 THEN 10 ELSE IF d = 114 THEN 13 ELSE IF d = 116 THEN 9 ELSE d

IsCCcharRaw(c) ==
    \/ (c >= 0 /\ c <= 44) \/ (c >= 46 /\ c <= 90)
    \/ (c >= 94 /\ c <= 55295) \/ (c >= 57344 /\ c <= 1114111)

Minor(major) ==
    CASE major = 76 -> {108, 109, 111, 116, 117}          \* L: l m o t u
      [] major = 77 -> {99, 101, 110}                     \* M: c e n
      [] major = 78 -> {100, 108, 111}                    \* N: d l o
      [] major = 80 -> {99, 100, 101, 102, 105, 111, 115} \* P: c d e f i o s
      [] major = 90 -> {108, 112, 115}                    \* Z: l p s
      [] major = 83 -> {99, 107, 109, 111}                \* S: c k m o
      [] major = 67 -> {99, 102, 110, 111}                \* C: c f n o
      [] OTHER -> {}
IsMajor(c) == c \in {76, 77, 78, 80, 90, 83, 67}

\* charClassEsc at the backslash s[i] (s[i+1] is 'p' or 'P')
PropEsc(s, i) ==
    LET neg == At(s, i + 1) = 80
        mj  == At(s, i + 3)
        mn  == At(s, i + 4)
    IN  IF At(s, i + 2) # 123 \/ ~IsMajor(mj) THEN RFail(i + 2, "iregexp: category expected")
        ELSE IF mn = 125 THEN ROk(i + 5, [t |-> "prop", neg |-> neg, p |-> <<mj>>], "")
        ELSE IF mn \in Minor(mj) /\ At(s, i + 5) = 125
             THEN ROk(i + 6, [t |-> "prop", neg |-> neg, p |-> <<mj, mn>>], "")
        ELSE RFail(i + 4, "iregexp: bad category")

\* CCchar at i: [ok, i, v |-> code point]
CCchar(s, i) ==
    LET c == At(s, i)
    IN  IF c = 92 THEN
            IF IsSingleEscChar(At(s, i + 1)) THEN ROk(i + 2, SingleEscVal(At(s, i + 1)), "")
            ELSE RFail(i + 1, "iregexp: bad escape in class")
        ELSE IF c # EOF /\ IsCCcharRaw(c) THEN ROk(i + 1, c, "")
        ELSE RFail(i, "iregexp: class character expected")

\* CCE1 = ( CCchar [ "-" CCchar ] ) / charClassEsc
CCE1(s, i) ==
    IF At(s, i) = 92 /\ (At(s, i + 1) = 112 \/ At(s, i + 1) = 80) THEN PropEsc(s, i)
    ELSE LET a == CCchar(s, i)
         IN  IF ~a.ok THEN a
             ELSE IF At(s, a.i) = 45 /\ At(s, a.i + 1) # 93 THEN
                 LET b == CCchar(s, a.i + 1)
                 IN  IF ~b.ok THEN b
                     ELSE ROk(b.i, [t |-> "rng", lo |-> a.v, hi |-> b.v],
                              IF a.v > b.v THEN "reversed range" ELSE "")
             ELSE ROk(a.i, [t |-> "rng", lo |-> a.v, hi |-> a.v], "")

RECURSIVE ClassLoop(_, _, _, _, _)
ClassLoop(s, i, neg, acc, dc) ==
    LET c == At(s, i)
    IN  IF c = 93 THEN
            IF acc = <<>> THEN RFail(i, "iregexp: empty class")
            ELSE ROk(i + 1, [t |-> "cls", neg |-> neg, items |-> acc], dc)
        ELSE IF c = 45 THEN
            IF At(s, i + 1) = 93 /\ acc # <<>>
            THEN ROk(i + 2, [t |-> "cls", neg |-> neg, items |-> Append(acc, [t |-> "rng", lo |-> 45, hi |-> 45])], dc)
            ELSE RFail(i, "iregexp: '-' inside class")
        ELSE LET r == CCE1(s, i)
             IN  IF r.ok THEN ClassLoop(s, r.i, neg, Append(acc, r.v), Dc2(dc, r.dc)) ELSE r

\* charClassExpr = "[" [ "^" ] ( "-" / CCE1 ) *CCE1 [ "-" ] "]"      (s[i] = "[")
ClassExpr(s, i) ==
    LET neg == At(s, i + 1) = 94
        j   == IF neg THEN i + 2 ELSE i + 1
    IN  IF neg /\ At(s, j) = 93 THEN
            \* "[^]": derivable as a class containing '^'; refused by XSD-style checkers
            ROk(j + 1, [t |-> "cls", neg |-> FALSE, items |-> <<[t |-> "rng", lo |-> 94, hi |-> 94]>>], "class [^]")
        ELSE IF At(s, j) = 45
            THEN ClassLoop(s, j + 1, neg, <<[t |-> "rng", lo |-> 45, hi |-> 45]>>, "")
        ELSE ClassLoop(s, j, neg, <<>>, "")

QuantDigitsOk(s, i, j) == j > i /\ j - i <= 4
QuantVal(s, i, j) == DigitsVal(Digits(s, i, j))

RECURSIVE ReAlt(_, _), AltLoop(_, _, _, _), ReBranch(_, _, _, _), RePiece(_, _), ReAtom(_, _)

\* quantifier after an atom ending at i:  [ok, i, lo, hi, dc] ; no quantifier: i unchanged
Quant(s, i) ==
    LET c == At(s, i)
    IN  IF c = 42 THEN [ok |-> TRUE, i |-> i + 1, lo |-> 0, hi |-> -1, dc |-> ""]
        ELSE IF c = 43 THEN [ok |-> TRUE, i |-> i + 1, lo |-> 1, hi |-> -1, dc |-> ""]
        ELSE IF c = 63 THEN [ok |-> TRUE, i |-> i + 1, lo |-> 0, hi |-> 1, dc |-> ""]
        ELSE IF c = 123 THEN
            LET j == DigitsEnd(s, i + 1)
            IN  IF j = i + 1 THEN [ok |-> FALSE, i |-> j, why |-> "iregexp: quantifier digits expected"]
                ELSE LET big1 == j - (i + 1) > 4
                         n    == IF big1 THEN 0 ELSE QuantVal(s, i + 1, j)
                     IN  IF At(s, j) = 125 THEN
                             [ok |-> TRUE, i |-> j + 1, lo |-> n, hi |-> n,
                              dc |-> IF big1 \/ n > MaxQuant THEN "quantifier bound" ELSE ""]
                         ELSE IF At(s, j) = 44 THEN
                             LET k == DigitsEnd(s, j + 1)
                             IN  IF At(s, k) # 125 THEN [ok |-> FALSE, i |-> k, why |-> "iregexp: '}' expected"]
                                 ELSE IF k = j + 1 THEN
                                     [ok |-> TRUE, i |-> k + 1, lo |-> n, hi |-> -1,
                                      dc |-> IF big1 \/ n > MaxQuant THEN "quantifier bound" ELSE ""]
                                 ELSE LET big2 == k - (j + 1) > 4
                                          m    == IF big2 THEN 0 ELSE QuantVal(s, j + 1, k)
                                      IN  [ok |-> TRUE, i |-> k + 1, lo |-> n, hi |-> m,
                                           dc |-> IF big1 \/ big2 \/ n > MaxQuant \/ m > MaxQuant
                                                  THEN "quantifier bound"
                                                  ELSE IF n > m THEN "quantifier n > m" ELSE ""]
                         ELSE [ok |-> FALSE, i |-> j, why |-> "iregexp: ',' or '}' expected"]
        ELSE [ok |-> TRUE, i |-> i, lo |-> 1, hi |-> 1, dc |-> ""]

ReAtom(s, i) ==
    LET c == At(s, i)
    IN  IF c = 40 THEN
            LET r == ReAlt(s, i + 1)
            IN  IF ~r.ok THEN r
                ELSE IF At(s, r.i) = 41 THEN ROk(r.i + 1, r.v, r.dc)
                ELSE RFail(r.i, "iregexp: ')' expected")
        ELSE IF c = 46 THEN ROk(i + 1, [t |-> "dot"], "")
        ELSE IF c = 92 THEN
            LET d == At(s, i + 1)
            IN  IF d = 112 \/ d = 80 THEN PropEsc(s, i)
                ELSE IF IsSingleEscChar(d) THEN ROk(i + 2, [t |-> "chr", c |-> SingleEscVal(d)], "")
                ELSE RFail(i + 1, "iregexp: unknown escape")
        ELSE IF c = 91 THEN ClassExpr(s, i)
        ELSE IF c # EOF /\ IsNormalChar(c) THEN
            ROk(i + 1, [t |-> "chr", c |-> c], IF c = 94 \/ c = 36 THEN "'^' or '$' outside a class" ELSE "")
        ELSE RFail(i, "iregexp: atom expected")

RePiece(s, i) ==
    LET a == ReAtom(s, i)
    IN  IF ~a.ok THEN a
        ELSE LET q == Quant(s, a.i)
             IN  IF ~q.ok THEN RFail(q.i, q.why)
                 ELSE IF q.i = a.i THEN a
                 ELSE ROk(q.i, [t |-> "rep", x |-> a.v, lo |-> q.lo, hi |-> q.hi], Dc2(a.dc, q.dc))

ReBranch(s, i, acc, dc) ==
    LET c == At(s, i)
    IN  IF c = EOF \/ c = 124 \/ c = 41 THEN ROk(i, [t |-> "cat", xs |-> acc], dc)
        ELSE LET p == RePiece(s, i)
             IN  IF p.ok THEN ReBranch(s, p.i, Append(acc, p.v), Dc2(dc, p.dc)) ELSE p

ReAlt(s, i) ==
    LET b == ReBranch(s, i, <<>>, "")
    IN  IF b.ok THEN AltLoop(s, b.i, <<b.v>>, b.dc) ELSE b
AltLoop(s, i, acc, dc) ==
    IF At(s, i) = 124 THEN
        LET b == ReBranch(s, i + 1, <<>>, "")
        IN  IF b.ok THEN AltLoop(s, b.i, Append(acc, b.v), Dc2(dc, b.dc)) ELSE b
    ELSE ROk(i, [t |-> "alt", xs |-> acc], dc)

ReParse(s) ==
    LET r == ReAlt(s, 1)
    IN  IF ~r.ok THEN r
        ELSE IF r.i # Len(s) + 1 THEN RFail(r.i, "iregexp: unbalanced ')'")
        ELSE r

(* ---------------- Unicode general categories on the model alphabet ------ *)
\* <<code point, major, minor>>; characters outside this table have no
\* category in the model: a pattern that needs one is a don't-care there.
CatTable == <<
    <<97, 76, 108>>, <<98, 76, 108>>, <<122, 76, 108>>, <<233, 76, 108>>,   \* a b z e-acute  Ll
    <<65, 76, 117>>, <<66, 76, 117>>, <<201, 76, 117>>,                      \* A B E-acute    Lu
    <<453, 76, 116>>,                                                        \* U+01C5         Lt
    <<688, 76, 109>>,                                                        \* U+02B0         Lm
    <<1488, 76, 111>>, <<19968, 76, 111>>,                                   \* alef, CJK one  Lo
    <<769, 77, 110>>, <<2307, 77, 99>>, <<8413, 77, 101>>,                   \* Mn Mc Me
    <<48, 78, 100>>, <<49, 78, 100>>, <<57, 78, 100>>, <<1633, 78, 100>>,    \* 0 1 9 arabic-1 Nd
    <<8544, 78, 108>>, <<178, 78, 111>>,                                     \* Nl No
    <<95, 80, 99>>, <<45, 80, 100>>, <<40, 80, 115>>, <<41, 80, 101>>,       \* _ - ( )
    <<91, 80, 115>>, <<93, 80, 101>>, <<123, 80, 115>>, <<125, 80, 101>>,    \* [ ] { }
    <<171, 80, 105>>, <<187, 80, 102>>,                                      \* guillemets Pi Pf
    <<33, 80, 111>>, <<46, 80, 111>>, <<44, 80, 111>>, <<38, 80, 111>>,      \* ! . , &        Po
    <<47, 80, 111>>, <<92, 80, 111>>, <<63, 80, 111>>, <<42, 80, 111>>,      \* / \ ? *        Po
    <<32, 90, 115>>, <<160, 90, 115>>, <<8232, 90, 108>>, <<8233, 90, 112>>, \* SP NBSP LS PS
    <<36, 83, 99>>, <<43, 83, 109>>, <<124, 83, 109>>, <<126, 83, 109>>,     \* $ + | ~
    <<60, 83, 109>>, <<61, 83, 109>>, <<62, 83, 109>>,                       \* < = >
    <<94, 83, 107>>, <<96, 83, 107>>, <<166, 83, 111>>, <<128512, 83, 111>>, \* ^ ` broken-bar emoji
    <<0, 67, 99>>, <<9, 67, 99>>, <<10, 67, 99>>, <<13, 67, 99>>, <<127, 67, 99>>,   \* Cc
    <<173, 67, 102>>, <<57344, 67, 111>>, <<888, 67, 110>> >>                \* Cf Co Cn

CatRow(c) == SelectSeq(CatTable, LAMBDA row : row[1] = c)
CatKnown(c) == CatRow(c) # <<>>
HasProp(c, p) ==
    LET row == CatRow(c)[1]
    IN  row[2] = p[1] /\ (Len(p) = 1 \/ row[3] = p[2])

(* ---------------- matching ------------------------------------------------ *)
ItemHas(it, c) ==
    IF it.t = "rng" THEN it.lo <= c /\ c <= it.hi
    ELSE (HasProp(c, it.p) # it.neg)

AtomHas(a, c) ==
    CASE a.t = "chr"  -> c = a.c
      [] a.t = "dot"  -> c # 10 /\ c # 13
      [] a.t = "prop" -> (HasProp(c, a.p) # a.neg)
      [] a.t = "cls"  -> ((\E k \in 1..Len(a.items) : ItemHas(a.items[k], c)) # a.neg)

RECURSIVE Ends(_, _, _), CatEnds(_, _, _, _), RepN(_, _, _, _), Closure(_, _, _), UpTo(_, _, _, _)
\* the set of positions where a match of re started at some position of I can end
Ends(re, s, I) ==
    IF I = {} THEN {}
    ELSE CASE re.t \in {"chr", "dot", "prop", "cls"} ->
                 {i + 1 : i \in {j \in I : j <= Len(s) /\ AtomHas(re, s[j])}}
           [] re.t = "cat" -> CatEnds(re.xs, 1, s, I)
           [] re.t = "alt" -> UNION {Ends(re.xs[k], s, I) : k \in 1..Len(re.xs)}
           [] re.t = "rep" ->
                 LET base == RepN(re.x, re.lo, s, I)
                 IN  IF re.hi = -1 THEN Closure(re.x, s, base)
                     ELSE IF re.hi < re.lo THEN {}
                     ELSE UpTo(re.x, re.hi - re.lo, s, base)
CatEnds(xs, k, s, I) == IF k > Len(xs) THEN I ELSE CatEnds(xs, k + 1, s, Ends(xs[k], s, I))
RepN(x, n, s, I) == IF n = 0 THEN I ELSE RepN(x, n - 1, s, Ends(x, s, I))
Closure(x, s, I) == LET J == I \cup Ends(x, s, I) IN IF J = I THEN I ELSE Closure(x, s, J)
UpTo(x, n, s, I) == IF n = 0 THEN I ELSE UpTo(x, n - 1, s, I \cup Ends(x, s, I))

ReMatch(re, s)  == (Len(s) + 1) \in Ends(re, s, {1})
ReSearch(re, s) == Ends(re, s, 1..(Len(s) + 1)) # {}

\* does matching need a category the model lacks?
RECURSIVE NeedsCat(_)
NeedsCat(re) ==
    CASE re.t = "prop" -> TRUE
      [] re.t = "cls"  -> \E k \in 1..Len(re.items) : re.items[k].t = "prop"
      [] re.t \in {"cat", "alt"} -> \E k \in 1..Len(re.xs) : NeedsCat(re.xs[k])
      [] re.t = "rep"  -> NeedsCat(re.x)
      [] OTHER -> FALSE

\* verdict for match()/search() on two Text arguments:
\*   [dc |-> reason]  don't-care ;  [dc |-> "", m |-> BOOLEAN, s |-> BOOLEAN]
ReVerdict(pat, subj) ==
    LET r == ReParse(pat)
    IN  IF ~r.ok THEN [dc |-> "", m |-> FALSE, s |-> FALSE, valid |-> FALSE]
        ELSE IF r.dc # "" THEN [dc |-> r.dc, m |-> FALSE, s |-> FALSE, valid |-> TRUE]
        ELSE IF NeedsCat(r.v) /\ \E k \in 1..Len(subj) : ~CatKnown(subj[k])
             THEN [dc |-> "category of a character outside the model alphabet", m |-> FALSE, s |-> FALSE, valid |-> TRUE]
        ELSE [dc |-> "", m |-> ReMatch(r.v, subj), s |-> ReSearch(r.v, subj), valid |-> TRUE]
=============================================================================
