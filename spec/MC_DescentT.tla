-------------------- MODULE MC_DescentT --------------------
EXTENDS MC_Descent
MCGraphs == TreeGraphsF(0)
======================================================================
