--------------------------------- MODULE Cli ---------------------------------
(***************************************************************************)
(* The command-line tool as a state machine (C20).  Inputs are abstracted  *)
(* to classes; a configuration fixes them and the run goes through the     *)
(* phases  args -> readQuery -> compile -> openDoc -> decode -> evaluate -> *)
(* write -> exit.  Observables: exit status (zero / non-zero), whether the  *)
(* complete result was written (to stdout or the -o file), whether stderr  *)
(* holds a one-line diagnostic or a traceback.                             *)
(***************************************************************************)
EXTENDS Naturals, Sequences, TLC, Json

QClasses == {"valid", "syntax", "type", "name", "index", "evalerr"}
DClasses == {"ascii", "nonascii", "deep", "badjson", "badutf8"}
Configs == [qsrc : {"inline", "file"}, q : QClasses, dsrc : {"file", "stdin"}, d : DClasses,
            sink : {"stdout", "file"}, pretty : BOOLEAN, debug : BOOLEAN]

VARIABLES cfg, phase, out, err, status
vars == <<cfg, phase, out, err, status>>

Init == /\ cfg \in Configs
        /\ phase = "args" /\ out = "none" /\ err = "none" /\ status = "running"

Goto(p) == phase' = p /\ UNCHANGED <<cfg, out, err, status>>

\* a failure: diagnostic on stderr (a traceback iff --debug), non-zero exit, nothing written
Fail == /\ phase' = "exit"
        /\ err' = IF cfg.debug THEN "traceback" ELSE "oneline"
        /\ status' = "nonzero"
        /\ UNCHANGED <<cfg, out>>

Args      == phase = "args" /\ Goto("readQuery")
ReadQuery == phase = "readQuery" /\ Goto("compile")
Compile   == /\ phase = "compile"
             /\ IF cfg.q \in {"syntax", "type", "name", "index"} THEN Fail ELSE Goto("openDoc")
OpenDoc   == phase = "openDoc" /\ Goto("decode")
Decode    == /\ phase = "decode"
             /\ IF cfg.d \in {"badjson", "badutf8"} THEN Fail ELSE Goto("evaluate")
\* the "evalerr" query is '$..*' and raises on the "deep" document only (nesting above the default limit)
Evaluate  == /\ phase = "evaluate"
             /\ IF cfg.q = "evalerr" /\ cfg.d = "deep" THEN Fail ELSE Goto("write")
Write     == /\ phase = "write"
             /\ out' = "complete" /\ phase' = "exit" /\ status' = "zero"
             /\ UNCHANGED <<cfg, err>>

Next == Args \/ ReadQuery \/ Compile \/ OpenDoc \/ Decode \/ Evaluate \/ Write
Spec == Init /\ [][Next]_vars /\ WF_vars(Next)

AtExit == phase = "exit"
\* T12: exactly one of {exit 0, complete output, empty stderr} / {exit != 0, no output, a one-line
\* diagnostic - or a traceback iff --debug}; never both output and a diagnostic
T12 == AtExit =>
          \/ (status = "zero" /\ out = "complete" /\ err = "none")
          \/ (status = "nonzero" /\ out = "none" /\ err = (IF cfg.debug THEN "traceback" ELSE "oneline"))
T12_NoPartial == ~(out = "complete" /\ err # "none")
T12_Exits == <>AtExit

Export == ~AtExit \/ PrintT("GEN " \o ToJson([cfg |-> cfg, out |-> out, err |-> err, status |-> status]))
=============================================================================
