------------------------------ MODULE StringLit ------------------------------
(***************************************************************************)
(* RFC 9535 string-literal as a character-stepping state machine: the      *)
(* decoder consumes the body of a literal (the text between the quotes)    *)
(* one code point at a time.  The functional decoder Syntax!StrBody and    *)
(* this machine are two formulations of the same production; TLC checks    *)
(* they agree in every reachable state (T7c), that every spelling of a     *)
(* string decodes back to it (T7a) and that the canonical spelling of the  *)
(* normalized-path grammar decodes back and is single-quoted (T7b).        *)
(* Every state is also a test of the implementation (GEN).                 *)
(*                                                                         *)
(*   mode  "plain"   between characters                                    *)
(*         "esc"     after a backslash                                     *)
(*         "hex"     inside \uXXXX (k digits read so far, value in acc4)   *)
(*         "lowesc"  after a high surrogate escape: backslash expected     *)
(*         "lowu"    ... then 'u' expected                                 *)
(*         "lowhex"  inside the low surrogate's four digits                *)
(*         "rejected"                                                      *)
(***************************************************************************)
EXTENDS NormPath, Json

CONSTANTS Sigma, MaxLen, Quotes

VARIABLES quote, body, mode, out, k, acc4, high

vars == <<quote, body, mode, out, k, acc4, high>>

Init == /\ quote \in Quotes
        /\ body = <<>> /\ mode = "plain" /\ out = <<>> /\ k = 0 /\ acc4 = 0 /\ high = 0

Reject == /\ mode' = "rejected" /\ UNCHANGED <<out, k, acc4, high>>

StepPlain(c) ==
    IF c = 92 THEN mode' = "esc" /\ UNCHANGED <<out, k, acc4, high>>
    ELSE IF c = quote THEN Reject                 \* an unescaped own quote cannot be inside the body
    ELSE IF IsUnescaped(c) \/ c = 34 \/ c = 39
         THEN out' = Append(out, c) /\ UNCHANGED <<mode, k, acc4, high>>
    ELSE Reject

StepEsc(c) ==
    LET simple == CASE c = 98 -> 8 [] c = 102 -> 12 [] c = 110 -> 10 [] c = 114 -> 13 [] c = 116 -> 9
                    [] c = 47 -> 47 [] c = 92 -> 92 [] OTHER -> -1
    IN  IF c = quote THEN mode' = "plain" /\ out' = Append(out, c) /\ UNCHANGED <<k, acc4, high>>
        ELSE IF simple # -1 THEN mode' = "plain" /\ out' = Append(out, simple) /\ UNCHANGED <<k, acc4, high>>
        ELSE IF c = 117 THEN mode' = "hex" /\ k' = 0 /\ acc4' = 0 /\ UNCHANGED <<out, high>>
        ELSE Reject

StepHex(c) ==
    IF ~IsHex(c) THEN Reject
    ELSE LET v == acc4 * 16 + HexVal(c)
         IN  IF k < 3 THEN k' = k + 1 /\ acc4' = v /\ UNCHANGED <<mode, out, high>>
             ELSE IF mode = "hex" THEN
                 IF IsLowSur(v) THEN Reject
                 ELSE IF IsHighSur(v) THEN mode' = "lowesc" /\ high' = v /\ k' = 0 /\ acc4' = 0 /\ UNCHANGED out
                 ELSE mode' = "plain" /\ out' = Append(out, v) /\ k' = 0 /\ acc4' = 0 /\ UNCHANGED high
             ELSE \* lowhex
                 IF IsLowSur(v)
                 THEN /\ mode' = "plain" /\ k' = 0 /\ acc4' = 0 /\ high' = 0
                      /\ out' = Append(out, 65536 + (high - 55296) * 1024 + (v - 56320))
                 ELSE Reject

Step(c) ==
    /\ mode # "rejected"
    /\ Len(body) < MaxLen
    /\ body' = Append(body, c)
    /\ UNCHANGED quote
    /\ CASE mode = "plain"  -> StepPlain(c)
         [] mode = "esc"    -> StepEsc(c)
         [] mode \in {"hex", "lowhex"} -> StepHex(c)
         [] mode = "lowesc" -> IF c = 92 THEN mode' = "lowu" /\ UNCHANGED <<out, k, acc4, high>> ELSE Reject
         [] mode = "lowu"   -> IF c = 117 THEN mode' = "lowhex" /\ k' = 0 /\ acc4' = 0 /\ UNCHANGED <<out, high>> ELSE Reject

Next == \E c \in Sigma : Step(c)
Spec == Init /\ [][Next]_vars

\* the literal whose body is `body` (closed by the quote)
Literal == <<quote>> \o body \o <<quote>>
Complete == mode = "plain"

(* T7c: machine and functional decoder agree in every state *)
T7c == LET r == StringLit(Literal, 1)
       IN  /\ (Complete <=> (r.ok /\ r.i = Len(Literal) + 1))
           /\ (Complete => r.v = out)

(* T7b: the canonical spelling decodes back, for what has been decoded so far *)
T7b == Complete =>
         LET cs == CanonicalString(out)
             r  == StringLit(cs, 1)
         IN  r.ok /\ r.v = out /\ r.i = Len(cs) + 1 /\ cs[1] = 39

(* GEN export: one JSON line per state *)
Export == PrintT("GEN " \o ToJson([quote |-> quote, body |-> body, ok |-> Complete, out |-> out,
                                   dead |-> (mode = "rejected")]))
=============================================================================
