-------------------------------- MODULE Eval --------------------------------
(***************************************************************************)
(* RFC 9535 evaluation semantics over the JsonVal value model:             *)
(* selectors (2.3), segments (2.5), filter expressions (2.3.5.2),          *)
(* comparisons (via JsonVal!Cmp), function extensions (2.4).               *)
(*                                                                         *)
(* A nodelist is a sequence of nodes [loc, v].  '@' is the child under     *)
(* test, '$' the root of the query argument at every nesting depth.        *)
(* A function's result is tagged: [k |-> "value", v] | [k |-> "logical",   *)
(* b] | [k |-> "nodes", nl].                                               *)
(***************************************************************************)
EXTENDS Typing, SliceDef, IRegexp

ClampBig == 1000000000
IntVal(x) == LET mag == IF Len(x.ds) > 9 THEN ClampBig ELSE DigitsVal(x.ds)
             IN  IF x.neg THEN -mag ELSE mag
MaybeVal(mx) == IF mx = <<>> THEN <<>> ELSE <<IntVal(mx[1])>>

VRes(v)  == [k |-> "value", v |-> v]
LRes(b)  == [k |-> "logical", b |-> b]
NRes(nl) == [k |-> "nodes", nl |-> nl]

LengthOf(v) ==
    CASE v.k = "str" -> Num(Len(v.s), 0)
      [] v.k = "arr" -> Num(Len(v.xs), 0)
      [] v.k = "obj" -> Num(Len(v.ms), 0)
      [] OTHER -> Nothing

\* deterministic semantics of the harness's probe functions (see harness/probes.py):
\* the result depends on the first argument only, in the declared result type.
ProbeResult(sig, args) ==
    LET a == IF args = <<>> THEN LRes(TRUE) ELSE args[1]
    IN  CASE sig.ret = "V" ->
                 VRes(CASE a.k = "value"   -> a.v
                        [] a.k = "logical" -> Bool(a.b)
                        [] a.k = "nodes"   -> Num(Len(a.nl), 0))
          [] sig.ret = "L" ->
                 LRes(CASE a.k = "value"   -> a.v.k # "nothing"
                        [] a.k = "logical" -> a.b
                        [] a.k = "nodes"   -> a.nl # <<>>)
          [] sig.ret = "N" ->
                 NRes(IF a.k = "nodes" THEN a.nl ELSE <<>>)

RegexCall(sem, args) ==
    LET subj == args[1].v
        pat  == args[2].v
    IN  IF subj.k # "str" \/ pat.k # "str" THEN LRes(FALSE)
        ELSE LET rv == ReVerdict(pat.s, subj.s)
             IN  IF rv.dc # "" THEN [k |-> "dontcare", why |-> rv.dc]
                 ELSE LRes(IF sem = "match" THEN rv.m ELSE rv.s)

Builtin(sig, args) ==
    CASE sig.sem = "length" -> VRes(LengthOf(args[1].v))
      [] sig.sem = "count"  -> VRes(Num(Len(args[1].nl), 0))
      [] sig.sem = "value"  -> VRes(IF Len(args[1].nl) = 1 THEN args[1].nl[1].v ELSE Nothing)
      [] sig.sem \in {"match", "search"} -> RegexCall(sig.sem, args)
      [] sig.sem = "probe"  -> ProbeResult(sig, args)
      [] sig.sem = "ct"     -> LRes(TRUE)          \* constant bodies used by System.tla
      [] sig.sem = "cf"     -> LRes(FALSE)
      [] sig.sem = "v1"     -> VRes(Num(1, 0))     \* a ValueType constant (the subclass's own 'f' in System.tla)

RECURSIVE ApplySel(_, _, _, _), ApplySeg(_, _, _, _), EvalSegs(_, _, _, _), EvalQ(_, _, _, _),
          Test(_, _, _, _), ValueOf(_, _, _, _), Call(_, _, _, _), ArgFor(_, _, _, _, _)

ApplySel(sel, nd, root, reg) ==
    CASE sel.t = "name" ->
             IF nd.v.k = "obj"
             THEN SelectSeq(Children(nd), LAMBDA c : c.loc[Len(c.loc)].n = sel.n)
             ELSE <<>>
      [] sel.t = "idx" ->
             IF nd.v.k = "arr"
             THEN LET hit == IndexSel(Len(nd.v.xs), IntVal(sel.i))
                  IN  IF hit = <<>> THEN <<>> ELSE <<Children(nd)[hit[1] + 1]>>
             ELSE <<>>
      [] sel.t = "slice" ->
             IF nd.v.k = "arr"
             THEN LET idx == SliceIdx(Len(nd.v.xs), MaybeVal(sel.s), MaybeVal(sel.e), MaybeVal(sel.st))
                      cs  == Children(nd)
                  IN  [k \in 1..Len(idx) |-> cs[idx[k] + 1]]
             ELSE <<>>
      [] sel.t = "wild" -> Children(nd)
      [] sel.t = "filter" ->
             SelectSeq(Children(nd), LAMBDA c : Test(sel.e, c, root, reg))

\* child segment: per input node, per selector; descendant segment: per input
\* node, per node of DescOrSelf in document pre-order, per selector
ApplySeg(seg, nl, root, reg) ==
    FlattenSeq([k \in 1..Len(nl) |->
        LET inputs == IF seg.desc THEN DescOrSelf(nl[k]) ELSE <<nl[k]>>
        IN  FlattenSeq([d \in 1..Len(inputs) |->
                FlattenSeq([j \in 1..Len(seg.sels) |-> ApplySel(seg.sels[j], inputs[d], root, reg)])])])

EvalSegs(segs, nl, root, reg) ==
    IF segs = <<>> THEN nl
    ELSE EvalSegs(Tail(segs), ApplySeg(Head(segs), nl, root, reg), root, reg)

EvalQ(q, cur, root, reg) ==
    EvalSegs(q.segs, <<IF q.abs THEN RootNode(root) ELSE cur>>, root, reg)

Test(e, cur, root, reg) ==
    CASE e.t = "or"    -> Test(e.l, cur, root, reg) \/ Test(e.r, cur, root, reg)
      [] e.t = "and"   -> Test(e.l, cur, root, reg) /\ Test(e.r, cur, root, reg)
      [] e.t = "not"   -> ~Test(e.e, cur, root, reg)
      [] e.t = "paren" -> Test(e.e, cur, root, reg)
      [] e.t = "cmp"   -> Cmp(e.op, ValueOf(e.l, cur, root, reg), ValueOf(e.r, cur, root, reg))
      [] e.t = "query" -> EvalQ(e, cur, root, reg) # <<>>
      [] e.t = "call"  -> LET r == Call(e, cur, root, reg)
                          IN  IF r.k = "logical" THEN r.b
                              ELSE IF r.k = "nodes" THEN r.nl # <<>>
                              ELSE FALSE

ValueOf(e, cur, root, reg) ==
    CASE e.t = "lit"   -> e.v
      [] e.t = "query" -> LET nl == EvalQ(e, cur, root, reg)
                          IN  IF Len(nl) = 1 THEN nl[1].v ELSE Nothing
      [] e.t = "call"  -> LET r == Call(e, cur, root, reg)
                          IN  IF r.k = "value" THEN r.v ELSE Nothing

\* conversion of an argument expression to the declared parameter type (2.4.2, 2.4.3)
ArgFor(a, p, cur, root, reg) ==
    CASE p = "V" -> VRes(ValueOf(a, cur, root, reg))
      [] p = "N" -> IF a.t = "query" THEN NRes(EvalQ(a, cur, root, reg)) ELSE Call(a, cur, root, reg)
      [] p = "L" -> LRes(Test(a, cur, root, reg))

Call(e, cur, root, reg) ==
    LET sig == Sig(reg, e.f)[1]
    IN  Builtin(sig, [k \in 1..Len(e.args) |-> ArgFor(e.args[k], sig.params[k], cur, root, reg)])

\* the nodelist of a whole (valid) query applied to a document
Find(segs, doc, reg) == EvalSegs(segs, <<RootNode(doc)>>, doc, reg)

(* ---- does evaluation run into a declared don't-care (regex categories...)? ---- *)
RECURSIVE DcSegs(_, _, _), DcExpr(_, _, _)
DcSel(sel, doc, reg) == sel.t = "filter" /\ DcExpr(sel.e, doc, reg)
DcSegs(segs, doc, reg) ==
    \E k \in 1..Len(segs) : \E j \in 1..Len(segs[k].sels) : DcSel(segs[k].sels[j], doc, reg)
\* conservative: a match/search call whose arguments are not both string
\* literals free of don't-care constructs makes the record a don't-care only
\* if some string in the document could trigger it; we approximate by
\* evaluating the pattern against every string of the document when the
\* pattern is a literal, and by flagging non-literal patterns.
RECURSIVE StringsOf(_)
StringsOf(v) ==
    CASE v.k = "str" -> {v.s}
      [] v.k = "arr" -> UNION {StringsOf(v.xs[i]) : i \in 1..Len(v.xs)}
      [] v.k = "obj" -> UNION {StringsOf(v.ms[i].v) : i \in 1..Len(v.ms)}
      [] OTHER -> {}
DcExpr(e, doc, reg) ==
    CASE e.t \in {"or", "and", "cmp"} -> DcExpr(e.l, doc, reg) \/ DcExpr(e.r, doc, reg)
      [] e.t \in {"not", "paren"}     -> DcExpr(e.e, doc, reg)
      [] e.t = "query" -> DcSegs(e.segs, doc, reg)
      [] e.t = "call"  ->
            \/ \E k \in 1..Len(e.args) : DcExpr(e.args[k], doc, reg)
            \/ /\ Sig(reg, e.f) # <<>>
               /\ Sig(reg, e.f)[1].sem \in {"match", "search"}
               /\ Len(e.args) = 2
               /\ LET pats == IF e.args[2].t = "lit"
                              THEN (IF e.args[2].v.k = "str" THEN {e.args[2].v.s} ELSE {})
                              ELSE StringsOf(doc)
                      subs == IF e.args[1].t = "lit"
                              THEN (IF e.args[1].v.k = "str" THEN {e.args[1].v.s} ELSE {})
                              ELSE StringsOf(doc)
                  IN  \E p \in pats : \E sb \in subs : ReVerdict(p, sb).dc # ""
      [] OTHER -> FALSE
=============================================================================
