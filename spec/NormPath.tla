------------------------------ MODULE NormPath ------------------------------
(***************************************************************************)
(* RFC 9535 2.7: the normalized path of a location, as text.               *)
(***************************************************************************)
EXTENDS Syntax

HexLc(d) == IF d < 10 THEN 48 + d ELSE 87 + d

\* normal-single-quoted for one code point
NormChar(c) ==
    IF c = 8 THEN <<92, 98>>
    ELSE IF c = 9 THEN <<92, 116>>
    ELSE IF c = 10 THEN <<92, 110>>
    ELSE IF c = 12 THEN <<92, 102>>
    ELSE IF c = 13 THEN <<92, 114>>
    ELSE IF c = 39 THEN <<92, 39>>
    ELSE IF c = 92 THEN <<92, 92>>
    ELSE IF c < 32 THEN <<92, 117, 48, 48, HexLc(c \div 16), HexLc(c % 16)>>
    ELSE <<c>>

CanonicalString(name) == <<39>> \o FlattenSeq([k \in 1..Len(name) |-> NormChar(name[k])]) \o <<39>>

RECURSIVE NatDigits(_)
NatDigits(n) == IF n < 10 THEN <<48 + n>> ELSE NatDigits(n \div 10) \o <<48 + (n % 10)>>

KeyText(key) == IF DOMAIN key = {"i"} THEN <<91>> \o NatDigits(key.i) \o <<93>>
                ELSE <<91>> \o CanonicalString(key.n) \o <<93>>

NormalizedPath(loc) == <<36>> \o FlattenSeq([k \in 1..Len(loc) |-> KeyText(loc[k])])
=============================================================================
