----------------------------- MODULE MC_Descent -----------------------------
EXTENDS Descent

(* ---- tree-shaped documents, as values and as graphs ------------------------ *)
Z == Num(0, 0)
N(s) == <<s>>
\* the witnesses that size alone does not reach (root with 3 container children)
W1 == Obj(<<Mem(N(97), Obj(<<Mem(N(120), Obj(<<Mem(N(119), Z)>>))>>)), Mem(N(98), Obj(<<Mem(N(121), Z)>>)), Mem(N(99), Obj(<<Mem(N(122), Z)>>))>>)
W2 == Arr(<<Arr(<<Arr(<<Z>>)>>), Arr(<<Z>>), Arr(<<Z>>)>>)
W3 == Arr(<<Obj(<<Mem(N(97), Z), Mem(N(98), Arr(<<Z, Z>>))>>), Arr(<<Z>>)>>)
W4 == Obj(<<Mem(N(97), Arr(<<Z, Arr(<<Z>>)>>)), Mem(N(98), Z)>>)
W5 == Arr(<<Z, Arr(<<Z, Z>>), Obj(<<Mem(N(97), Z)>>)>>)
W6 == Obj(<<Mem(N(97), Arr(<<Arr(<<Z>>), Z>>)), Mem(N(98), Obj(<<Mem(N(99), Arr(<<>>))>>))>>)
Witnesses == <<W1, W2, W3, W4, W5, W6, Z, Arr(<<>>), Obj(<<>>)>>
\* (heavy constant-level definitions take a dummy parameter: TLC pre-evaluates every
\*  zero-arity constant definition at start-up, needed or not)
SmallTrees(u) == Vals(2, 2, {Z}, {N(97), N(98)})

IndexOf(seq, x) == CHOOSE k \in 1..Len(seq) : seq[k] = x
GraphOf(doc) ==
    LET nodes == DescOrSelf(RootNode(doc))
        locs  == [k \in 1..Len(nodes) |-> nodes[k].loc]
    IN  [root |-> 1,
         kids |-> [k \in 1..Len(nodes) |-> LET cs == Children(nodes[k]) IN [c \in 1..Len(cs) |-> IndexOf(locs, cs[c].loc)]],
         obj  |-> [k \in 1..Len(nodes) |-> nodes[k].v.k = "obj"],
         cont |-> [k \in 1..Len(nodes) |-> IsContainer(nodes[k].v)]]
LinExtIds(doc) ==
    LET nodes == DescOrSelf(RootNode(doc))
        locs  == [k \in 1..Len(nodes) |-> nodes[k].loc]
    IN  {[k \in 1..Len(le) |-> IndexOf(locs, le[k].loc)] : le \in LinExts(RootNode(doc))}

TreeGraphsF(u) == {GraphOf(Witnesses[k]) : k \in 1..Len(Witnesses)} \cup {GraphOf(d) : d \in SmallTrees(u)}
WitnessGraphsF(u) == {GraphOf(Witnesses[k]) : k \in 1..Len(Witnesses)}

\* T8a: document pre-order is one of the permitted visit orders; T8c material: the permitted orders per witness
T8aF(u) == \A k \in 1..Len(Witnesses) : DescOrSelf(RootNode(Witnesses[k])) \in LinExts(RootNode(Witnesses[k]))    \* ASSUMEd by MC_DescentThm
T8a_smallF(u) == \A d \in SmallTrees(u) : DescOrSelf(RootNode(d)) \in LinExts(RootNode(d))      \* ASSUMEd by MC_DescentThm
\* $..*  : <<36,46,46,42>>
DescWild == Parse(<<36, 46, 46, 42>>, TRUE).v
CountsF(u) == /\ Cardinality(LinExts(RootNode(W1))) = 210
             /\ Cardinality(AllowedResults(DescWild, W1, Builtins)) = 72
             /\ Cardinality(AllowedResults(DescWild, W2, Builtins)) = 3                              \* ASSUMEd by MC_DescentThm
\* (the permitted orders of the witnesses are printed by MC_DescentLE, for T8c)
\* T8e: the container-only formulation gives the same permitted results, for every witness and a battery of queries
\*   $..*   $..[?@]   $..a   $..[0]   $..[*, 0]   $.*..*   $..*.*   $[*]..[?@ == 0]
T8eQueries == << <<36,46,46,42>>, <<36,46,46,91,63,64,93>>, <<36,46,46,97>>, <<36,46,46,91,48,93>>, <<36,46,46,91,42,44,32,48,93>>,
                 <<36,46,42,46,46,42>>, <<36,46,46,42,46,42>>, <<36,91,42,93,46,46,91,63,64,32,61,61,32,48,93>> >>
T8eOn(d) == \A k \in 1..Len(T8eQueries) :
               LET segs == Parse(T8eQueries[k], TRUE).v
               IN  AllowedResultsC(segs, d, Builtins) = AllowedResults(segs, d, Builtins)
T8eF(u) == \A k \in 1..Len(Witnesses) : T8eOn(Witnesses[k])                                   \* ASSUMEd by MC_DescentThm(Q)
T8e_smallF(u) == \A d \in SmallTrees(u) : T8eOn(d)                                             \* ASSUMEd by MC_DescentThm

(* ---- graph-shaped data with cycles ----------------------------------------- *)
\* all graphs over ids 1..n (n <= 3) where every id is a container with at most 2 kids, or a scalar
KidSeqs(n) == {<<>>} \cup {<<a>> : a \in 1..n} \cup {<<a, b>> : a \in 1..n, b \in 1..n}
GraphsN(n) == {[root |-> 1, kids |-> ks, obj |-> ob, cont |-> ct] :
                  ks \in [1..n -> KidSeqs(n)], ob \in [1..n -> BOOLEAN], ct \in [1..n -> BOOLEAN]}
WellFormedG(gr) == \A i \in DOMAIN gr.kids : (~gr.cont[i] => (gr.kids[i] = <<>> /\ ~gr.obj[i]))
CyclicGraphs2F(u) == {gr \in GraphsN(2) : WellFormedG(gr)}
CyclicGraphs3F(u) == {gr \in GraphsN(3) : /\ WellFormedG(gr) /\ gr.cont[1]
                                          /\ (\A i \in 1..3 : gr.cont[i] => gr.obj[i]) \/ (\A i \in 1..3 : ~gr.obj[i])}

Bound == 40
SizeOK == Len(out) + Len(work) <= Bound
\* bounded time: every step either terminates the run or lengthens `out`, and `out` is bounded
T8d_Progress == [][(status = "run" /\ status' = "run") => Len(out') = Len(out) + 1]_dvars
                /\ [][(status = "probe" /\ status' # "run") => probes' = probes + 1]_dvars
\* the time bound in terms of the limit (LinK = 4 for graphs of up to 3 ids with at most 2 kids each: found by TLC, not assumed)
T8d_Linear == T8d_LinearK(4)
T8d_Bounded  == Len(out) <= 2 * Bound
=============================================================================
