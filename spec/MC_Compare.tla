----------------------------- MODULE MC_Compare -----------------------------
(***************************************************************************)
(* T5: the comparison table of JsonVal.tla has the algebraic shape RFC     *)
(* 9535 2.3.5.2.2 describes, on a universe mixing every kind.              *)
(* One state per left comparand so that all workers share the work.        *)
(***************************************************************************)
EXTENDS JsonVal

U == { Nothing, Null, Bool(TRUE), Bool(FALSE),
       Num(0, 0), Num(1, 0), Num(-1, 0), Num(15, -1), Num(1, 2), Num(100, 0), Num(10, 1), Num(-15, -1), Num(25, -4),
       Num(1, -1), Num(999999999, 0), Num(999999999, -9), Num(1, 9),
       NumDs(FALSE, <<9,0,0,7,1,9,9,2,5,4,7,4,0,9,9,2>>, 0), NumDs(FALSE, <<9,0,0,7,1,9,9,2,5,4,7,4,0,9,9,3>>, 0),
       NumDs(TRUE, <<9,0,0,7,1,9,9,2,5,4,7,4,0,9,9,3>>, 0), NumDs(FALSE, <<1>>, 25), NumDs(FALSE, <<1,0,0,0,0,0,0,0,0,0,0,0,0,0,0,0,0,0,0,0,0,0,0,0,0,1>>, 0),
       Str(<<>>), Str(<<97>>), Str(<<98>>), Str(<<97, 98>>), Str(<<65535>>), Str(<<65536>>), Str(<<49>>),
       Arr(<<>>), Arr(<<Num(1, 0)>>), Arr(<<Bool(TRUE)>>), Arr(<<Num(0, 0)>>), Arr(<<Bool(FALSE)>>),
       Arr(<<Num(1, 0), Arr(<<Bool(TRUE)>>)>>), Arr(<<Num(1, 0), Arr(<<Num(1, 0)>>)>>), Arr(<<Arr(<<>>)>>),
       Obj(<<>>), Obj(<<Mem(<<97>>, Num(1, 0))>>), Obj(<<Mem(<<97>>, Bool(TRUE))>>),
       Obj(<<Mem(<<97>>, Num(1, 0)), Mem(<<98>>, Num(2, 0))>>), Obj(<<Mem(<<98>>, Num(2, 0)), Mem(<<97>>, Num(1, 0))>>),
       Obj(<<Mem(<<97>>, Null)>>), Obj(<<Mem(<<98>>, Num(1, 0))>>) }

VARIABLE a
Init == a \in U
Next == UNCHANGED a
Spec == Init /\ [][Next]_a

Orderable(x, y) == (x.k = "num" /\ y.k = "num") \/ (x.k = "str" /\ y.k = "str")

T5 ==
    /\ Eq(a, a)
    /\ ~Lt(a, a)
    /\ \A b \in U :
        /\ Eq(a, b) = Eq(b, a)
        /\ (a.k # b.k => ~Eq(a, b))
        /\ (Lt(a, b) => Orderable(a, b))
        /\ (Orderable(a, b) => (Lt(a, b) \/ Lt(b, a) \/ Eq(a, b)))
        /\ ~(Lt(a, b) /\ Lt(b, a))
        /\ ~(Lt(a, b) /\ Eq(a, b))
        /\ Cmp("!=", a, b) = ~Cmp("==", a, b)
        /\ Cmp(">", a, b) = Cmp("<", b, a)
        /\ Cmp("<=", a, b) = (Cmp("<", a, b) \/ Cmp("==", a, b))
        /\ Cmp(">=", a, b) = (Cmp(">", a, b) \/ Cmp("==", a, b))
        /\ \A c \in U :
            /\ (Eq(a, b) /\ Eq(b, c) => Eq(a, c))
            /\ (Lt(a, b) /\ Lt(b, c) => Lt(a, c))
            /\ (Eq(a, b) => (Lt(a, c) = Lt(b, c)))
=============================================================================
