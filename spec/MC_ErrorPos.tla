---------------------------- MODULE MC_ErrorPos ----------------------------
EXTENDS ErrorPos, TLC
Alphabet == {97, 10, 13}
Texts == UNION {[1..n -> Alphabet] : n \in 0..5}
VARIABLE text
Init == text \in Texts
Next == UNCHANGED text
Spec == Init /\ [][Next]_text
T14 == \A off \in 0..Len(text) :
          LET p == Position(text, off)
          IN  /\ Offset(text, p[1], p[2]) = off
              /\ p[1] >= 1 /\ p[2] >= 0
              /\ (off > 0 /\ text[off] = 10 => p[2] = 0)
=============================================================================
