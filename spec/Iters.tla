-------------------------------- MODULE Iters --------------------------------
(***************************************************************************)
(* Lazy result iterators (C16).  k live iterators, each over a (query,     *)
(* document) pair; Next(i) yields the next item of the solitary sequence   *)
(* Solo(i) or stops; Abandon(i) drops a half-consumed iterator.  Every     *)
(* interleaving of these steps is a behaviour; the schedule is kept in the *)
(* state, so states are schedules.  Independence holds here by             *)
(* construction; TLC enumerates the schedules and each one is replayed     *)
(* into the real iterators, item by item.                                  *)
(***************************************************************************)
EXTENDS Eval, Json

CONSTANTS Configs,      \* set of configurations; a configuration is a sequence of [q |-> Text, d |-> Value, ...]
          AllowAbandon

VARIABLES cfg, solo, pos, alive, sched
vars == <<cfg, solo, pos, alive, sched>>

Its == 1..Len(cfg)
SoloOf(c) == LET nl == Find(Parse(c.q, FALSE).v, c.d, Builtins)
             IN  [k \in 1..Len(nl) |-> nl[k].loc]
Solo(i) == solo[i]          \* computed once per behaviour, in Init

Init == /\ cfg \in Configs
        /\ solo = [i \in 1..Len(cfg) |-> SoloOf(cfg[i])]
        /\ pos = [i \in 1..Len(cfg) |-> 0]
        /\ alive = [i \in 1..Len(cfg) |-> TRUE]
        /\ sched = <<>>

NextItem(i) ==
    /\ alive[i]
    /\ IF pos[i] < Len(Solo(i))
       THEN /\ pos' = [pos EXCEPT ![i] = pos[i] + 1]
            /\ sched' = Append(sched, [it |-> i, act |-> "next", item |-> <<Solo(i)[pos[i] + 1]>>])
            /\ UNCHANGED alive
       ELSE /\ alive' = [alive EXCEPT ![i] = FALSE]
            /\ sched' = Append(sched, [it |-> i, act |-> "next", item |-> <<>>])       \* StopIteration
            /\ UNCHANGED pos
    /\ UNCHANGED <<cfg, solo>>

Abandon(i) ==
    /\ AllowAbandon
    /\ alive[i] /\ pos[i] > 0 /\ pos[i] < Len(Solo(i))
    /\ alive' = [alive EXCEPT ![i] = FALSE]
    /\ sched' = Append(sched, [it |-> i, act |-> "abandon", item |-> <<>>])
    /\ UNCHANGED <<cfg, solo, pos>>

Next == \E i \in Its : NextItem(i) \/ Abandon(i)
Spec == Init /\ [][Next]_vars

Done == \A i \in Its : ~alive[i]

\* IterIndependence: what iterator i has yielded so far is a prefix of Solo(i), whatever the others did
Yielded(i) == LET mine == SelectSeq(sched, LAMBDA s : s.it = i /\ s.act = "next" /\ s.item # <<>>)
              IN  [k \in 1..Len(mine) |-> mine[k].item[1]]
IterIndependence == \A i \in Its : Yielded(i) = SubSeq(Solo(i), 1, pos[i])

Export == ~Done \/ PrintT("GEN " \o ToJson([cfg |-> [i \in Its |-> cfg[i].id], sched |-> sched]))
=============================================================================
