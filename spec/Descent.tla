------------------------------- MODULE Descent -------------------------------
(***************************************************************************)
(* Descendant traversal (RFC 9535 2.5.2.2) and nondeterministic evaluation *)
(* (C17, C18).                                                             *)
(*                                                                         *)
(* Part 1 - what the RFC allows, as sets:                                  *)
(*   LinExts(nd)   the visit orders of nd and its descendants the RFC      *)
(*                 permits: every node before its descendants, the         *)
(*                 elements of any array in index order; nothing else.     *)
(*   QueryND(..)   the set of nodelists a whole query may produce when     *)
(*                 object members may be taken in any order and descendant *)
(*                 segments may visit in any permitted order; selector     *)
(*                 results for one visited node are contiguous.            *)
(* Part 2 - traversal algorithms as state machines over graph-shaped data  *)
(*   (so that cycles can be expressed; a node instance is the path of      *)
(*   child positions from the root, i.e. the unfolding):                   *)
(*   DetVisit   explicit stack, pre-order, container-depth counter         *)
(*   RndVisit   first a depth PROBE (explicit stack over containers only,   *)
(*              last child first - what _check_depth does), then a queue   *)
(*              of (path, depth); dequeue, visit, then merge the node's    *)
(*              children (any order for object members) into the queue at  *)
(*              arbitrary positions preserving both orders.  Without the   *)
(*              probe a too-deep instance is dequeued only after the       *)
(*              shallower levels: 2^limit steps on a cyclic graph with two *)
(*              container children (T8d_Linear refutes that variant).      *)
(*   Every random choice is an explicit \E.                                *)
(***************************************************************************)
EXTENDS DescentDefs

(* ======================= Part 2: traversal machines ======================= *)
CONSTANTS Graphs,      \* set of [kids: [Id -> Seq(Id)], obj: [Id -> BOOLEAN], root: Id]; Id with kids = <<>> and not in cont is a scalar
          Limits,      \* set of max_recursion_depth values
          Modes        \* subset of {"det", "rnd"}

VARIABLES g, limit, mode, work, out, status,
          pstack,      \* rnd: the stack of the depth probe (top = head)
          probes       \* number of probe steps taken (for the time bound)
dvars == <<g, limit, mode, work, out, status, pstack, probes>>

IsCont(id)  == g.cont[id]
\* a node instance is the path of child POSITIONS from the root (the unfolding of the graph)
RECURSIVE TgtFrom(_, _)
TgtFrom(id, p) == IF p = <<>> THEN id ELSE TgtFrom(g.kids[id][Head(p)], Tail(p))
Target(p)   == TgtFrom(g.root, p)
KidsOf(p)   == [i \in 1..Len(g.kids[Target(p)]) |-> Append(p, i)]
DepthOf(p)  == Len(p) + 1                      \* container depth of the instance if it is a container

DInit == /\ g \in Graphs /\ limit \in Limits /\ mode \in Modes
         /\ work = <<<<>>>>                    \* det: stack (top = head); rnd: queue; holds the root instance
         /\ out = <<>> /\ status = (IF mode = "rnd" THEN "probe" ELSE "run")
         /\ pstack = <<<<>>>> /\ probes = 0

\* deterministic: depth-first pre-order over containers only; selectors see scalars as children
DetStep ==
    /\ mode = "det" /\ status = "run" /\ work # <<>>
    /\ LET p == Head(work)
       IN  IF DepthOf(p) > limit
           THEN status' = "raised" /\ UNCHANGED <<work, out>>
           ELSE /\ out' = Append(out, p)
                /\ work' = SelectSeq(KidsOf(p), LAMBDA c : IsCont(Target(c))) \o Tail(work)
                /\ status' = "run"
    /\ UNCHANGED <<g, limit, mode, pstack, probes>>

RECURSIVE Rev(_)
Rev(sq) == IF sq = <<>> THEN <<>> ELSE Append(Rev(Tail(sq)), Head(sq))

\* randomised, phase 1: _check_depth - pop an instance; a scalar is dropped; a container beyond the limit raises; otherwise its
\* container children are pushed in order (so the LAST one is popped next)
RndProbe ==
    /\ mode = "rnd" /\ status = "probe"
    /\ IF pstack = <<>> THEN status' = "run" /\ UNCHANGED <<pstack, probes>>
       ELSE LET p == Head(pstack)
            IN  /\ probes' = probes + 1
                /\ IF ~IsCont(Target(p)) THEN pstack' = Tail(pstack) /\ status' = "probe"
                   ELSE IF DepthOf(p) > limit THEN status' = "raised" /\ UNCHANGED pstack
                   ELSE /\ pstack' = Rev(SelectSeq(KidsOf(p), LAMBDA c : IsCont(Target(c)))) \o Tail(pstack)
                        /\ status' = "probe"
    /\ UNCHANGED <<g, limit, mode, work, out>>

\* all order-preserving merges of two sequences
RECURSIVE Merges(_, _)
Merges(a, b) ==
    IF a = <<>> THEN {b} ELSE IF b = <<>> THEN {a}
    ELSE {<<Head(a)>> \o m : m \in Merges(Tail(a), b)} \cup {<<Head(b)>> \o m : m \in Merges(a, Tail(b))}

\* randomised: dequeue, visit, merge the children (members in any order) into the queue
RndStep ==
    /\ mode = "rnd" /\ status = "run" /\ work # <<>>
    /\ LET p == Head(work)
       IN  IF IsCont(Target(p)) /\ DepthOf(p) > limit
           THEN status' = "raised" /\ UNCHANGED <<work, out>>
           ELSE /\ out' = Append(out, p)
                /\ \E kids \in (IF g.obj[Target(p)] THEN PermsOf(KidsOf(p)) ELSE {KidsOf(p)}) :
                      \E m \in Merges(Tail(work), kids) : work' = m
                /\ status' = "run"
    /\ UNCHANGED <<g, limit, mode, pstack, probes>>

Finish == /\ status = "run" /\ work = <<>> /\ status' = "done"
          /\ UNCHANGED <<g, limit, mode, work, out, pstack, probes>>

DNext == DetStep \/ RndProbe \/ RndStep \/ Finish
DSpec == DInit /\ [][DNext]_dvars /\ WF_dvars(DNext)

Terminated == status \in {"done", "raised"}
T8d_Terminates == <>Terminated

\* nesting of the unfolding, capped: depth of the deepest container instance up to cap
RECURSIVE DeepFrom(_, _, _)
DeepFrom(gr, p, cap) ==
    IF Len(p) > cap THEN Len(p)
    ELSE LET ks == SelectSeq(gr.kids[p[Len(p)]], LAMBDA c : gr.cont[c])
         IN  IF ks = <<>> THEN Len(p)
             ELSE LET S == {DeepFrom(gr, Append(p, ks[i]), cap) : i \in 1..Len(ks)}
                  IN  CHOOSE x \in S : \A y \in S : y <= x
NestingOfG(gr, cap) == IF gr.cont[gr.root] THEN DeepFrom(gr, <<gr.root>>, cap) ELSE 0

\* T8d: raised iff the container nesting exceeds the limit, in both modes
T8d_Outcome ==
    Terminated => (status = "raised" <=> (NestingOfG(g, limit) > limit \/ (mode = "det" /\ limit < 1)))

\* T8d, bounded time in terms of the LIMIT: on a graph whose unfolding is infinite (a cycle through containers is reachable: the
\* nesting exceeds the number of ids) the error is raised after at most LinK * (limit + 1) steps of the machine, in both modes, and
\* nothing the size of 2^limit is ever held (stack / queue lengths likewise).  LinK depends on the graph size only.
Cyclic(gr) == NestingOfG(gr, Len(gr.kids)) > Len(gr.kids)
T8d_LinearK(k) ==
    Cyclic(g) => /\ Len(out) + probes <= k * (limit + 1)
                 /\ Len(work) + Len(pstack) <= k * (limit + 1)
\* in nondeterministic mode the verdict comes before any node is visited
T8d_ProbeFirst == (mode = "rnd" /\ status = "raised") => out = <<>>

\* T8a / T8b on acyclic graphs: a completed run visited every instance once, parents first, array order kept
Visited == {out[k] : k \in 1..Len(out)}
PosIn(p) == CHOOSE k \in 1..Len(out) : out[k] = p
T8b_Valid ==
    status = "done" =>
        /\ \A j, k \in 1..Len(out) : j # k => out[j] # out[k]
        /\ \A k \in 1..Len(out) :
              LET p == out[k]
              IN  /\ Len(p) > 0 => SubSeq(p, 1, Len(p) - 1) \in {out[j] : j \in 1..(k - 1)}
                  /\ \A c \in 1..Len(KidsOf(p)) :
                        (mode = "rnd" \/ IsCont(Target(KidsOf(p)[c]))) => KidsOf(p)[c] \in Visited
        /\ \A p \in Visited : ~g.obj[Target(p)] =>
              \A a, b \in 1..Len(KidsOf(p)) :
                  (a < b /\ KidsOf(p)[a] \in Visited /\ KidsOf(p)[b] \in Visited) => PosIn(KidsOf(p)[a]) < PosIn(KidsOf(p)[b])

ExportDone == ~Terminated \/ PrintT("GEN " \o ToJson([root |-> g.root, kids |-> g.kids, obj |-> g.obj, cont |-> g.cont,
                                                      limit |-> limit, mode |-> mode, status |-> status, out |-> out,
                                                      ids |-> [k \in 1..Len(out) |-> Target(out[k])]]))
=============================================================================
