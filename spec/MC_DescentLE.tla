---------------------------- MODULE MC_DescentLE ----------------------------
(* prints LinExts of the witness documents (as node ids of GraphOf) once, for the T8c comparison *)
EXTENDS MC_Descent
MCGraphs == {GraphOf(Z)}
ASSUME PrintT("LINEXT " \o ToJson([k \in 1..Len(Witnesses) |-> [g |-> GraphOf(Witnesses[k]), le |-> LinExtIds(Witnesses[k])]]))
=============================================================================
