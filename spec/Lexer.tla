-------------------------------- MODULE Lexer --------------------------------
(***************************************************************************)
(* The lexer machine over short texts (definitions in LexerDefs.tla).      *)
(***************************************************************************)
EXTENDS LexerDefs

(* ---- the machine, for model checking over short texts ---------------------------- *)
CONSTANTS Alphabet, MaxLen
VARIABLES text, fn, lx
lvars == <<text, fn, lx>>
RECURSIVE TextsUpTo(_)
TextsUpTo(n) == IF n = 0 THEN {<<>>} ELSE LET P == TextsUpTo(n - 1) IN P \cup {Append(p, c) : p \in {x \in P : Len(x) = n - 1}, c \in Alphabet}
LInit == text \in {<<36>> \o t : t \in TextsUpTo(MaxLen)} /\ fn = "lex_root" /\ lx = L0
LNext == /\ fn # NONE /\ lx.st = "ok"
         /\ LET r == Step(text, fn, lx) IN fn' = r.next /\ lx' = r.L
         /\ UNCHANGED text
LSpec == LInit /\ [][LNext]_lvars

Inv_Offsets == lx.st = "ok" => (0 <= lx.start /\ lx.start <= lx.pos /\ lx.pos <= Len(text))
Inv_Tokens  == \A k \in 1..Len(lx.toks) : lx.toks[k].s <= lx.toks[k].e /\ (k > 1 => lx.toks[k - 1].e <= lx.toks[k].s \/ lx.toks[k].t = "ERROR")
\* every pending bracket is an opening bracket of the text at the recorded offset
Inv_Brackets == \A k \in 1..Len(lx.bs) : Ch(text, lx.bs[k][2]) = lx.bs[k][1] \/ (lx.bs[k][1] = 40 /\ Ch(text, lx.bs[k][2]) = 40)
\* the call stack only counts while the filter depth is positive
Inv_CallStack == lx.fs # <<>> => lx.fd > 0
\* progress: a step that continues either consumes input or changes the state function
Prog == [][(fn' # NONE /\ lx'.st = "ok") => (lx'.pos > lx.pos \/ fn' # fn \/ Len(lx'.toks) > Len(lx.toks))]_lvars
=============================================================================
