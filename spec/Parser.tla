------------------------------- MODULE Parser -------------------------------
(***************************************************************************)
(* The Pratt parser of jsonpath_rfc9535 (parse.py) as a machine shaped     *)
(* like the implementation, on top of the lexer machine (LexerDefs.tla)    *)
(* and the token stream (tokens.TokenStream: current, pushed-back queue,   *)
(* rest).  Coverage beyond the listed properties: it models what the code  *)
(* DOES - one operator per parse_* method, the same stream operations in   *)
(* the same order, the same checks in the same order - while C03/C04/C05   *)
(* are decided against Syntax.tla / Typing.tla, which say what RFC 9535    *)
(* REQUIRES.  The two are tied together by the refinement theorem T15      *)
(* (MC_Parser.tla): over all short texts the implementation-shaped         *)
(* pipeline accepts exactly what the RFC-shaped one accepts and builds the *)
(* same query (up to parentheses, which the code does not keep).           *)
(*                                                                         *)
(*   ImplCompile(q, reg, lo, hi)                                           *)
(*      = [ok |-> TRUE, v |-> Seq(Segment)]              (AST of Syntax)   *)
(*      | [ok |-> FALSE, kind |-> "syntax" | "type" | "name" | "index"     *)
(*                              | "lexer" | "crash" | "numbig",            *)
(*                      at |-> offset]                                     *)
(*                                                                         *)
(* "crash" stands for an exception that is not a JSONPathError (an index   *)
(* out of a string's range, a missing dictionary key that nothing turns    *)
(* into a JSONPathSyntaxError): T15 includes that it is unreachable.       *)
(* "numbig": the text has a number literal outside the range where the     *)
(* model is exact (Syntax!NumBig); the model stops there and says nothing. *)
(*                                                                         *)
(* A stream state S is [cur, pushed, k]: the current token, the FIFO of    *)
(* pushed-back tokens, the index of the next unread token.  peek is the    *)
(* code's peek: advance, look, push the old current back.                  *)
(***************************************************************************)
EXTENDS Typing

LX == INSTANCE LexerDefs

(* ---- tokenize() ----------------------------------------------------------- *)
RECURSIVE LexRun(_, _, _)
LexRun(q, fn, L) == IF fn = LX!NONE \/ L.st # "ok" THEN L
                    ELSE LET r == LX!Step(q, fn, L) IN LexRun(q, r.next, r.L)

PErr(kind, at) == [ok |-> FALSE, kind |-> kind, at |-> at]

Tokenize(q) ==
    LET L == LexRun(q, "lex_root", LX!L0)
        n == Len(L.toks)
    IN  IF L.st = "raised" THEN PErr("lexer", L.pos)
        ELSE IF n > 0 /\ L.toks[n].t = "ERROR" THEN PErr("syntax", L.toks[n].s)
        ELSE IF L.bs # <<>> THEN PErr("syntax", L.bs[Len(L.bs)][2])
        ELSE [ok |-> TRUE, v |-> L.toks]

(* ---- the context and the stream ------------------------------------------- *)
\* C = [q, toks, reg, lo, hi]
Val(C, tok) == IF tok.s < 0 THEN <<>> ELSE SubSeq(C.q, tok.s + 1, tok.e)
EofTok == [t |-> "EOF", s |-> -1, e |-> -1]

S0(C) == [cur |-> C.toks[1], pushed |-> <<>>, k |-> 2]

Nxt(C, S) ==
    IF S.pushed # <<>> THEN [S EXCEPT !.cur = Head(S.pushed), !.pushed = Tail(S.pushed)]
    ELSE IF S.cur.t # "EOF" THEN
        IF S.k <= Len(C.toks) THEN [S EXCEPT !.cur = C.toks[S.k], !.k = S.k + 1]
        ELSE [S EXCEPT !.cur = EofTok]
    ELSE S
PushTok(S, tok) == [S EXCEPT !.pushed = Append(S.pushed, S.cur), !.cur = tok]
\* peek: [S |-> stream afterwards, tok |-> the token looked at]
Pk(C, S) == LET S1 == Nxt(C, S) IN [S |-> PushTok(S1, S.cur), tok |-> S1.cur]

R(S, v) == [ok |-> TRUE, S |-> S, v |-> v]

(* ---- tables ------------------------------------------------------------------ *)
PrecLowest == 1
PrecPrefix == 7
Prec(t) == CASE t = "AND" -> 4 [] t = "OR" -> 3 [] t = "NOT" -> 7 [] t = "RPAREN" -> 1
             [] t \in {"EQ", "GE", "GT", "LE", "LT", "NE"} -> 5 [] OTHER -> 1
BinOps == {"AND", "OR", "EQ", "GE", "GT", "LE", "LT", "NE"}
CmpToks == {"EQ", "GE", "GT", "LE", "LT", "NE"}
OpText(t) == CASE t = "EQ" -> "==" [] t = "GE" -> ">=" [] t = "GT" -> ">" [] t = "LE" -> "<=" [] t = "LT" -> "<" [] t = "NE" -> "!="
ExprToks == {"DOUBLE_QUOTE_STRING", "SINGLE_QUOTE_STRING", "FALSE", "TRUE", "NULL", "FLOAT", "INT", "FUNCTION", "LPAREN",
             "NOT", "ROOT", "CURRENT"}

(* ---- string literals: _decode_string_literal and below (0-based offsets) ---- *)
V0(v, i) == v[i + 1]
RECURSIVE ReplDq(_), ReplBsQ(_)
\* value.replace('"', '\\"')
ReplDq(v) == IF v = <<>> THEN <<>> ELSE IF Head(v) = 34 THEN <<92, 34>> \o ReplDq(Tail(v)) ELSE <<Head(v)>> \o ReplDq(Tail(v))
\* .replace("\\'", "'")  (left to right, non-overlapping)
ReplBsQ(v) == IF v = <<>> THEN <<>>
              ELSE IF Len(v) >= 2 /\ v[1] = 92 /\ v[2] = 39 THEN <<39>> \o ReplBsQ(SubSeq(v, 3, Len(v)))
              ELSE <<Head(v)>> \o ReplBsQ(Tail(v))

HexOk4(v, i) == \A j \in 0..3 : i + j < Len(v) /\ IsHex(V0(v, i + j))
HexVal4(v, i) == HexVal(V0(v, i)) * 4096 + HexVal(V0(v, i + 1)) * 256 + HexVal(V0(v, i + 2)) * 16 + HexVal(V0(v, i + 3))

\* _decode_hex_char: index at the 'u'; [ok, cp, i |-> index returned] or an error
DecodeHex(v, index, tok) ==
    IF index + 4 >= Len(v) THEN PErr("syntax", tok.s)
    ELSE LET i == index + 1
         IN  IF ~HexOk4(v, i) THEN PErr("syntax", tok.s)
             ELSE LET cp == HexVal4(v, i)
                  IN  IF IsLowSur(cp) THEN PErr("syntax", tok.s)
                      ELSE IF IsHighSur(cp) THEN
                          IF ~(i + 9 < Len(v) /\ V0(v, i + 4) = 92 /\ V0(v, i + 5) = 117) THEN PErr("syntax", tok.s)
                          ELSE IF ~HexOk4(v, i + 6) THEN PErr("syntax", tok.s)
                          ELSE LET low == HexVal4(v, i + 6)
                               IN  IF ~IsLowSur(low) THEN PErr("syntax", tok.s)
                                   ELSE [ok |-> TRUE, cp |-> 65536 + (cp - 55296) * 1024 + (low - 56320), i |-> i + 9]
                      ELSE [ok |-> TRUE, cp |-> cp, i |-> i + 3]

\* _decode_escape_sequence: index at the character after the backslash
DecodeEsc(v, index, tok) ==
    IF index >= Len(v) THEN PErr("crash", tok.s)           \* value[index] out of range
    ELSE LET ch == V0(v, index)
         IN  CASE ch = 34  -> [ok |-> TRUE, cp |-> 34, i |-> index]
               [] ch = 92  -> [ok |-> TRUE, cp |-> 92, i |-> index]
               [] ch = 47  -> [ok |-> TRUE, cp |-> 47, i |-> index]
               [] ch = 98  -> [ok |-> TRUE, cp |-> 8, i |-> index]
               [] ch = 102 -> [ok |-> TRUE, cp |-> 12, i |-> index]
               [] ch = 110 -> [ok |-> TRUE, cp |-> 10, i |-> index]
               [] ch = 114 -> [ok |-> TRUE, cp |-> 13, i |-> index]
               [] ch = 116 -> [ok |-> TRUE, cp |-> 9, i |-> index]
               [] ch = 117 -> DecodeHex(v, index, tok)
               [] OTHER    -> PErr("syntax", tok.s)

RECURSIVE Unescape(_, _, _, _)
Unescape(v, index, acc, tok) ==
    IF index >= Len(v) THEN [ok |-> TRUE, v |-> acc]
    ELSE LET ch == V0(v, index)
         IN  IF ch = 92 THEN
                 LET d == DecodeEsc(v, index + 1, tok)
                 IN  IF d.ok THEN Unescape(v, d.i + 1, Append(acc, d.cp), tok) ELSE d
             ELSE IF ch <= 31 THEN PErr("syntax", tok.s)
             ELSE Unescape(v, index + 1, Append(acc, ch), tok)

DecodeString(C, tok) ==
    LET raw == Val(C, tok)
        v   == IF tok.t = "SINGLE_QUOTE_STRING" THEN ReplBsQ(ReplDq(raw)) ELSE raw
    IN  Unescape(v, 0, <<>>, tok)

(* ---- integers of index and slice selectors ------------------------------------- *)
\* len(value) > 1 and value.startswith(("0", "-0"))
LeadingZero(v) == Len(v) > 1 /\ (v[1] = 48 \/ (v[1] = 45 /\ v[2] = 48))
\* int(value) for -?[0-9]+ without leading zeros
IntOfText(v) == IF v[1] = 45 THEN IntLit(TRUE, [k \in 1..(Len(v) - 1) |-> v[k + 1] - 48])
                ELSE IntLit(FALSE, [k \in 1..Len(v) |-> v[k] - 48])
InRangeOpt(x, C) == x = <<>> \/ IntInRange(x[1], C.lo, C.hi)

(* ---- number literals ---------------------------------------------------------------- *)
\* RE_INT_PART = -?(?:0|[1-9][0-9]*)(?![0-9]) matched at the start of the token text
IntPartOk(v) ==
    LET i == IF Len(v) >= 1 /\ v[1] = 45 THEN 2 ELSE 1
        c == At(v, i)
    IN  IF c = 48 THEN ~IsDigit(At(v, i + 1))
        ELSE IsDigit1(c)           \* [1-9][0-9]* is greedy: what follows is not a digit
\* int(float(value)) / float(value): the mathematical value where the model is exact, NumBig elsewhere
\* (a literal too large for binary64 raises OverflowError in int(float(..)) -> JSONPathSyntaxError:
\*  those are NumBig here, and the outcome of a text with a NumBig literal is not pinned: PDispatch stops with "numbig")
NumberOf(v) == LET r == ParseNumber(v, 1) IN IF r.ok /\ r.i = Len(v) + 1 THEN r.v.v ELSE NumBig

(* ---- the parser ------------------------------------------------------------------------ *)
IsLit(e)  == e.t = "lit"
RetType(C, e) == IF e.t = "call" /\ Sig(C.reg, e.f) # <<>> THEN Sig(C.reg, e.f)[1].ret ELSE "none"
\* _raise_for_uncompared_value_function
UncomparedValueFn(C, e) == RetType(C, e) = "V"

RECURSIVE PQuery(_, _, _, _), PSelectors(_, _), PBracketed(_, _), PBrLoop(_, _, _, _), PSlice(_, _), PFilterSel(_, _),
          PExpr(_, _, _), PExprLoop(_, _, _, _, _), PInfix(_, _, _), PGrouped(_, _), PGroupLoop(_, _, _), PPrefix(_, _),
          PFunc(_, _), PFuncLoop(_, _, _, _), PArgOps(_, _, _, _), PDispatch(_, _)

\* parse_query
PQuery(C, S, inFilter, acc) ==
    IF S.cur.t = "DOUBLE_DOT" THEN
        LET r == PSelectors(C, Nxt(C, S))
        IN  IF ~r.ok THEN r ELSE PQuery(C, Nxt(C, r.S), inFilter, Append(acc, [desc |-> TRUE, sels |-> r.v]))
    ELSE IF S.cur.t \in {"LBRACKET", "PROPERTY", "WILD"} THEN
        LET r == PSelectors(C, S)
        IN  IF ~r.ok THEN r ELSE PQuery(C, Nxt(C, r.S), inFilter, Append(acc, [desc |-> FALSE, sels |-> r.v]))
    ELSE IF inFilter THEN R(PushTok(S, S.cur), acc)
    ELSE R(S, acc)

\* parse_selectors
PSelectors(C, S) ==
    CASE S.cur.t = "PROPERTY" -> R(S, <<[t |-> "name", n |-> Val(C, S.cur)]>>)
      [] S.cur.t = "WILD"     -> R(S, <<[t |-> "wild"]>>)
      [] S.cur.t = "LBRACKET" -> PBracketed(C, S)
      [] OTHER -> R(S, <<>>)

\* parse_slice
PSlice(C, S) ==
    LET tok == S.cur
        isIdx(x) == x.cur.t = "INDEX"
        bad(x)   == isIdx(x) /\ LeadingZero(Val(C, x.cur))
    IN  IF bad(S) THEN PErr("syntax", S.cur.s)
        ELSE
        LET start == IF isIdx(S) THEN <<IntOfText(Val(C, S.cur))>> ELSE <<>>
            S1    == IF isIdx(S) THEN Nxt(C, S) ELSE S
        IN  IF S1.cur.t # "COLON" THEN PErr("syntax", S1.cur.s)
            ELSE
            LET S2 == Nxt(C, S1)
            IN  IF bad(S2) THEN PErr("syntax", S2.cur.s)
                ELSE
                LET stop == IF isIdx(S2) THEN <<IntOfText(Val(C, S2.cur))>> ELSE <<>>
                    S3   == IF isIdx(S2) THEN Nxt(C, S2) ELSE S2
                    second == S3.cur.t = "COLON"         \* after the stop, or directly after the first colon
                    S4   == IF second THEN Nxt(C, S3) ELSE S3
                IN  IF second /\ bad(S4) THEN PErr("syntax", S4.cur.s)
                    ELSE
                    LET hasStep == second /\ isIdx(S4)
                        step == IF hasStep THEN <<IntOfText(Val(C, S4.cur))>> ELSE <<>>
                        S5   == IF hasStep THEN Nxt(C, S4) ELSE S4
                        S6   == PushTok(S5, S5.cur)
                    IN  IF ~(InRangeOpt(start, C) /\ InRangeOpt(stop, C) /\ InRangeOpt(step, C)) THEN PErr("index", tok.s)
                        ELSE R(S6, [t |-> "slice", s |-> start, e |-> stop, st |-> step])

\* parse_bracketed_selection
PBracketed(C, S) == PBrLoop(C, Nxt(C, S), <<>>, S.cur)
PBrLoop(C, S, acc, open) ==
    IF S.cur.t = "RBRACKET" THEN (IF acc = <<>> THEN PErr("syntax", open.s) ELSE R(S, acc))
    ELSE
    LET t == S.cur.t
        item ==
            IF t = "INDEX" THEN
                LET p == Pk(C, S)
                IN  IF p.tok.t = "COLON" THEN PSlice(C, p.S)
                    ELSE LET v == Val(C, S.cur)
                         IN  IF (Len(v) > 1 /\ v[1] = 48) \/ (Len(v) >= 2 /\ v[1] = 45 /\ v[2] = 48) THEN PErr("syntax", S.cur.s)
                             ELSE IF ~IntInRange(IntOfText(v), C.lo, C.hi) THEN PErr("index", S.cur.s)
                             ELSE R(p.S, [t |-> "idx", i |-> IntOfText(v)])
            ELSE IF t \in {"DOUBLE_QUOTE_STRING", "SINGLE_QUOTE_STRING"} THEN
                LET d == DecodeString(C, S.cur) IN IF d.ok THEN R(S, [t |-> "name", n |-> d.v]) ELSE d
            ELSE IF t = "COLON" THEN PSlice(C, S)
            ELSE IF t = "WILD" THEN R(S, [t |-> "wild"])
            ELSE IF t = "FILTER" THEN PFilterSel(C, S)
            ELSE PErr("syntax", S.cur.s)
    IN  IF ~item.ok THEN item
        ELSE
        LET p1 == Pk(C, item.S)
        IN  IF p1.tok.t = "EOF" THEN PErr("syntax", item.S.cur.s)
            ELSE
            LET p2 == Pk(C, p1.S)
            IN  IF p2.tok.t = "RBRACKET" THEN PBrLoop(C, Nxt(C, p2.S), Append(acc, item.v), open)
                ELSE
                LET p3 == Pk(C, p2.S)                                  \* expect_peek(COMMA)
                IN  IF p3.tok.t # "COMMA" THEN PErr("syntax", p3.tok.s)
                    ELSE
                    LET S4 == Nxt(C, p3.S)
                        p5 == Pk(C, S4)                                \* expect_peek_not(RBRACKET)
                    IN  IF p5.tok.t = "RBRACKET" THEN PErr("syntax", p5.tok.s)
                        ELSE PBrLoop(C, Nxt(C, p5.S), Append(acc, item.v), open)

\* parse_filter_selector
PFilterSel(C, S) ==
    LET r == PExpr(C, Nxt(C, S), PrecLowest)
    IN  IF ~r.ok THEN r
        ELSE IF UncomparedValueFn(C, r.v) THEN PErr("type", S.cur.s)
        ELSE IF IsLit(r.v) THEN PErr("syntax", S.cur.s)
        ELSE R(r.S, [t |-> "filter", e |-> r.v])

\* token_map / function_argument_map (the same table twice in the code)
PDispatch(C, S) ==
    LET t == S.cur.t
    IN  CASE t \in {"DOUBLE_QUOTE_STRING", "SINGLE_QUOTE_STRING"} ->
                LET d == DecodeString(C, S.cur) IN IF d.ok THEN R(S, [t |-> "lit", v |-> Str(d.v)]) ELSE d
          [] t = "TRUE"  -> R(S, [t |-> "lit", v |-> Bool(TRUE)])
          [] t = "FALSE" -> R(S, [t |-> "lit", v |-> Bool(FALSE)])
          [] t = "NULL"  -> R(S, [t |-> "lit", v |-> Null])
          [] t \in {"INT", "FLOAT"} ->
                IF ~IntPartOk(Val(C, S.cur)) THEN PErr("syntax", S.cur.s)
                ELSE IF NumberOf(Val(C, S.cur)) = NumBig THEN PErr("numbig", S.cur.s)     \* the model does not say
                ELSE R(S, [t |-> "lit", v |-> NumberOf(Val(C, S.cur))])
          [] t = "FUNCTION" -> PFunc(C, S)
          [] t = "LPAREN"   -> PGrouped(C, S)
          [] t = "NOT"      -> PPrefix(C, S)
          [] t = "ROOT"     -> LET r == PQuery(C, Nxt(C, S), TRUE, <<>>)
                               IN  IF r.ok THEN R(r.S, [t |-> "query", abs |-> TRUE, segs |-> r.v]) ELSE r
          [] t = "CURRENT"  -> LET r == PQuery(C, Nxt(C, S), TRUE, <<>>)
                               IN  IF r.ok THEN R(r.S, [t |-> "query", abs |-> FALSE, segs |-> r.v]) ELSE r

\* parse_filter_expression.  A KeyError raised anywhere below the dispatch is caught by the
\* `except KeyError` around it and becomes a JSONPathSyntaxError: "crash" from a missing table entry
\* never escapes (PInfix reports those as "syntax" directly).
PExpr(C, S, prec) ==
    IF S.cur.t \notin ExprToks THEN PErr("syntax", S.cur.s)
    ELSE LET left == PDispatch(C, S)
         IN  IF ~left.ok THEN left ELSE PExprLoop(C, left.S, left.v, S.cur.t = "LPAREN", prec)
PExprLoop(C, S, left, leftIsGroup, prec) ==
    LET p    == Pk(C, S)
        kind == p.tok.t
    IN  IF leftIsGroup /\ kind \in CmpToks THEN PErr("syntax", p.tok.s)
        ELSE IF kind \in {"EOF", "RBRACKET"} \/ Prec(kind) < prec THEN R(p.S, left)
        ELSE IF kind \notin BinOps THEN R(p.S, left)
        ELSE LET r == PInfix(C, Nxt(C, p.S), left)
             IN  IF ~r.ok THEN r ELSE PExprLoop(C, r.S, r.v, FALSE, prec)

\* _raise_for_non_comparable_expression / _raise_for_non_comparable_function
NonComparableExpr(e) == e.t \notin {"lit", "query", "call"}
NonComparableFn(C, e) ==
    \/ (e.t = "query" /\ ~IsSingularSegs(e.segs))
    \/ (e.t = "call" /\ RetType(C, e) \in {"L", "N"})

\* parse_infix_expression
PInfix(C, S, left) ==
    LET tok == S.cur
        S1  == Nxt(C, S)
    IN  IF tok.t \notin BinOps THEN PErr("syntax", S1.cur.s)                 \* BINARY_OPERATORS[tok.type_]: KeyError, caught above
        ELSE IF tok.t \in CmpToks /\ S1.cur.t = "LPAREN" THEN PErr("syntax", S1.cur.s)
        ELSE
        LET r == PExpr(C, S1, Prec(tok.t))
        IN  IF ~r.ok THEN r
            ELSE IF tok.t \in CmpToks THEN
                IF NonComparableExpr(left) \/ NonComparableExpr(r.v) THEN PErr("syntax", tok.s)
                ELSE IF NonComparableFn(C, left) \/ NonComparableFn(C, r.v) THEN PErr("type", tok.s)
                ELSE R(r.S, [t |-> "cmp", op |-> OpText(tok.t), l |-> left, r |-> r.v])
            ELSE IF UncomparedValueFn(C, left) \/ UncomparedValueFn(C, r.v) THEN PErr("type", tok.s)
            ELSE IF IsLit(left) \/ IsLit(r.v) THEN PErr("syntax", tok.s)
            ELSE R(r.S, [t |-> IF tok.t = "AND" THEN "and" ELSE "or", l |-> left, r |-> r.v])

\* parse_grouped_expression
PGrouped(C, S) ==
    LET r == PExpr(C, Nxt(C, S), PrecLowest)
    IN  IF ~r.ok THEN r ELSE PGroupLoop(C, Nxt(C, r.S), r.v)
PGroupLoop(C, S, expr) ==
    IF S.cur.t = "RPAREN" THEN (IF UncomparedValueFn(C, expr) THEN PErr("type", S.cur.s) ELSE R(S, expr))
    ELSE IF S.cur.t = "EOF" THEN PErr("syntax", S.cur.s)
    ELSE LET r == PInfix(C, S, expr) IN IF ~r.ok THEN r ELSE PGroupLoop(C, r.S, r.v)

\* parse_prefix_expression
PPrefix(C, S) ==
    LET S1 == Nxt(C, S)
    IN  IF S1.cur.t \notin {"LPAREN", "ROOT", "CURRENT", "FUNCTION"} THEN PErr("syntax", S1.cur.s)
        ELSE LET r == PExpr(C, S1, PrecPrefix)
             IN  IF ~r.ok THEN r
                 ELSE IF UncomparedValueFn(C, r.v) THEN PErr("type", S.cur.s)
                 ELSE IF IsLit(r.v) THEN PErr("syntax", S.cur.s)
                 ELSE R(r.S, [t |-> "not", e |-> r.v])

\* check_well_typedness (environment.py), argument by argument
ArgOk(C, a, p) ==
    CASE p = "V" -> IsLit(a) \/ (a.t = "query" /\ IsSingularSegs(a.segs)) \/ RetType(C, a) = "V"
      [] p = "L" -> a.t \in {"query", "or", "and", "cmp", "not"} \/ RetType(C, a) \in {"L", "N"}
      [] p = "N" -> a.t = "query" \/ RetType(C, a) = "N"
\* the `while peek_kind in BINARY_OPERATORS` loop of parse_function_extension (kind: the token kind already peeked)
PArgOps(C, S, expr, kind) ==
    IF kind \in BinOps THEN
        LET r == PInfix(C, Nxt(C, S), expr)
        IN  IF ~r.ok THEN r ELSE LET p == Pk(C, r.S) IN PArgOps(C, p.S, r.v, p.tok.t)
    ELSE R(S, expr)

\* parse_function_extension
PFunc(C, S) == PFuncLoop(C, Nxt(C, S), <<>>, S.cur)
PFuncLoop(C, S, args, ftok) ==
    LET name == Val(C, ftok)
        sg   == Sig(C.reg, name)
    IN  IF S.cur.t = "RPAREN" THEN
            IF sg = <<>> THEN PErr("name", ftok.s)
            ELSE IF Len(args) # Len(sg[1].params) THEN PErr("type", ftok.s)
            ELSE IF \E k \in 1..Len(args) : ~ArgOk(C, args[k], sg[1].params[k]) THEN PErr("type", ftok.s)
            ELSE R(S, [t |-> "call", f |-> name, args |-> args])
        ELSE IF S.cur.t \notin ExprToks THEN PErr("syntax", S.cur.s)
        ELSE
        LET parenthesized == S.cur.t = "LPAREN"
            a == PDispatch(C, S)
        IN  IF ~a.ok THEN a
            ELSE
            LET p == Pk(C, a.S)
            IN  IF parenthesized /\ p.tok.t \in CmpToks THEN PErr("syntax", p.tok.s)
                ELSE
                LET b == PArgOps(C, p.S, a.v, p.tok.t)
                IN  IF ~b.ok THEN b
                    \* _raise_for_non_logical_parameter
                    ELSE IF parenthesized /\ sg # <<>> /\ Len(args) < Len(sg[1].params) /\ sg[1].params[Len(args) + 1] # "L"
                        THEN PErr("type", ftok.s)
                    ELSE
                    LET q1 == Pk(C, b.S)
                    IN  IF q1.tok.t = "RPAREN" THEN PFuncLoop(C, Nxt(C, q1.S), Append(args, b.v), ftok)
                        ELSE
                        LET q2 == Pk(C, q1.S)                          \* expect_peek(COMMA)
                        IN  IF q2.tok.t # "COMMA" THEN PErr("syntax", q2.tok.s)
                            ELSE
                            LET S3 == Nxt(C, q2.S)
                                q4 == Pk(C, S3)                        \* expect_peek_not(RPAREN)
                            IN  IF q4.tok.t = "RPAREN" THEN PErr("syntax", q4.tok.s)
                                ELSE PFuncLoop(C, Nxt(C, q4.S), Append(args, b.v), ftok)

\* Parser.parse
PParse(C) ==
    LET S == S0(C)
    IN  IF S.cur.t # "ROOT" THEN PErr("syntax", S.cur.s)
        ELSE LET r == PQuery(C, Nxt(C, S), FALSE, <<>>)
             IN  IF ~r.ok THEN r
                 ELSE IF r.S.cur.t # "EOF" THEN PErr("syntax", r.S.cur.s)
                 ELSE [ok |-> TRUE, v |-> r.v]

\* JSONPathEnvironment.compile
ImplCompile(q, reg, lo, hi) ==
    LET tk == Tokenize(q)
    IN  IF ~tk.ok THEN tk
        ELSE PParse([q |-> q, toks |-> tk.v, reg |-> reg, lo |-> lo, hi |-> hi])
=============================================================================
