----------------------------- MODULE TokenStream -----------------------------
(***************************************************************************)
(* tokens.TokenStream as a state machine (coverage beyond the listed       *)
(* properties: the parser's only window onto the lexer's output).          *)
(*                                                                         *)
(* A stream over a finite token sequence ending in EOF: `current`, a FIFO  *)
(* of pushed-back tokens, and the rest.  Operations: next (returns the     *)
(* current token and advances), peek (the token after current, without     *)
(* observable effect), push(tok) (make tok current, the old current comes  *)
(* back next), expect / expect_peek (raise iff the kind is not among the   *)
(* given ones).  Tokens are abstracted to their kinds.                     *)
(*                                                                         *)
(* Invariants: peek is observationally pure; after EOF has become current  *)
(* the stream stays at EOF whatever is called.  Every behaviour (sequence  *)
(* of operations with the value each must return) is replayed into the     *)
(* real class.                                                             *)
(***************************************************************************)
EXTENDS Integers, Sequences, TLC, Json

CONSTANTS Kinds,        \* token kinds other than "EOF"
          MaxLen,       \* length of the token sequence (without the final EOF)
          MaxOps

VARIABLES toks, cur, pushed, rest, ops
vars == <<toks, cur, pushed, rest, ops>>

EOFK == "EOF"
RECURSIVE SeqsOf(_, _)
SeqsOf(S, n) == IF n = 0 THEN {<<>>} ELSE {Append(p, x) : p \in SeqsOf(S, n - 1), x \in S}

\* the constructor takes the first token as current
Init == /\ toks \in UNION {SeqsOf(Kinds, n) : n \in 0..MaxLen}
        /\ cur = IF toks = <<>> THEN EOFK ELSE Head(toks)
        /\ pushed = <<>>
        /\ rest = IF toks = <<>> THEN <<>> ELSE Tail(toks)
        /\ ops = <<>>

\* what becomes current when the stream advances from the given (cur, pushed, rest)
AdvCur(c, p, r)    == IF p # <<>> THEN Head(p) ELSE IF c = EOFK THEN EOFK ELSE IF r = <<>> THEN EOFK ELSE Head(r)
AdvPushed(c, p, r) == IF p # <<>> THEN Tail(p) ELSE p
AdvRest(c, p, r)   == IF p # <<>> THEN r ELSE IF c = EOFK \/ r = <<>> THEN r ELSE Tail(r)

Log(op, arg, ret) == ops' = Append(ops, [op |-> op, arg |-> arg, ret |-> ret])

NextTok ==
    /\ Log("next", "", cur)
    /\ cur' = AdvCur(cur, pushed, rest)
    /\ pushed' = AdvPushed(cur, pushed, rest)
    /\ rest' = AdvRest(cur, pushed, rest)
    /\ UNCHANGED toks

\* peek as the code does it: advance, look, push the old current back.  The looked-at token
\* ends up at the END of the pushed-back queue, so with two or more pushed-back tokens a peek
\* rotates them (a deviation from "peek is pure" that the model names rather than hides; the
\* parser never has more than one pushed-back token when it peeks).
PeekVal == AdvCur(cur, pushed, rest)
Peek ==
    /\ Log("peek", "", PeekVal)
    /\ pushed' = Append(AdvPushed(cur, pushed, rest), PeekVal)
    /\ rest' = AdvRest(cur, pushed, rest)
    /\ UNCHANGED <<toks, cur>>

Push(k) ==
    /\ Log("push", k, "")
    /\ pushed' = Append(pushed, cur)
    /\ cur' = k
    /\ UNCHANGED <<toks, rest>>

Expect(k)     == Log("expect", k, IF cur = k THEN "ok" ELSE "raise") /\ UNCHANGED <<toks, cur, pushed, rest>>
\* one evaluation of the `peek` property, as a function on (pushed, rest)
PeekOnce(pr) == [p |-> Append(AdvPushed(cur, pr.p, pr.r), AdvCur(cur, pr.p, pr.r)), r |-> AdvRest(cur, pr.p, pr.r)]
\* expect_peek evaluates `self.peek` once when the kind matches and three times when it raises
\* (condition, message, token of the exception): each evaluation has Peek's effect on the queue
ExpectPeek(k) ==
    LET p0 == [p |-> pushed, r |-> rest]
        p1 == PeekOnce(p0)
        p3 == PeekOnce(PeekOnce(p1))
        fin == IF PeekVal = k THEN p1 ELSE p3
    IN  /\ Log("expect_peek", k, IF PeekVal = k THEN "ok" ELSE "raise")
        /\ pushed' = fin.p /\ rest' = fin.r
        /\ UNCHANGED <<toks, cur>>

Next ==
    /\ Len(ops) < MaxOps
    /\ \/ NextTok \/ Peek
       \/ \E k \in Kinds : Push(k) \/ Expect(k) \/ ExpectPeek(k)
Spec == Init /\ [][Next]_vars

\* the observable future of the stream: what a run of next() calls would return (up to EOF)
RECURSIVE Drain(_, _, _, _)
Drain(c, p, r, fuel) == IF c = EOFK \/ fuel = 0 THEN <<c>>
                        ELSE <<c>> \o Drain(AdvCur(c, p, r), AdvPushed(c, p, r), AdvRest(c, p, r), fuel - 1)
Future == Drain(cur, pushed, rest, MaxLen + MaxOps + 2)

\* peek / expect / expect_peek are observationally pure as long as at most one token is pushed back
PeekPure == [][(ops' # ops /\ ops'[Len(ops')].op \in {"peek", "expect", "expect_peek"} /\ Len(pushed) <= 1) => Future' = Future]_vars
EofAbsorbing == (cur = EOFK /\ pushed = <<>>) => PeekVal = EOFK
View == <<toks, cur, pushed, rest, IF ops = <<>> THEN <<>> ELSE ops[Len(ops)], Len(ops)>>
Export == ops = <<>> \/ PrintT("GEN " \o ToJson([toks |-> toks, ops |-> ops]))
=============================================================================
