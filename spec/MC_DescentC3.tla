-------------------- MODULE MC_DescentC3 --------------------
EXTENDS MC_Descent
MCGraphs == CyclicGraphs3F(0)
======================================================================
