------------------------------- MODULE Syntax -------------------------------
(***************************************************************************)
(* RFC 9535 concrete syntax (Appendix A ABNF) as a deterministic           *)
(* recursive-descent parser from text (Seq of code points) to the AST.     *)
(* Written production by production after the ABNF, including where the    *)
(* optional blank space S may and may not appear.                          *)
(*                                                                         *)
(*   Parse(s, strict) = [ok |-> TRUE, v |-> Seq(Segment)]                  *)
(*                    | [ok |-> FALSE, i |-> position, why |-> reason]     *)
(*                                                                         *)
(* strict = TRUE is the ABNF verbatim.  strict = FALSE additionally admits *)
(* blank space next to the brackets of a singular query used as a          *)
(* comparison operand (the ABNF's name-segment / index-segment omit S      *)
(* there while bracketed-selection has it): strings in the difference are  *)
(* a declared don't-care set, neither "must accept" nor "must reject".     *)
(*                                                                         *)
(* AST                                                                     *)
(*   Segment  [desc: BOOLEAN, sels: Seq(Selector)]                         *)
(*   Selector [t |-> "name", n |-> Text] | [t |-> "idx", i |-> IntLit]     *)
(*          | [t |-> "slice", s, e, st : Maybe(IntLit)] | [t |-> "wild"]   *)
(*          | [t |-> "filter", e |-> Expr]                                 *)
(*   IntLit   [neg: BOOLEAN, ds: Seq(0..9)]   (digits, arbitrary length)   *)
(*   Expr     [t |-> "or"|"and", l, r] | [t |-> "not", e]                  *)
(*          | [t |-> "cmp", op, l, r] | [t |-> "query", abs, segs]         *)
(*          | [t |-> "call", f |-> Text, args |-> Seq(Expr)]               *)
(*          | [t |-> "lit", v |-> Value | [k |-> "numbig"]]                *)
(*          | [t |-> "paren", e |-> Expr]                                  *)
(***************************************************************************)
EXTENDS JsonVal

EOF == -1
At(s, i) == IF i >= 1 /\ i <= Len(s) THEN s[i] ELSE EOF

IsBlank(c)     == c = 32 \/ c = 9 \/ c = 10 \/ c = 13
IsDigit(c)     == c >= 48 /\ c <= 57
IsDigit1(c)    == c >= 49 /\ c <= 57
IsLc(c)        == c >= 97 /\ c <= 122
IsAlpha(c)     == (c >= 65 /\ c <= 90) \/ IsLc(c)
IsNameFirst(c) == IsAlpha(c) \/ c = 95 \/ (c >= 128 /\ c <= 55295) \/ (c >= 57344 /\ c <= 1114111)
IsNameChar(c)  == IsNameFirst(c) \/ IsDigit(c)
IsFnChar(c)    == IsLc(c) \/ c = 95 \/ IsDigit(c)
IsHex(c)       == IsDigit(c) \/ (c >= 65 /\ c <= 70) \/ (c >= 97 /\ c <= 102)
HexVal(c)      == IF IsDigit(c) THEN c - 48 ELSE IF c >= 97 THEN c - 87 ELSE c - 55
IsUnescaped(c) == (c >= 32 /\ c <= 33) \/ (c >= 35 /\ c <= 38) \/ (c >= 40 /\ c <= 91)
                  \/ (c >= 93 /\ c <= 55295) \/ (c >= 57344 /\ c <= 1114111)

Ok(i, v)     == [ok |-> TRUE, i |-> i, v |-> v]
Fail(i, why) == [ok |-> FALSE, i |-> i, why |-> why]

RECURSIVE SkipB(_, _)
SkipB(s, i) == IF IsBlank(At(s, i)) THEN SkipB(s, i + 1) ELSE i

\* first position >= i whose character is not of the given class
RECURSIVE DigitsEnd(_, _)
DigitsEnd(s, i) == IF IsDigit(At(s, i)) THEN DigitsEnd(s, i + 1) ELSE i
RECURSIVE NameEnd(_, _)
NameEnd(s, i) == IF IsNameChar(At(s, i)) THEN NameEnd(s, i + 1) ELSE i
RECURSIVE FnEnd(_, _)
FnEnd(s, i) == IF IsFnChar(At(s, i)) THEN FnEnd(s, i + 1) ELSE i

Digits(s, i, j) == [k \in 1..(j - i) |-> s[i + k - 1] - 48]     \* s[i..j-1]

(* ---------------- string-literal (RFC 9535 2.3.1.1) --------------------- *)
Hex4Ok(s, i)  == IsHex(At(s, i)) /\ IsHex(At(s, i + 1)) /\ IsHex(At(s, i + 2)) /\ IsHex(At(s, i + 3))
Hex4Val(s, i) == HexVal(s[i]) * 4096 + HexVal(s[i + 1]) * 256 + HexVal(s[i + 2]) * 16 + HexVal(s[i + 3])
IsHighSur(c)  == c >= 55296 /\ c <= 56319
IsLowSur(c)   == c >= 56320 /\ c <= 57343

\* the escape starting at the backslash s[i]: [ok, i |-> next, v |-> code point]
Escape(s, i, q) ==
    LET d == At(s, i + 1)
    IN  IF d = q THEN Ok(i + 2, q)
        ELSE IF d = 98  THEN Ok(i + 2, 8)
        ELSE IF d = 102 THEN Ok(i + 2, 12)
        ELSE IF d = 110 THEN Ok(i + 2, 10)
        ELSE IF d = 114 THEN Ok(i + 2, 13)
        ELSE IF d = 116 THEN Ok(i + 2, 9)
        ELSE IF d = 47  THEN Ok(i + 2, 47)
        ELSE IF d = 92  THEN Ok(i + 2, 92)
        ELSE IF d = 117 THEN
            IF ~Hex4Ok(s, i + 2) THEN Fail(i + 2, "string: four hex digits expected")
            ELSE LET cp == Hex4Val(s, i + 2)
                 IN  IF IsLowSur(cp) THEN Fail(i, "string: lone low surrogate escape")
                     ELSE IF IsHighSur(cp) THEN
                         IF At(s, i + 6) = 92 /\ At(s, i + 7) = 117 /\ Hex4Ok(s, i + 8)
                            /\ IsLowSur(Hex4Val(s, i + 8))
                         THEN Ok(i + 12, 65536 + (cp - 55296) * 1024 + (Hex4Val(s, i + 8) - 56320))
                         ELSE Fail(i + 6, "string: low surrogate escape expected")
                     ELSE Ok(i + 6, cp)
        ELSE Fail(i + 1, "string: unknown escape")

RECURSIVE StrBody(_, _, _, _)
StrBody(s, i, q, acc) ==
    LET c == At(s, i)
    IN  IF c = EOF THEN Fail(i, "string: unclosed")
        ELSE IF c = q THEN Ok(i + 1, acc)
        ELSE IF c = 92 THEN
            LET r == Escape(s, i, q)
            IN  IF r.ok THEN StrBody(s, r.i, q, Append(acc, r.v)) ELSE r
        ELSE IF IsUnescaped(c) \/ c = 34 \/ c = 39 THEN StrBody(s, i + 1, q, Append(acc, c))
        ELSE Fail(i, "string: raw control character")

StringLit(s, i) == StrBody(s, i + 1, s[i], <<>>)       \* s[i] is the opening quote

(* ---------------- int, number ------------------------------------------- *)
IntLit(neg, ds) == [neg |-> neg, ds |-> ds]

\* int = "0" / (["-"] DIGIT1 *DIGIT)
ParseInt(s, i) ==
    LET c == At(s, i)
    IN  IF c = 48 THEN Ok(i + 1, IntLit(FALSE, <<0>>))
        ELSE IF c = 45 THEN
            IF IsDigit1(At(s, i + 1))
            THEN LET j == DigitsEnd(s, i + 1) IN Ok(j, IntLit(TRUE, Digits(s, i + 1, j)))
            ELSE Fail(i + 1, "int: non-zero digit expected after '-'")
        ELSE IF IsDigit1(c)
            THEN LET j == DigitsEnd(s, i) IN Ok(j, IntLit(FALSE, Digits(s, i, j)))
        ELSE Fail(i, "int expected")

RECURSIVE StripLead(_)
StripLead(ds) == IF Len(ds) > 0 /\ ds[1] = 0 THEN StripLead(Tail(ds)) ELSE ds
RECURSIVE StripTrail(_)
StripTrail(ds) == IF Len(ds) > 0 /\ ds[Len(ds)] = 0 THEN StripTrail(SubSeq(ds, 1, Len(ds) - 1)) ELSE ds
RECURSIVE DigitsVal(_)
DigitsVal(ds) == IF ds = <<>> THEN 0 ELSE DigitsVal(SubSeq(ds, 1, Len(ds) - 1)) * 10 + ds[Len(ds)]

NumBig == [k |-> "numbig"]
\* value of  [-] ids [. fds] [e [-] eds].  A literal is outside the model (NumBig, a declared
\* don't-care) when it has more than 15 significant digits or a magnitude of 10^15 or more:
\* beyond that an implementation reading literals through binary64 need not be exact.
NumLitVal(neg, ids, fds, eneg, eds) ==
    LET all  == StripLead(ids \o fds)
        sig  == StripTrail(all)
        tz   == Len(all) - Len(sig)
        exd  == StripLead(eds)
    IN  IF sig = <<>> THEN Num(0, 0)
        ELSE IF Len(sig) > 15 \/ Len(exd) > 3 THEN NumBig
        ELSE LET x == (IF eneg THEN -DigitsVal(exd) ELSE DigitsVal(exd)) - Len(fds) + tz
             IN  IF Len(sig) + x > 15 \/ x < -60 THEN NumBig
                 ELSE NumDs(neg, sig, x)

\* number = (int / "-0") [ frac ] [ exp ]
ParseNumber(s, i) ==
    LET neg  == At(s, i) = 45
        i0   == IF neg THEN i + 1 ELSE i
        c0   == At(s, i0)
        iEnd == IF c0 = 48 THEN i0 + 1 ELSE IF IsDigit1(c0) THEN DigitsEnd(s, i0) ELSE i0
        hasF == At(s, iEnd) = 46 /\ IsDigit(At(s, iEnd + 1))
        fEnd == IF hasF THEN DigitsEnd(s, iEnd + 1) ELSE iEnd
        ec   == At(s, fEnd)
        sgn  == At(s, fEnd + 1)
        eD   == IF sgn = 45 \/ sgn = 43 THEN fEnd + 2 ELSE fEnd + 1
        hasE == (ec = 101 \/ ec = 69) /\ IsDigit(At(s, eD))
        eEnd == IF hasE THEN DigitsEnd(s, eD) ELSE fEnd
    IN  IF iEnd = i0 THEN Fail(i0, "number: digit expected")
        ELSE Ok(eEnd, [t |-> "lit",
                       v |-> NumLitVal(neg, Digits(s, i0, iEnd),
                                       IF hasF THEN Digits(s, iEnd + 1, fEnd) ELSE <<>>,
                                       hasE /\ sgn = 45,
                                       IF hasE THEN Digits(s, eD, eEnd) ELSE <<>>)])

(* ---------------- expressions and segments (mutually recursive) --------- *)
IsSingularSegs(segs) ==
    \A k \in 1..Len(segs) :
        /\ ~segs[k].desc
        /\ Len(segs[k].sels) = 1
        /\ segs[k].sels[1].t \in {"name", "idx"}

IsComparable(e) ==
    \/ e.t = "lit"
    \/ e.t = "call"
    \/ (e.t = "query" /\ IsSingularSegs(e.segs))

\* comparison-op at position j: its text, or "" if none
CmpOpAt(s, j) ==
    LET c == At(s, j)  d == At(s, j + 1)
    IN  IF c = 61 /\ d = 61 THEN "=="
        ELSE IF c = 33 /\ d = 61 THEN "!="
        ELSE IF c = 60 /\ d = 61 THEN "<="
        ELSE IF c = 62 /\ d = 61 THEN ">="
        ELSE IF c = 60 THEN "<"
        ELSE IF c = 62 THEN ">"
        ELSE ""
OpLen(op) == IF op \in {"<", ">"} THEN 1 ELSE 2

KwTrue  == <<116, 114, 117, 101>>
KwFalse == <<102, 97, 108, 115, 101>>
KwNull  == <<110, 117, 108, 108>>

RECURSIVE SegLoop(_, _, _, _, _), Bracketed(_, _, _, _), SelLoop(_, _, _, _, _), Selector(_, _, _),
          ParseOr(_, _, _), OrLoop(_, _, _, _), ParseAnd(_, _, _), AndLoop(_, _, _, _),
          ParseBasic(_, _, _), Primary(_, _, _, _), FuncExpr(_, _, _), ArgLoop(_, _, _, _, _),
          Arg(_, _, _)

\* segments = *(S segment).  ns: no blank space allowed next to brackets
\* (the ABNF's name-segment / index-segment); st: strict mode.
SegLoop(s, i, acc, ns, st) ==
    LET j == SkipB(s, i)
        c == At(s, j)
    IN  IF c = 46 THEN
            IF At(s, j + 1) = 46 THEN                       \* descendant-segment
                LET d == At(s, j + 2)
                IN  IF d = 91 THEN
                        LET r == Bracketed(s, j + 2, ns, st)
                        IN  IF r.ok THEN SegLoop(s, r.i, Append(acc, [desc |-> TRUE, sels |-> r.v]), ns, st)
                            ELSE r
                    ELSE IF d = 42 THEN
                        SegLoop(s, j + 3, Append(acc, [desc |-> TRUE, sels |-> <<[t |-> "wild"]>>]), ns, st)
                    ELSE IF IsNameFirst(d) THEN
                        LET k == NameEnd(s, j + 2)
                        IN  SegLoop(s, k, Append(acc, [desc |-> TRUE,
                                       sels |-> <<[t |-> "name", n |-> SubSeq(s, j + 2, k - 1)]>>]), ns, st)
                    ELSE Fail(j + 2, "descendant-segment: '[', '*' or name expected")
            ELSE
                LET d == At(s, j + 1)
                IN  IF d = 42 THEN
                        SegLoop(s, j + 2, Append(acc, [desc |-> FALSE, sels |-> <<[t |-> "wild"]>>]), ns, st)
                    ELSE IF IsNameFirst(d) THEN
                        LET k == NameEnd(s, j + 1)
                        IN  SegLoop(s, k, Append(acc, [desc |-> FALSE,
                                       sels |-> <<[t |-> "name", n |-> SubSeq(s, j + 1, k - 1)]>>]), ns, st)
                    ELSE Fail(j + 1, "child-segment: '*' or name expected after '.'")
        ELSE IF c = 91 THEN
            LET r == Bracketed(s, j, ns, st)
            IN  IF r.ok THEN SegLoop(s, r.i, Append(acc, [desc |-> FALSE, sels |-> r.v]), ns, st)
                ELSE r
        ELSE Ok(i, acc)                    \* blank space before a non-segment is not consumed

\* bracketed-selection = "[" S selector *(S "," S selector) S "]"      (s[i] = "[")
Bracketed(s, i, ns, st) ==
    LET j == SkipB(s, i + 1)
    IN  IF ns /\ j # i + 1 THEN Fail(i + 1, "singular-query: blank space after '['")
        ELSE SelLoop(s, j, <<>>, ns, st)

SelLoop(s, i, acc, ns, st) ==
    LET r == Selector(s, i, st)
    IN  IF ~r.ok THEN r
        ELSE LET j == SkipB(s, r.i)
                 c == At(s, j)
             IN  IF c = 44 THEN SelLoop(s, SkipB(s, j + 1), Append(acc, r.v), ns, st)
                 ELSE IF c = 93 THEN
                     IF ns /\ j # r.i THEN Fail(r.i, "singular-query: blank space before ']'")
                     ELSE Ok(j + 1, Append(acc, r.v))
                 ELSE Fail(j, "bracketed-selection: ',' or ']' expected")

IntStart(c) == c = 45 \/ IsDigit(c)

\* ":" [S step]    (s[k] = ":")
StepPart(s, k, start, end) ==
    LET k3 == SkipB(s, k + 1)
    IN  IF IntStart(At(s, k3)) THEN
            LET r == ParseInt(s, k3)
            IN  IF r.ok THEN Ok(r.i, [t |-> "slice", s |-> start, e |-> end, st |-> <<r.v>>]) ELSE r
        ELSE Ok(k + 1, [t |-> "slice", s |-> start, e |-> end, st |-> <<>>])

\* ":" S [end S] [":" [S step]]     (s[j] = ":", start already parsed)
SliceRest(s, j, start) ==
    LET k == SkipB(s, j + 1)
        c == At(s, k)
    IN  IF IntStart(c) THEN
            LET r == ParseInt(s, k)
            IN  IF ~r.ok THEN r
                ELSE LET k2 == SkipB(s, r.i)
                     IN  IF At(s, k2) = 58 THEN StepPart(s, k2, start, <<r.v>>)
                         ELSE Ok(r.i, [t |-> "slice", s |-> start, e |-> <<r.v>>, st |-> <<>>])
        ELSE IF c = 58 THEN StepPart(s, k, start, <<>>)
        ELSE Ok(j + 1, [t |-> "slice", s |-> start, e |-> <<>>, st |-> <<>>])

Selector(s, i, st) ==
    LET c == At(s, i)
    IN  IF c = 39 \/ c = 34 THEN
            LET r == StringLit(s, i) IN IF r.ok THEN Ok(r.i, [t |-> "name", n |-> r.v]) ELSE r
        ELSE IF c = 42 THEN Ok(i + 1, [t |-> "wild"])
        ELSE IF c = 63 THEN
            LET r == ParseOr(s, SkipB(s, i + 1), st)
            IN  IF r.ok THEN Ok(r.i, [t |-> "filter", e |-> r.v]) ELSE r
        ELSE IF c = 58 THEN SliceRest(s, i, <<>>)
        ELSE IF IntStart(c) THEN
            LET r == ParseInt(s, i)
            IN  IF ~r.ok THEN r
                ELSE LET j == SkipB(s, r.i)
                     IN  IF At(s, j) = 58 THEN SliceRest(s, j, <<r.v>>)
                         ELSE Ok(r.i, [t |-> "idx", i |-> r.v])
        ELSE Fail(i, "selector expected")

\* logical-or-expr = logical-and-expr *(S "||" S logical-and-expr)
ParseOr(s, i, st) ==
    LET r == ParseAnd(s, i, st) IN IF r.ok THEN OrLoop(s, r.i, r.v, st) ELSE r
OrLoop(s, i, left, st) ==
    LET j == SkipB(s, i)
    IN  IF At(s, j) = 124 /\ At(s, j + 1) = 124 THEN
            LET r == ParseAnd(s, SkipB(s, j + 2), st)
            IN  IF r.ok THEN OrLoop(s, r.i, [t |-> "or", l |-> left, r |-> r.v], st) ELSE r
        ELSE Ok(i, left)

\* logical-and-expr = basic-expr *(S "&&" S basic-expr)
ParseAnd(s, i, st) ==
    LET r == ParseBasic(s, i, st) IN IF r.ok THEN AndLoop(s, r.i, r.v, st) ELSE r
AndLoop(s, i, left, st) ==
    LET j == SkipB(s, i)
    IN  IF At(s, j) = 38 /\ At(s, j + 1) = 38 THEN
            LET r == ParseBasic(s, SkipB(s, j + 2), st)
            IN  IF r.ok THEN AndLoop(s, r.i, [t |-> "and", l |-> left, r |-> r.v], st) ELSE r
        ELSE Ok(i, left)

\* paren-expr body: "(" S logical-expr S ")"     (s[i] = "(")
Paren(s, i, st) ==
    LET r == ParseOr(s, SkipB(s, i + 1), st)
    IN  IF ~r.ok THEN r
        ELSE LET j == SkipB(s, r.i)
             IN  IF At(s, j) = 41 THEN Ok(j + 1, [t |-> "paren", e |-> r.v])
                 ELSE Fail(j, "paren-expr: ')' expected")

\* basic-expr = paren-expr / comparison-expr / test-expr
ParseBasic(s, i, st) ==
    LET c == At(s, i)
    IN  IF c = 33 THEN                                \* logical-not-op S ...
            LET j == SkipB(s, i + 1)
                d == At(s, j)
            IN  IF d = 40 THEN
                    LET r == Paren(s, j, st) IN IF r.ok THEN Ok(r.i, [t |-> "not", e |-> r.v]) ELSE r
                ELSE IF d = 64 \/ d = 36 \/ IsLc(d) THEN
                    LET r == Primary(s, j, FALSE, st)
                    IN  IF ~r.ok THEN r
                        ELSE IF r.v.t = "lit" THEN Fail(j, "test-expr: '!' applied to a literal")
                        ELSE IF CmpOpAt(s, SkipB(s, r.i)) # "" THEN
                            Fail(SkipB(s, r.i), "comparison-expr: operand is negated")
                        ELSE Ok(r.i, [t |-> "not", e |-> r.v])
                ELSE Fail(j, "after '!': '(', query or function expected")
        ELSE IF c = 40 THEN Paren(s, i, st)
        ELSE
            LET p == Primary(s, i, FALSE, st)
            IN  IF ~p.ok THEN p
                ELSE LET j  == SkipB(s, p.i)
                         op == CmpOpAt(s, j)
                     IN  IF op # "" THEN
                             IF ~IsComparable(p.v) THEN Fail(i, "comparison-expr: left operand is not a comparable")
                             ELSE IF st /\ p.v.t = "query" /\ ~Primary(s, i, TRUE, st).ok
                                 THEN Fail(i, "singular-query: blank space next to bracket")
                             ELSE
                                 LET k == SkipB(s, j + OpLen(op))
                                     r == Primary(s, k, st, st)
                                 IN  IF ~r.ok THEN r
                                     ELSE IF ~IsComparable(r.v) THEN Fail(k, "comparison-expr: right operand is not a comparable")
                                     ELSE Ok(r.i, [t |-> "cmp", op |-> op, l |-> p.v, r |-> r.v])
                         ELSE IF p.v.t = "lit" THEN Fail(p.i, "basic-expr: literal must be compared")
                         ELSE Ok(p.i, p.v)

\* literal / filter-query / function-expr.   ns as in SegLoop
Primary(s, i, ns, st) ==
    LET c == At(s, i)
    IN  IF c = 64 \/ c = 36 THEN
            LET r == SegLoop(s, i + 1, <<>>, ns, st)
            IN  IF r.ok THEN Ok(r.i, [t |-> "query", abs |-> (c = 36), segs |-> r.v]) ELSE r
        ELSE IF c = 39 \/ c = 34 THEN
            LET r == StringLit(s, i) IN IF r.ok THEN Ok(r.i, [t |-> "lit", v |-> Str(r.v)]) ELSE r
        ELSE IF IntStart(c) THEN ParseNumber(s, i)
        ELSE IF IsLc(c) THEN
            LET k    == FnEnd(s, i)
                name == SubSeq(s, i, k - 1)
            IN  IF At(s, k) = 40 THEN FuncExpr(s, i, st)
                ELSE IF name = KwTrue  THEN Ok(k, [t |-> "lit", v |-> Bool(TRUE)])
                ELSE IF name = KwFalse THEN Ok(k, [t |-> "lit", v |-> Bool(FALSE)])
                ELSE IF name = KwNull  THEN Ok(k, [t |-> "lit", v |-> Null])
                ELSE Fail(i, "literal, query or function expected")
        ELSE Fail(i, "literal, query or function expected")

\* function-expr = function-name "(" S [function-argument *(S "," S function-argument)] S ")"
FuncExpr(s, i, st) ==
    LET k    == FnEnd(s, i)
        name == SubSeq(s, i, k - 1)
        j    == SkipB(s, k + 1)
    IN  IF At(s, j) = 41 THEN Ok(j + 1, [t |-> "call", f |-> name, args |-> <<>>])
        ELSE ArgLoop(s, j, name, <<>>, st)

ArgLoop(s, i, name, acc, st) ==
    LET a == Arg(s, i, st)
    IN  IF ~a.ok THEN a
        ELSE LET j == SkipB(s, a.i)
                 c == At(s, j)
             IN  IF c = 44 THEN ArgLoop(s, SkipB(s, j + 1), name, Append(acc, a.v), st)
                 ELSE IF c = 41 THEN Ok(j + 1, [t |-> "call", f |-> name, args |-> Append(acc, a.v)])
                 ELSE Fail(j, "function-expr: ',' or ')' expected")

\* function-argument = literal / filter-query / logical-expr / function-expr
\* (the literal alternative is only tried where a literal can start, so that a
\*  failing nested argument is not parsed twice at every nesting level)
LitStart(s, i) ==
    LET c == At(s, i)
    IN  \/ c = 39 \/ c = 34 \/ IntStart(c)
        \/ (IsLc(c) /\ At(s, FnEnd(s, i)) # 40)
Arg(s, i, st) ==
    LET r   == ParseOr(s, i, st)
        rj  == At(s, SkipB(s, r.i))
        l   == Primary(s, i, FALSE, st)
        lj  == At(s, SkipB(s, l.i))
    IN  IF r.ok /\ (rj = 44 \/ rj = 41) THEN r
        ELSE IF LitStart(s, i) /\ l.ok /\ l.v.t = "lit" /\ (lj = 44 \/ lj = 41) THEN l
        ELSE IF ~r.ok THEN r
        ELSE Fail(SkipB(s, r.i), "function-expr: ',' or ')' expected")

\* jsonpath-query = root-identifier segments
Parse(s, st) ==
    IF At(s, 1) # 36 THEN Fail(1, "jsonpath-query: '$' expected")
    ELSE LET r == SegLoop(s, 2, <<>>, FALSE, st)
         IN  IF ~r.ok THEN r
             ELSE IF r.i # Len(s) + 1 THEN Fail(r.i, "jsonpath-query: segment or end expected")
             ELSE r

InGrammar(s)  == Parse(s, TRUE).ok
InLaxGrammar(s) == Parse(s, FALSE).ok
DontCareSyntax(s) == InLaxGrammar(s) /\ ~InGrammar(s)
=============================================================================
