------------------------------ MODULE LexerDefs ------------------------------
(***************************************************************************)
(* The state-function lexer of jsonpath_rfc9535 (lex.py) as a state        *)
(* machine shaped like the implementation: one step = one call of a state  *)
(* function by Lexer.run (the loops inside lex_inside_bracketed_segment    *)
(* and lex_inside_filter are part of one step).  Coverage beyond the       *)
(* listed properties: it models what the code does, including what it      *)
(* tolerates; C03/C04 are decided against Syntax.tla, not against this.    *)
(*                                                                         *)
(* Offsets are 0-based as in the code.  A lexer state L is                 *)
(*   [pos, start, fd (filter_depth), fs (func_call_stack),                 *)
(*    bs (bracket_stack: <<kind, index>>), toks, st]                       *)
(* with st = "ok" | "raised" (an exception escaped the state function).    *)
(* A token is [t, s, e]: type, start offset, end offset.                   *)
(*                                                                         *)
(* Bound to the code by an env-guarded hook in Lexer.run that reports      *)
(* (state function, next state function, pos, start, filter_depth, stacks, *)
(* number of tokens) after every step; TLC replays each recorded run       *)
(* through Step and compares every field (Trace!VLex).                     *)
(***************************************************************************)
EXTENDS Integers, Sequences, TLC

Ch(q, p) == IF p >= 0 /\ p < Len(q) THEN q[p + 1] ELSE -1        \* -1 plays the empty string at the end

IsWs(c)    == c = 32 \/ c = 10 \/ c = 13 \/ c = 9
IsDig(c)   == c >= 48 /\ c <= 57
IsPropFirst(c) == (c >= 128 /\ c <= 55295) \/ (c >= 57344 /\ c <= 1114111) \/ (c >= 97 /\ c <= 122) \/ (c >= 65 /\ c <= 90) \/ c = 95
IsPropRest(c)  == IsPropFirst(c) \/ IsDig(c)
IsFnFirst(c) == c >= 97 /\ c <= 122
IsFnRest(c)  == IsFnFirst(c) \/ c = 95 \/ IsDig(c)

RECURSIVE Run(_, _, _)
\* first offset >= p whose character does not satisfy the class named k
InClass(k, c) == CASE k = "ws" -> IsWs(c) [] k = "dig" -> IsDig(c) [] k = "prop" -> IsPropRest(c) [] k = "fn" -> IsFnRest(c)
Run(q, p, k) == IF Ch(q, p) # -1 /\ InClass(k, Ch(q, p)) THEN Run(q, p + 1, k) ELSE p

(* ---- the regular expressions, as "end offset of the match at p, or -1" ---- *)
ReWs(q, p)   == LET e == Run(q, p, "ws") IN IF e > p THEN e ELSE -1
ReProp(q, p) == IF Ch(q, p) # -1 /\ IsPropFirst(Ch(q, p)) THEN Run(q, p + 1, "prop") ELSE -1
\* -?[0-9]+
ReIndex(q, p) == LET d == IF Ch(q, p) = 45 THEN p + 1 ELSE p
                     e == Run(q, d, "dig")
                 IN  IF e > d THEN e ELSE -1
\* -?[0-9]+(?:[eE]\+?[0-9]+)?
ReInt(q, p) == LET m == ReIndex(q, p)
               IN  IF m = -1 THEN -1
                   ELSE IF Ch(q, m) = 101 \/ Ch(q, m) = 69 THEN
                       LET d == IF Ch(q, m + 1) = 43 THEN m + 2 ELSE m + 1
                           e == Run(q, d, "dig")
                       IN  IF e > d THEN e ELSE m
                   ELSE m
\* (:?-?[0-9]+\.[0-9]+(?:[eE][+-]?[0-9]+)?)|(-?[0-9]+[eE]-[0-9]+)      (the ":?" is in the code)
ReFloat(q, p) ==
    LET p1 == IF Ch(q, p) = 58 THEN p + 1 ELSE p
        m1 == ReIndex(q, p1)
        f1 == IF m1 # -1 /\ Ch(q, m1) = 46 THEN Run(q, m1 + 1, "dig") ELSE -1
        alt1 == IF m1 # -1 /\ f1 > m1 + 1 THEN
                    (IF Ch(q, f1) = 101 \/ Ch(q, f1) = 69 THEN
                        LET d == IF Ch(q, f1 + 1) = 43 \/ Ch(q, f1 + 1) = 45 THEN f1 + 2 ELSE f1 + 1
                            e == Run(q, d, "dig")
                        IN  IF e > d THEN e ELSE f1
                     ELSE f1)
                ELSE -1
        m2 == ReIndex(q, p)
        alt2 == IF m2 # -1 /\ (Ch(q, m2) = 101 \/ Ch(q, m2) = 69) /\ Ch(q, m2 + 1) = 45
                THEN LET e == Run(q, m2 + 2, "dig") IN IF e > m2 + 2 THEN e ELSE -1
                ELSE -1
    IN  IF alt1 # -1 THEN alt1 ELSE alt2
\* NOTE on backtracking: "[0-9]+\.[0-9]+" needs the greedy integer part to end right before the dot, and
\* -?[0-9]+ in alt2 must end right before [eE]: both hold for the greedy run, so no backtracking case differs.
ReFn(q, p) == IF Ch(q, p) # -1 /\ IsFnFirst(Ch(q, p)) THEN Run(q, p + 1, "fn") ELSE -1

StartsWith(q, p, w) == \A i \in 1..Len(w) : Ch(q, p + i - 1) = w[i]
\* RE_TRUE / RE_FALSE / RE_NULL: the keyword, not followed by a function-name character or '(' (negative look-ahead)
Keyword(q, p, w) == StartsWith(q, p, w) /\ LET c == Ch(q, p + Len(w)) IN ~(c # -1 /\ (IsFnRest(c) \/ c = 40))

(* ---- Lexer methods -------------------------------------------------------- *)
Emit(L, t)   == [L EXCEPT !.toks = Append(@, [t |-> t, s |-> L.start, e |-> L.pos]), !.start = L.pos]
Error(L)     == [L EXCEPT !.toks = Append(@, [t |-> "ERROR", s |-> L.start, e |-> L.pos])]
Ignore(L)    == [L EXCEPT !.start = L.pos]
Adv(L, n)    == [L EXCEPT !.pos = L.pos + n]
NextC(q, L)  == IF Ch(q, L.pos) = -1 THEN L ELSE Adv(L, 1)          \* next(): the character is Ch(q, L.pos)
Raised(L)    == [L EXCEPT !.st = "raised"]
\* backup(): raises when pos <= start
Backup(L)    == IF L.pos <= L.start THEN Raised(L) ELSE Adv(L, -1)
\* ignore_whitespace(): raises when pos # start; returns the lexer after skipping
SkipWs(q, L) == IF L.pos # L.start THEN Raised(L)
                ELSE LET e == ReWs(q, L.pos) IN IF e = -1 THEN L ELSE Ignore([L EXCEPT !.pos = e])

Ret(next, L) == [next |-> next, L |-> L]
NONE == "none"

(* ---- the state functions ---------------------------------------------------- *)
LexRoot(q, L) ==
    LET c  == Ch(q, L.pos)
        L1 == NextC(q, L)
    IN  IF c # 36 THEN Ret(NONE, Error(L1)) ELSE Ret("lex_segment", Emit(L1, "ROOT"))

LexSegment(q, L) ==
    LET L0 == SkipWs(q, L)
    IN  IF L0.st = "raised" THEN Ret(NONE, L0)
        ELSE IF L0.pos # L.pos /\ Ch(q, L0.pos) = -1 THEN Ret(NONE, Error(L0))     \* trailing whitespace
        ELSE LET c  == Ch(q, L0.pos)
                 L1 == NextC(q, L0)
             IN  IF c = -1 THEN Ret(NONE, Emit(L1, "EOF"))
                 ELSE IF c = 46 THEN
                     IF Ch(q, L1.pos) = 46 THEN Ret("lex_descendant_segment", Emit(NextC(q, L1), "DOUBLE_DOT"))
                     ELSE Ret("lex_shorthand_selector", L1)
                 ELSE IF c = 91 THEN
                     LET L2 == Emit(L1, "LBRACKET")
                     IN  Ret("lex_inside_bracketed_segment", [L2 EXCEPT !.bs = Append(@, <<91, L1.pos - 1>>)])
                 ELSE IF L1.fd # 0 THEN
                     LET L2 == Backup(L1) IN IF L2.st = "raised" THEN Ret(NONE, L2) ELSE Ret("lex_inside_filter", L2)
                 ELSE Ret(NONE, Error(L1))

LexDescendant(q, L) ==
    LET c  == Ch(q, L.pos)
        L1 == NextC(q, L)
    IN  IF c = -1 THEN Ret(NONE, Error(L1))
        ELSE IF c = 42 THEN Ret("lex_segment", Emit(L1, "WILD"))
        ELSE IF c = 91 THEN
            LET L2 == Emit(L1, "LBRACKET")
            IN  Ret("lex_inside_bracketed_segment", [L2 EXCEPT !.bs = Append(@, <<91, L1.pos - 1>>)])
        ELSE LET L2 == Backup(L1)
             IN  IF L2.st = "raised" THEN Ret(NONE, L2)
                 ELSE LET e == ReProp(q, L2.pos)
                      IN  IF e # -1 THEN Ret("lex_segment", Emit([L2 EXCEPT !.pos = e], "PROPERTY"))
                          ELSE Ret(NONE, Error(NextC(q, L2)))

LexShorthand(q, L) ==
    LET L0 == Ignore(L)
        w  == ReWs(q, L0.pos)
    IN  IF w # -1 THEN Ret(NONE, Error([L0 EXCEPT !.pos = w]))
        ELSE LET c  == Ch(q, L0.pos)
                 L1 == NextC(q, L0)
             IN  IF c = 42 THEN Ret("lex_segment", Emit(L1, "WILD"))
                 ELSE LET L2 == Backup(L1)
                      IN  IF L2.st = "raised" THEN Ret(NONE, L2)
                          ELSE LET e == ReProp(q, L2.pos)
                               IN  IF e # -1 THEN Ret("lex_segment", Emit([L2 EXCEPT !.pos = e], "PROPERTY"))
                                   ELSE Ret(NONE, Error(L2))

RECURSIVE LexBracketed(_, _)
LexBracketed(q, L) ==
    LET L0 == SkipWs(q, L)
    IN  IF L0.st = "raised" THEN Ret(NONE, L0)
        ELSE LET c  == Ch(q, L0.pos)
                 L1 == NextC(q, L0)
             IN  IF c = 93 THEN
                     IF L1.bs = <<>> \/ L1.bs[Len(L1.bs)][1] # 91 THEN
                         LET L2 == Backup(L1) IN IF L2.st = "raised" THEN Ret(NONE, L2) ELSE Ret(NONE, Error(L2))
                     ELSE Ret("lex_segment", Emit([L1 EXCEPT !.bs = SubSeq(@, 1, Len(@) - 1)], "RBRACKET"))
                 ELSE IF c = -1 THEN Ret(NONE, Error(L1))
                 ELSE IF c = 42 THEN LexBracketed(q, Emit(L1, "WILD"))
                 ELSE IF c = 63 THEN Ret("lex_inside_filter", [Emit(L1, "FILTER") EXCEPT !.fd = @ + 1])
                 ELSE IF c = 44 THEN LexBracketed(q, Emit(L1, "COMMA"))
                 ELSE IF c = 58 THEN LexBracketed(q, Emit(L1, "COLON"))
                 ELSE IF c = 39 THEN Ret("lex_single_quoted_string_inside_bracket_segment", L1)
                 ELSE IF c = 34 THEN Ret("lex_double_quoted_string_inside_bracket_segment", L1)
                 ELSE LET L2 == Backup(L1)
                      IN  IF L2.st = "raised" THEN Ret(NONE, L2)
                          ELSE LET e == ReIndex(q, L2.pos)
                               IN  IF e # -1 THEN LexBracketed(q, Emit([L2 EXCEPT !.pos = e], "INDEX"))
                                   ELSE Ret(NONE, Error(L2))

RECURSIVE LexFilter(_, _)
LexFilter(q, L) ==
    LET L0 == SkipWs(q, L)
    IN  IF L0.st = "raised" THEN Ret(NONE, L0)
        ELSE
        LET c  == Ch(q, L0.pos)
            L1 == NextC(q, L0)
            pk == Ch(q, L1.pos)
            inCall == L1.fs # <<>> /\ L1.bs # <<>> /\ L1.bs[Len(L1.bs)][1] = 40
        IN  IF c = -1 THEN Ret(NONE, Error(L1))
            ELSE IF c = 93 THEN
                LET L2 == Backup([L1 EXCEPT !.fd = @ - 1]) IN IF L2.st = "raised" THEN Ret(NONE, L2) ELSE Ret("lex_inside_bracketed_segment", L2)
            ELSE IF c = 44 THEN
                LET L2 == Emit(L1, "COMMA")
                IN  IF inCall THEN LexFilter(q, L2) ELSE Ret("lex_inside_bracketed_segment", [L2 EXCEPT !.fd = @ - 1])
            ELSE IF c = 39 THEN Ret("lex_single_quoted_string_inside_filter_expression", L1)
            ELSE IF c = 34 THEN Ret("lex_double_quoted_string_inside_filter_expression", L1)
            ELSE IF c = 40 THEN
                LET L2 == [Emit(L1, "LPAREN") EXCEPT !.bs = Append(@, <<40, L1.pos - 1>>)]
                IN  LexFilter(q, IF L2.fs # <<>> THEN [L2 EXCEPT !.fs[Len(L2.fs)] = @ + 1] ELSE L2)
            ELSE IF c = 41 THEN
                IF L1.bs = <<>> \/ L1.bs[Len(L1.bs)][1] # 40 THEN
                    LET L2 == Backup(L1) IN IF L2.st = "raised" THEN Ret(NONE, L2) ELSE Ret(NONE, Error(L2))
                ELSE LET L2 == Emit([L1 EXCEPT !.bs = SubSeq(@, 1, Len(@) - 1)], "RPAREN")
                     IN  LexFilter(q, IF L2.fs = <<>> THEN L2
                                      ELSE IF L2.fs[Len(L2.fs)] = 1 THEN [L2 EXCEPT !.fs = SubSeq(@, 1, Len(@) - 1)]
                                      ELSE [L2 EXCEPT !.fs[Len(L2.fs)] = @ - 1])
            ELSE IF c = 36 THEN Ret("lex_segment", Emit(L1, "ROOT"))
            ELSE IF c = 64 THEN Ret("lex_segment", Emit(L1, "CURRENT"))
            ELSE IF c = 46 THEN
                LET L2 == Backup(L1) IN IF L2.st = "raised" THEN Ret(NONE, L2) ELSE Ret("lex_segment", L2)
            ELSE IF c = 33 THEN
                IF pk = 61 THEN LexFilter(q, Emit(NextC(q, L1), "NE")) ELSE LexFilter(q, Emit(L1, "NOT"))
            ELSE IF c = 61 THEN
                IF pk = 61 THEN LexFilter(q, Emit(NextC(q, L1), "EQ"))
                ELSE LET L2 == Backup(L1) IN IF L2.st = "raised" THEN Ret(NONE, L2) ELSE Ret(NONE, Error(L2))
            ELSE IF c = 60 THEN
                IF pk = 61 THEN LexFilter(q, Emit(NextC(q, L1), "LE")) ELSE LexFilter(q, Emit(L1, "LT"))
            ELSE IF c = 62 THEN
                IF pk = 61 THEN LexFilter(q, Emit(NextC(q, L1), "GE")) ELSE LexFilter(q, Emit(L1, "GT"))
            ELSE
                LET L2 == Backup(L1)
                IN  IF L2.st = "raised" THEN Ret(NONE, L2)
                    ELSE LET p  == L2.pos
                             fl == ReFloat(q, p)
                             it == ReInt(q, p)
                             fn == ReFn(q, p)
                         IN  IF StartsWith(q, p, <<38, 38>>) THEN LexFilter(q, Emit(Adv(L2, 2), "AND"))
                             ELSE IF StartsWith(q, p, <<124, 124>>) THEN LexFilter(q, Emit(Adv(L2, 2), "OR"))
                             ELSE IF Keyword(q, p, <<116, 114, 117, 101>>) THEN LexFilter(q, Emit(Adv(L2, 4), "TRUE"))
                             ELSE IF Keyword(q, p, <<102, 97, 108, 115, 101>>) THEN LexFilter(q, Emit(Adv(L2, 5), "FALSE"))
                             ELSE IF Keyword(q, p, <<110, 117, 108, 108>>) THEN LexFilter(q, Emit(Adv(L2, 4), "NULL"))
                             ELSE IF fl # -1 THEN LexFilter(q, Emit([L2 EXCEPT !.pos = fl], "FLOAT"))
                             ELSE IF it # -1 THEN LexFilter(q, Emit([L2 EXCEPT !.pos = it], "INT"))
                             ELSE IF fn # -1 /\ Ch(q, fn) = 40 THEN
                                 LET L3 == Emit([L2 EXCEPT !.pos = fn, !.fs = Append(@, 1)], "FUNCTION")
                                     L4 == [L3 EXCEPT !.bs = Append(@, <<40, L3.pos>>)]
                                 IN  LexFilter(q, Ignore(NextC(q, L4)))
                             ELSE IF fn # -1 THEN Ret(NONE, Error([L2 EXCEPT !.pos = fn]))    \* accept_match already moved pos
                             ELSE Ret(NONE, Error(L2))

IsEscapeChar(c) == c \in {98, 102, 110, 114, 116, 117, 47, 92}
RECURSIVE StrLoop(_, _, _, _, _)
StrLoop(q, L, quote, tt, back) ==
    LET c  == Ch(q, L.pos)
        L1 == NextC(q, L)
        pk == Ch(q, L1.pos)
    IN  IF c = 92 THEN
            IF pk # -1 /\ (IsEscapeChar(pk) \/ pk = quote) THEN StrLoop(q, NextC(q, L1), quote, tt, back)
            ELSE Ret(NONE, Error(L1))
        ELSE IF c = -1 THEN Ret(NONE, Error(L1))
        ELSE IF c = quote THEN
            LET L2 == Emit(Adv(L1, -1), tt)          \* backup() cannot fail here: pos > start
            IN  Ret(back, Ignore(NextC(q, L2)))
        ELSE StrLoop(q, L1, quote, tt, back)
LexString(q, L, quote, tt, back) ==
    LET L0 == Ignore(L)
    IN  IF Ch(q, L0.pos) = -1 THEN Ret(back, Ignore(NextC(q, Emit(L0, tt))))
        ELSE StrLoop(q, L0, quote, tt, back)

StateNames == {"lex_root", "lex_segment", "lex_descendant_segment", "lex_shorthand_selector", "lex_inside_bracketed_segment",
               "lex_inside_filter", "lex_single_quoted_string_inside_bracket_segment",
               "lex_double_quoted_string_inside_bracket_segment", "lex_single_quoted_string_inside_filter_expression",
               "lex_double_quoted_string_inside_filter_expression"}

\* one call of a state function by Lexer.run
Step(q, name, L) ==
    CASE name = "lex_root" -> LexRoot(q, L)
      [] name = "lex_segment" -> LexSegment(q, L)
      [] name = "lex_descendant_segment" -> LexDescendant(q, L)
      [] name = "lex_shorthand_selector" -> LexShorthand(q, L)
      [] name = "lex_inside_bracketed_segment" -> LexBracketed(q, L)
      [] name = "lex_inside_filter" -> LexFilter(q, L)
      [] name = "lex_single_quoted_string_inside_bracket_segment" -> LexString(q, L, 39, "SINGLE_QUOTE_STRING", "lex_inside_bracketed_segment")
      [] name = "lex_double_quoted_string_inside_bracket_segment" -> LexString(q, L, 34, "DOUBLE_QUOTE_STRING", "lex_inside_bracketed_segment")
      [] name = "lex_single_quoted_string_inside_filter_expression" -> LexString(q, L, 39, "SINGLE_QUOTE_STRING", "lex_inside_filter")
      [] name = "lex_double_quoted_string_inside_filter_expression" -> LexString(q, L, 34, "DOUBLE_QUOTE_STRING", "lex_inside_filter")

L0 == [pos |-> 0, start |-> 0, fd |-> 0, fs |-> <<>>, bs |-> <<>>, toks |-> <<>>, st |-> "ok"]
=============================================================================
