------------------------------ MODULE MC_Slice ------------------------------
EXTENDS Slice, Json
CONSTANTS CompMax
BIG == 1073741823            \* 2^30 - 1, stands for 2^53 - 1 (clamping lemma T4c)
MCComps == {<<>>} \cup {<<x>> : x \in (-CompMax)..CompMax} \cup {<<-BIG>>, <<BIG>>}
ASSUME T4c == Clamping(BIG)
\* GEN: every Done state is one implementation test (exported as one JSON line)
Export == pc = "Done" =>
    PrintT("GEN " \o ToJson([len |-> len, s |-> s, e |-> e, st |-> st, out |-> out]))
=============================================================================
