-------------------------------- MODULE Deriv --------------------------------
(***************************************************************************)
(* The derivation machine of the RFC 9535 grammar (ABNF.tla): a state is a *)
(* sentential form; a step replaces the LEFT-MOST non-terminal expression  *)
(* by one of its expansions (an alternative of an alt, a repetition count  *)
(* of a rep, a representative of a range, the body of a rule).  Terminal   *)
(* forms are exactly the sentences of the grammar - the literal meaning of *)
(* C03's quantifier "ranges over derivations of the grammar".              *)
(*                                                                         *)
(* T3 (checked by TLC on every terminal form reached): every derived       *)
(* sentence is accepted by Syntax!Parse in strict mode.  Each terminal     *)
(* form is also exported and compiled by the implementation (GEN).         *)
(***************************************************************************)
EXTENDS Syntax, Json

G == INSTANCE ABNF

CONSTANTS MaxLen,       \* bound on the length of sentences
          MaxRep        \* how many extra repetitions of an unbounded / wide repetition are tried

VARIABLES form, steps
dvars == <<form, steps>>

Tm(c)  == [t |-> "tm", c |-> c]          \* a terminal symbol (a code point) inside a sentential form
IsT(x) == x.t = "tm"

\* representatives of a range: its ends and, for wide ranges, two interior points
Reps(e) == {e.lo, e.hi} \cup (IF e.hi - e.lo > 2 THEN {e.lo + 1, e.lo + (e.hi - e.lo) \div 2} ELSE {})

RECURSIVE MinLenE(_, _)
\* minimal number of terminals an expression can yield (fuel guards the recursion through rules)
MinLenE(e, fuel) ==
    IF fuel = 0 THEN 0
    ELSE CASE e.t = "rng" -> 1
           [] e.t = "cat" -> LET ls == [k \in 1..Len(e.xs) |-> MinLenE(e.xs[k], fuel - 1)]
                             IN  IF Len(ls) = 0 THEN 0 ELSE LET F[i \in 0..Len(ls)] == IF i = 0 THEN 0 ELSE F[i - 1] + ls[i] IN F[Len(ls)]
           [] e.t = "alt" -> LET S == {MinLenE(e.xs[k], fuel - 1) : k \in 1..Len(e.xs)} IN CHOOSE x \in S : \A y \in S : x <= y
           [] e.t = "rep" -> e.lo * MinLenE(e.x, fuel - 1)
           [] e.t = "nt"  -> MinLenE(G!Rules9535[e.n], fuel - 1)
MinLenForm(f) == LET F[i \in 0..Len(f)] == IF i = 0 THEN 0 ELSE F[i - 1] + (IF IsT(f[i]) THEN 1 ELSE MinLenE(f[i], 6)) IN F[Len(f)]

FirstNT(f) == IF \E i \in 1..Len(f) : ~IsT(f[i]) THEN CHOOSE i \in 1..Len(f) : ~IsT(f[i]) /\ \A j \in 1..(i - 1) : IsT(f[j]) ELSE 0

Expansions(e) ==
    CASE e.t = "rng" -> {<<Tm(c)>> : c \in Reps(e)}
      [] e.t = "cat" -> {e.xs}
      [] e.t = "alt" -> {<<e.xs[k]>> : k \in 1..Len(e.xs)}
      [] e.t = "nt"  -> {<<G!Rules9535[e.n]>>}
      [] e.t = "rep" -> LET hi == IF e.hi = -1 \/ e.hi > e.lo + MaxRep THEN e.lo + MaxRep ELSE e.hi
                        IN  {[k \in 1..n |-> e.x] : n \in e.lo..hi}

DInit == form = <<G!Rules9535["jsonpath_query"]>> /\ steps = 0
DNext == LET i == FirstNT(form)
         IN  /\ i # 0
             /\ \E x \in Expansions(form[i]) :
                    LET f2 == SubSeq(form, 1, i - 1) \o x \o SubSeq(form, i + 1, Len(form))
                    IN  /\ MinLenForm(f2) <= MaxLen
                        /\ form' = f2
             /\ steps' = steps + 1
DSpec == DInit /\ [][DNext]_dvars

Terminal == FirstNT(form) = 0
Sentence == [k \in 1..Len(form) |-> form[k].c]
T3 == Terminal => Parse(Sentence, TRUE).ok
\* a view that ignores the step counter: the same sentential form is reached along many derivations
DView == form
Export == ~Terminal \/ PrintT("GEN " \o ToJson(Sentence))
=============================================================================
