-------------------- MODULE MC_DescentThmQ --------------------
EXTENDS MC_Descent
(* constant-level theorems of Descent.tla, quick subset *)
ASSUME T8aF(0)
ASSUME CountsF(0)
ASSUME T8eF(0)
MCGraphs == {GraphOf(Z)}
======================================================================
