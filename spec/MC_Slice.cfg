SPECIFICATION Spec
CONSTANTS
  MaxLen = 6
  CompMax = 8
  Comps <- MCComps
INVARIANT T4b_Closed
INVARIANT T4b_InRange
INVARIANT T4b_Monotone
INVARIANT T4b_StepZero
PROPERTY Termination
PROPERTY T4a_Measure
CHECK_DEADLOCK FALSE
