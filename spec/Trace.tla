-------------------------------- MODULE Trace --------------------------------
(***************************************************************************)
(* Trace validation (code -> spec).  The harness executes the real         *)
(* implementation and writes one JSON record per observed public call      *)
(* (at its return, error path included) to IOEnv.TRACE_FILE; this module   *)
(* replays the file: one TLC step per record, each step evaluating         *)
(* Verdict(record) against the specification.  A rejected record prints    *)
(*     "REJ {id, clause, detail}"   (one JSON object, one line)            *)
(* and the run continues, so every record gets a verdict.                  *)
(***************************************************************************)
EXTENDS Canon, ErrorPos, DescentDefs, IOUtils

Tr == ndJsonDeserialize(IOEnv.TRACE_FILE)

VARIABLE l

Has(r, f) == f \in DOMAIN r

RegOf(r) == IF Has(r, "reg") THEN Builtins \o r.reg ELSE Builtins
LoOf(r)  == IF Has(r, "lo") THEN r.lo ELSE IJsonLo
HiOf(r)  == IF Has(r, "hi") THEN r.hi ELSE IJsonHi

Rej(clause, detail) == [ok |-> FALSE, clause |-> clause, detail |-> detail]
Acc == [ok |-> TRUE]

(* ---- compile(): C03 / C04 / C05 / C13 ----------------------------------- *)
\* r.out \in {"ok", "raise"}; r.jp: the exception derives from JSONPathError
VCompile(r) ==
    LET cv == CompileVerdict(r.q, RegOf(r), LoOf(r), HiOf(r))
    IN  IF Has(r, "strok") /\ ~r.strok THEN Rej("C13 the string form of the error can not be produced", <<r.cls>>)
        ELSE IF Has(r, "timeout") /\ r.timeout THEN Rej("C13 compile did not terminate within the time limit", <<>>)
        ELSE IF Has(r, "ncalls") /\ r.ncalls # 0 THEN Rej("C05 a function body ran during compile()", <<r.ncalls>>)
        ELSE IF r.out = "raise" /\ ~r.jp THEN Rej("C13 compile raised a non-JSONPathError", <<r.cls>>)
        ELSE IF cv.v = "accept" /\ r.out # "ok" THEN Rej("C03 valid query rejected", <<r.cls>>)
        ELSE IF cv.v = "reject" /\ r.out = "ok" THEN
            IF cv.why = "syntax" THEN Rej("C04 string outside the grammar accepted", <<cv.msg, cv.at>>)
            ELSE Rej("C05 invalid query accepted", <<cv.why>>)
        ELSE Acc

(* ---- find(): C01 / C02 / C06 / C07 / C10 / C11 --------------------------- *)
\* r.out \in {"ok", "raise"}; r.locs: locations of the returned nodes
VFind(r) ==
    LET reg == RegOf(r)
        cv  == CompileVerdict(r.q, reg, LoOf(r), HiOf(r))
    IN  IF cv.v # "accept" THEN                           \* acceptance is judged by VCompile; whatever compiled must still be total
            IF r.out # "ok" /\ r.stage = "find" /\ ~r.jp THEN Rej("C13 find raised a non-JSONPathError", <<r.cls>>) ELSE Acc
        ELSE LET segs == Parse(r.q, FALSE).v
             IN  IF DcSegs(segs, r.doc, reg) THEN
                     \* the RESULT is a declared don't-care, raising is not: match()/search() never raise
                     IF r.out # "ok" /\ r.stage = "find" THEN Rej("C13 find raised on a don't-care pattern", <<r.cls>>) ELSE Acc
                 ELSE IF r.out # "ok" /\ r.stage = "compile" THEN
                     IF r.jp THEN Rej("C03 valid query rejected", <<r.cls>>)
                     ELSE Rej("C13 compile raised a non-JSONPathError", <<r.cls>>)
                 ELSE IF r.out # "ok" /\ ~r.jp THEN Rej("C13 find raised a non-JSONPathError", <<r.cls>>)
                 ELSE IF r.out # "ok" THEN Rej("find raised on a valid query", <<r.cls>>)
                 ELSE LET nl   == Find(segs, r.doc, reg)
                          locs == [k \in 1..Len(nl) |-> nl[k].loc]
                      IN  IF locs # r.locs THEN Rej("nodelist differs", <<ToJson(locs)>>)
                          ELSE IF Has(r, "vok") /\ ~r.vok THEN Rej("node value is not the value at its location", <<>>)
                          ELSE IF Has(r, "one_ok") /\ ~r.one_ok THEN Rej("C15 find_one() is not the first node of find()", <<>>)
                          ELSE IF Has(r, "iter_ok") /\ ~r.iter_ok THEN Rej("C15 list(finditer()) differs from find()", <<>>)
                          ELSE IF Has(r, "paths") /\ r.paths # [k \in 1..Len(nl) |-> NormalizedPath(nl[k].loc)]
                              THEN Rej("normalized path differs", <<>>)
                          ELSE Acc

(* ---- probe functions: what every call receives (C10) --------------------- *)
RECURSIVE FirstCall(_, _)
\* the first call of function f inside expression e (depth-first): <<>> or <<node>>
FirstCallIn(es, f) ==
    LET hits == SelectSeq([k \in 1..Len(es) |-> FirstCall(es[k], f)], LAMBDA h : h # <<>>)
    IN  IF hits = <<>> THEN <<>> ELSE hits[1]
FirstCall(e, f) ==
    CASE e.t \in {"or", "and", "cmp"} -> FirstCallIn(<<e.l, e.r>>, f)
      [] e.t \in {"not", "paren"}     -> FirstCall(e.e, f)
      [] e.t = "call" -> IF e.f = f THEN <<e>> ELSE FirstCallIn(e.args, f)
      [] OTHER -> <<>>

ProjArg(a) ==
    CASE a.k = "value"   -> IF a.v = Nothing THEN [as |-> "nothing"] ELSE [as |-> "value", v |-> a.v]
      [] a.k = "logical" -> [as |-> "logical", b |-> a.b]
      [] a.k = "nodes"   -> [as |-> "nodes", vs |-> [k \in 1..Len(a.nl) |-> a.nl[k].v]]
      [] OTHER -> [as |-> "other"]

\* r.q is '$[?EXPR]' with an unconditional call of r.fname; r.calls: the argument
\* lists the probe logged, one per call
VProbe(r) ==
    LET reg == RegOf(r)
        cv  == CompileVerdict(r.q, reg, LoOf(r), HiOf(r))
    IN  IF cv.v # "accept" THEN Acc
        ELSE LET segs == Parse(r.q, FALSE).v
                 e    == segs[1].sels[1].e
                 call == FirstCall(e, r.fname)[1]
                 sig  == Sig(reg, r.fname)[1]
                 kids == Children(RootNode(r.doc))
                 want == {[k \in 1..Len(call.args) |->
                              ProjArg(ArgFor(call.args[k], sig.params[k], kids[c], r.doc, reg))] :
                          c \in 1..Len(kids)}
                 got  == {r.calls[k] : k \in 1..Len(r.calls)}
             IN  IF r.out # "ok" /\ r.stage = "compile" THEN
                     IF r.jp THEN Rej("C03 valid query rejected", <<r.cls>>)
                     ELSE Rej("C13 compile raised a non-JSONPathError", <<r.cls>>)
                 ELSE IF r.out # "ok" THEN Rej("find raised on a valid query", <<r.cls>>)
                 ELSE IF got # want THEN Rej("function received other arguments than RFC 9535 2.4 prescribes",
                                            <<ToJson(want \ got), ToJson(got \ want)>>)
                 ELSE Acc

(* ---- error positions (C19) ------------------------------------------------ *)
\* r.index: err.token.index; r.line, r.col: as printed in str(err)
VErrPos(r) ==
    IF r.index < 0 \/ r.index > Len(r.q) THEN Rej("C19 error offset outside the query text", <<r.index>>)
    ELSE LET p == Position(r.q, r.index)
         IN  IF <<r.line, r.col>> # p THEN Rej("C19 printed line/column is not the position of the offset", <<p[1], p[2]>>)
             ELSE Acc

(* ---- str(query) round trip (C12) ------------------------------------------- *)
\* r.s = str(compile(r.q)); r.recompiles; r.s2 = str(compile(r.s)); r.docs: witness pool
VStr(r) ==
    LET reg == RegOf(r)
        cv  == CompileVerdict(r.q, reg, LoOf(r), HiOf(r))
    IN  IF cv.v = "reject" THEN Acc
        ELSE IF cv.v = "either" THEN
            \* (a literal outside the range where the model is exact, blank space the ABNF is silent about): the
            \* specification cannot compute the query's meaning, but the round trip is still observable
            IF ~r.recompiles THEN Rej("C12 str() text does not compile", <<>>)
            ELSE IF r.s2 # r.s THEN Rej("C12 serialising again gives a different text", <<>>)
            ELSE IF Has(r, "same") /\ ~r.same THEN Rej("C12 the compiled serialisation behaves differently from the compiled original", <<>>)
            ELSE Acc
        ELSE LET a1 == Parse(r.q, FALSE).v
                 cs == CompileVerdict(r.s, reg, LoOf(r), HiOf(r))
             IN  IF cs.v = "reject" THEN Rej("C12 str() text is not a valid query", <<cs.why, cs.msg, cs.at>>)
                 ELSE IF cs.v = "either" THEN Acc
                 ELSE IF ~r.recompiles THEN Rej("C12 str() text does not compile", <<>>)
                 ELSE IF r.s2 # r.s THEN Rej("C12 serialising again gives a different text", <<>>)
                 ELSE IF ~StringsCanonical(r.s) THEN Rej("C12 a string literal is not in canonical form", <<>>)
                 ELSE IF Has(r, "same") /\ ~r.same THEN Rej("C12 the compiled serialisation behaves differently from the compiled original", <<>>)
                 ELSE LET a2 == Parse(r.s, FALSE).v
                      IN  IF NF(a1) = NF(a2) THEN Acc
                          ELSE IF \E k \in 1..Len(r.docs) :
                                     /\ ~DcSegs(a1, r.docs[k], reg)
                                     /\ Find(a1, r.docs[k], reg) # Find(a2, r.docs[k], reg)
                               THEN Rej("C12 str() text selects different nodes", <<>>)
                          ELSE Acc

(* ---- totality of evaluation on arbitrary compiled queries (C13) ------------- *)
VTotal(r) ==
    IF Has(r, "timeout") /\ r.timeout THEN Rej("C13 evaluation did not terminate within the time limit", <<>>)
    ELSE IF r.out = "raise" /\ ~r.jp THEN Rej("C13 find raised a non-JSONPathError", <<r.cls>>)
    ELSE IF Has(r, "strok") /\ ~r.strok THEN Rej("C13 the string form of the error can not be produced", <<r.cls>>)
    ELSE Acc

(* ---- locations, normalized paths, re-query (C08) ---------------------------- *)
\* r.loc: node.location; r.path: node.path(); r.rout/r.rlocs: find(path, doc);
\* r.vok: following r.loc from the root reaches the very object in node.value;
\* r.lists: values()/paths()/items() of the nodelist agree with its nodes
VRequery(r) ==
    IF ~r.vok THEN Rej("C08 node value is not the object at its location", <<>>)
    ELSE IF Locate(r.doc, r.loc) = <<>> THEN Rej("C08 location does not exist in the document", <<>>)
    ELSE IF r.path # NormalizedPath(r.loc) THEN Rej("C08 path() is not the normalized path of the location", <<>>)
    ELSE IF r.rout # "ok" THEN Rej("C08 the normalized path does not compile or evaluate", <<r.cls>>)
    ELSE IF r.rlocs # <<r.loc>> THEN Rej("C08 re-querying the normalized path does not return exactly that node", <<>>)
    ELSE IF ~r.lists THEN Rej("C08 values()/paths()/items() disagree with the nodes", <<>>)
    ELSE Acc

\* how the normalized path spells one code point of a member name
PathForm(cp) ==
    LET t == NormChar(cp)
    IN  IF t = <<cp>> THEN "raw"
        ELSE IF Len(t) = 2 THEN "esc"
        ELSE "u00xx"
\* r.lo..r.hi: a range of code points on which the implementation behaved uniformly:
\* r.form: how path() spelled the character (raw / esc / u00xx, harness-classified
\* against the exact text), r.exact: the spelled text is the one NormChar gives,
\* r.requery: the path re-queried to exactly that node
VCpRange(r) ==
    IF \E cp \in r.lo..r.hi : PathForm(cp) # r.form
    THEN Rej("C08 normalized path spells a member-name character in the wrong form", <<r.lo, r.hi, r.form>>)
    ELSE IF ~r.exact THEN Rej("C08 normalized path text differs from the canonical spelling", <<r.lo, r.hi>>)
    ELSE IF ~r.requery THEN Rej("C08 re-querying the normalized path fails for a member-name character", <<r.lo, r.hi>>)
    ELSE Acc

(* ---- a number literal against the document number written with the same text (C06) -------- *)
\* Beyond 15 significant digits / 10^15 the value model abstains (NumBig): an implementation may read literals through binary64.
\* One thing is pinned all the same, under the exact and under the binary64 reading alike: a literal and the number a JSON
\* decoder makes of the SAME text denote the same number.  r.t: the text (must be a number literal of the grammar), r.cmp: the
\* comparison operator between '@' and the literal, r.sel: whether the document number was selected.
VSameText(r) ==
    LET p == ParseNumber(r.t, 1)
    IN  IF ~(p.ok /\ p.i = Len(r.t) + 1) THEN Rej("sametext: the text is not a number literal of the grammar", <<>>)
        ELSE IF r.out # "ok" THEN Rej("C06 comparing a number literal with the document number of the same text raised", <<r.cls>>)
        ELSE IF r.sel # (r.cmp \in {"==", "<=", ">="})
        THEN Rej("C06 a number literal and the document number written with the same text do not compare as equal", <<r.cmp>>)
        ELSE Acc

(* ---- member-name shorthand over code-point ranges (C03 / C04) ------------------ *)
\* r.lo..r.hi: a range of code points >= 128 on which compile() behaved uniformly when the code point stood as the FIRST and
\* as a LATER character of a member-name shorthand ($.c  $.cb  $.ac  $..c  $[?@.c == 1]  $.a.c1): r.acc = "all" (every form
\* compiled), "none" or "mixed"; r.sel: where it compiled, $.c selected the member of that name; r.jp: every error raised was
\* a JSONPathError.  Beyond ASCII the grammar's name-first and name-char coincide.
VShRange(r) ==
    IF r.lo < 128 THEN Rej("shrange below 128", <<r.lo>>)
    ELSE IF ~r.jp THEN Rej("C13 compile raised a non-JSONPathError", <<r.lo, r.hi>>)
    ELSE IF \E cp \in r.lo..r.hi : IsNameFirst(cp) /\ r.acc # "all"
    THEN Rej("C03 valid query rejected", <<r.lo, r.hi, r.acc>>)
    ELSE IF \E cp \in r.lo..r.hi : ~IsNameFirst(cp) /\ r.acc # "none"
    THEN Rej("C04 a text outside the grammar compiled", <<"name", r.lo, r.hi, r.acc>>)
    ELSE IF r.acc = "all" /\ ~r.sel THEN Rej("C01 shorthand name selects another member", <<r.lo, r.hi>>)
    ELSE Acc

(* ---- string literal decoding (C09) ------------------------------------------- *)
\* r.text: a candidate string literal (with its quotes); r.res: "rejected" or "decoded",
\* r.val: the decoded code points, as observed through name selection and comparison
VLit(r) ==
    LET d  == IF r.text # <<>> /\ (r.text[1] = 39 \/ r.text[1] = 34) THEN StringLit(r.text, 1) ELSE Fail(1, "no quote")
        ok == d.ok /\ d.i = Len(r.text) + 1
    IN  IF Has(r, "nonjp") /\ r.nonjp THEN Rej("C13 compile raised a non-JSONPathError", <<r.cls>>)
        ELSE IF ok /\ r.res # "decoded" THEN Rej("C09 valid string literal rejected", <<r.cls>>)
        ELSE IF ~ok /\ r.res = "decoded" THEN Rej("C09 invalid string literal accepted", <<d.why>>)
        ELSE IF ok /\ r.val # d.v THEN Rej("C09 string literal decoded to other code points", <<ToJson(d.v)>>)
        ELSE Acc

HexDigit(d, upper) == IF d < 10 THEN 48 + d ELSE IF upper THEN 55 + d ELSE 87 + d
U4(v, upper) == <<92, 117, HexDigit(v \div 4096, upper), HexDigit((v \div 256) % 16, upper),
                  HexDigit((v \div 16) % 16, upper), HexDigit(v % 16, upper)>>
\* the literal spelling code point cp in the given form
FormText(form, cp, q) ==
    CASE form = "raw"  -> <<q, cp, q>>
      [] form = "u4l"  -> <<q>> \o U4(cp, FALSE) \o <<q>>
      [] form = "u4u"  -> <<q>> \o U4(cp, TRUE) \o <<q>>
      [] form = "pair" -> <<q>> \o U4(55296 + ((cp - 65536) \div 1024), TRUE)
                               \o U4(56320 + ((cp - 65536) % 1024), FALSE) \o <<q>>
\* r.lo..r.hi: code points on which the implementation behaved uniformly for r.form / r.quote:
\* r.res = "self" (decoded to exactly that code point) or "rejected"
VLitRange(r) ==
    LET bad == {cp \in r.lo..r.hi :
                   LET t == FormText(r.form, cp, r.quote)
                       d == StringLit(t, 1)
                       self == d.ok /\ d.i = Len(t) + 1 /\ d.v = <<cp>>
                   IN  (IF self THEN "self" ELSE "rejected") # r.res}
    IN  IF bad # {} THEN Rej("C09 code point range decoded wrongly", <<r.form, r.quote, r.res, CHOOSE x \in bad : TRUE>>)
        ELSE Acc

(* ---- all entry points agree (C15) ---------------------------------------------- *)
\* r.results: one entry per public call path: [path, kind: "list"|"first", out, cls, jp, locs, none]
VEntry(r) ==
    LET reg == RegOf(r)
        cv  == CompileVerdict(r.q, reg, LoOf(r), HiOf(r))
        res == r.results
        N   == Len(res)
        \* find_one is lazy: on an evaluation-time error it may already have its first item,
        \* so agreement is demanded within the list-valued paths and within the find_one paths
        sameOutcome == \A j, k \in 1..N :
                           /\ (res[j].kind = res[k].kind \/ cv.v = "reject") => (res[j].out = res[k].out /\ res[j].cls = res[k].cls)
                           /\ res[j].kind = res[k].kind => res[j].locs = res[k].locs
    IN  IF ~sameOutcome THEN Rej("C15 entry points disagree on the outcome", <<ToJson([k \in 1..N |-> <<res[k].path, res[k].out, res[k].cls>>])>>)
        ELSE IF cv.v = "reject" THEN
            IF res[1].out = "raise" /\ res[1].jp THEN Acc
            ELSE Rej("C15 invalid query not rejected by every entry point", <<>>)
        ELSE IF cv.v = "either" THEN Acc
        ELSE LET segs == Parse(r.q, FALSE).v
             IN  IF DcSegs(segs, r.doc, reg) THEN Acc
                 ELSE IF Has(r, "maxdepth") /\ Nesting(r.doc) > r.maxdepth THEN Acc      \* C18 decides the outcome
                 ELSE IF res[1].out # "ok" THEN Rej("C15 valid query raised", <<res[1].cls>>)
                 ELSE LET nl    == Find(segs, r.doc, reg)
                          locs  == [k \in 1..Len(nl) |-> nl[k].loc]
                          first == IF nl = <<>> THEN <<>> ELSE <<nl[1].loc>>
                          bad   == {k \in 1..N : IF res[k].kind = "list" THEN res[k].locs # locs
                                                 ELSE res[k].locs # first \/ res[k].none # (nl = <<>>)}
                      IN  IF bad # {} THEN Rej("C15 an entry point returned a different result",
                                              <<ToJson([k \in bad |-> res[k].path])>>)
                          ELSE Acc

(* ---- nondeterministic mode (C17) -------------------------------------------------- *)
\* r.outputs: the distinct results (location sequences) over the outcomes of the random
\* choices; r.complete: the whole choice tree was explored
VNondet(r) ==
    LET reg == RegOf(r)
        cv  == CompileVerdict(r.q, reg, LoOf(r), HiOf(r))
    IN  IF cv.v # "accept" THEN Acc
        ELSE LET segs    == Parse(r.q, FALSE).v
                 \* wide documents (r.wide): through the visit orders of containers only (DescentDefs, T8e: the same set)
                 allowed == IF Has(r, "wide") /\ r.wide THEN AllowedResultsC(segs, r.doc, reg) ELSE AllowedResults(segs, r.doc, reg)
                 got     == {r.outputs[k] : k \in 1..Len(r.outputs)}
             IN  IF got \ allowed # {} THEN
                     Rej("C17 an ordering RFC 9535 does not permit was produced", <<ToJson(CHOOSE x \in got \ allowed : TRUE)>>)
                 ELSE IF r.complete /\ allowed \ got # {} THEN
                     Rej("C17 a permitted ordering is never produced", <<Cardinality(got), Cardinality(allowed),
                                                                         ToJson(CHOOSE x \in allowed \ got : TRUE)>>)
                 ELSE Acc

(* ---- bounded traversal (C18) --------------------------------------------------------- *)
\* r.limit: max_recursion_depth; r.mode: "det" | "rnd"; r.out: "ok" | "raise" | "timeout"
RECURSIVE HitSegs(_, _, _, _, _), HitExpr(_, _, _, _, _)
\* does evaluating the segments on the nodelist apply a descendant segment to a node nested deeper than lim?
HitSegs(segs, nl, root, reg, lim) ==
    IF segs = <<>> THEN FALSE
    ELSE LET seg == Head(segs)
         IN  \/ (seg.desc /\ \E k \in 1..Len(nl) : Nesting(nl[k].v) > lim)
             \/ \E k \in 1..Len(nl) :
                    LET inputs == IF seg.desc THEN DescOrSelf(nl[k]) ELSE <<nl[k]>>
                    IN  \E d \in 1..Len(inputs) : \E j \in 1..Len(seg.sels) :
                            /\ seg.sels[j].t = "filter"
                            /\ LET cs == Children(inputs[d])
                               IN  \E c \in 1..Len(cs) : HitExpr(seg.sels[j].e, cs[c], root, reg, lim)
             \/ HitSegs(Tail(segs), ApplySeg(seg, nl, root, reg), root, reg, lim)
HitExpr(e, cur, root, reg, lim) ==
    CASE e.t \in {"or", "and", "cmp"} -> HitExpr(e.l, cur, root, reg, lim) \/ HitExpr(e.r, cur, root, reg, lim)
      [] e.t \in {"not", "paren"}     -> HitExpr(e.e, cur, root, reg, lim)
      [] e.t = "query" -> HitSegs(e.segs, <<IF e.abs THEN RootNode(root) ELSE cur>>, root, reg, lim)
      [] e.t = "call"  -> \E k \in 1..Len(e.args) : HitExpr(e.args[k], cur, root, reg, lim)
      [] OTHER -> FALSE

\* the document is delivered as a spine (outermost level first) plus a leaf, and rebuilt here
RECURSIVE BuildSpine(_, _)
BuildSpine(levels, leaf) ==
    IF levels = <<>> THEN leaf
    ELSE LET L     == Head(levels)
             inner == BuildSpine(Tail(levels), leaf)
         IN  IF L.k = "arr" THEN Arr(L.before \o <<inner>> \o L.after)
             ELSE Obj(L.before \o <<Mem(L.name, inner)>> \o L.after)
VDepth(rr) ==
    LET r    == [rr EXCEPT !.leaf = rr.leaf] @@ [doc |-> BuildSpine(rr.spine, rr.leaf)]
        segs == Parse(r.q, FALSE).v
        \* the limit counts from each node a descendant segment is applied to, wherever that segment is
        \* (top level, inside a filter, inside a function argument): evaluation is eager, so every
        \* descendant application is performed
        deep == HitSegs(segs, <<RootNode(r.doc)>>, r.doc, Builtins, r.limit)
        deepest == Nesting(r.doc)
    IN  IF r.out = "timeout" THEN Rej("C18 traversal did not finish within the time limit", <<>>)
        ELSE IF deep /\ r.out # "raise" THEN Rej("C18 data nested deeper than the limit did not raise", <<deepest, r.limit>>)
        ELSE IF deep /\ r.cls # "JSONPathRecursionError" THEN Rej("C18 deep data raised something else than JSONPathRecursionError", <<r.cls>>)
        ELSE IF ~deep /\ r.out # "ok" THEN Rej("C18 data within the limit raised", <<r.cls, deepest, r.limit>>)
        ELSE IF ~deep /\ r.mode = "det" /\ r.locs # LocsOf(Find(segs, r.doc, Builtins)) THEN Rej("C18 result within the limit is not the full result", <<>>)
        ELSE IF ~deep /\ r.mode = "rnd" /\ Len(r.locs) # Len(Find(segs, r.doc, Builtins)) THEN Rej("C18 result within the limit is not the full result", <<>>)
        ELSE Acc

\* chains whose nesting (r.nesting) and node count (r.count) are known by construction
VDepthBig(r) ==
    LET deep == r.nesting > r.limit
    IN  IF r.out = "timeout" THEN Rej("C18 traversal did not finish within the time limit", <<>>)
        ELSE IF deep /\ r.out # "raise" THEN Rej("C18 data nested deeper than the limit did not raise", <<r.nesting, r.limit>>)
        ELSE IF deep /\ r.cls # "JSONPathRecursionError" THEN Rej("C18 deep data raised something else than JSONPathRecursionError", <<r.cls>>)
        ELSE IF ~deep /\ r.out # "ok" THEN Rej("C18 data within the limit raised", <<r.cls, r.nesting, r.limit>>)
        ELSE IF ~deep /\ r.n # r.count THEN Rej("C18 result within the limit is not the full result", <<>>)
        ELSE Acc

(* ---- anchors: the RFC's own example tables, evaluated by the specification ---------- *)
\* (selftest) r.want: the values the RFC example expects, r.valid: the RFC's verdict
VAnchorFind(r) ==
    LET p == Parse(r.q, TRUE)
    IN  IF ~p.ok THEN Rej("ANCHOR the specification rejects an RFC example query", <<p.why, p.i>>)
        ELSE LET nl == Find(p.v, r.doc, RegOf(r))
             IN  IF [k \in 1..Len(nl) |-> nl[k].v] # r.want
                 THEN Rej("ANCHOR the specification disagrees with an RFC example", <<ToJson([k \in 1..Len(nl) |-> nl[k].loc])>>)
                 ELSE Acc
VAnchorValid(r) ==
    LET cv == CompileVerdict(r.q, RegOf(r), LoOf(r), HiOf(r))
    IN  IF (cv.v = "accept") # r.valid THEN Rej("ANCHOR well-typedness verdict differs from the RFC table", <<cv.v, cv.why>>)
        ELSE Acc
VAnchorCmp(r) ==
    IF Cmp(r.cmp, r.left, r.right) # r.want THEN Rej("ANCHOR comparison differs from the RFC table", <<>>) ELSE Acc
VAnchorRe(r) ==
    LET p == ReParse(r.pattern)
    IN  IF p.ok # r.valid THEN Rej("ANCHOR I-Regexp validity differs from the example list", <<>>) ELSE Acc
VAnchorCat(r) ==
    LET row == CatRow(r.cp)
    IN  IF row = <<>> \/ <<row[1][2], row[1][3]>> # r.cat THEN Rej("ANCHOR category table differs from unicodedata", <<r.cp>>) ELSE Acc

(* ---- T1: the two formulations of the syntax agree -------------------------------------- *)
G == INSTANCE ABNF
\* (no implementation involved: r.q is just a text) the ABNF held as data accepts exactly what the
\* recursive-descent parser accepts in strict mode
VT1(r) ==
    LET a == G!AcceptsQuery(r.q)
        p == Parse(r.q, TRUE)
    IN  IF a # p.ok THEN Rej("T1 Syntax.tla and ABNF.tla disagree", <<a, p.ok, IF p.ok THEN "" ELSE p.why>>)
        ELSE Acc

(* ---- the lexer, step by step (coverage beyond the listed properties) ------------------------ *)
LXD == INSTANCE LexerDefs
\* r.events: one entry per step of Lexer.run, written by the env-guarded hook:
\*   [fn, next, pos, start, fd, fs, bs, ntoks];  r.raised: an exception escaped run();
\*   r.tokens: the final token list as [t, s, e]
RECURSIVE LexReplay(_, _, _, _, _)
LexReplay(q, evs, k, name, L) ==
    IF k > Len(evs) THEN [ok |-> TRUE, name |-> name, L |-> L, at |-> k, why |-> ""]
    ELSE LET ev == evs[k]
         IN  IF name = LXD!NONE THEN [ok |-> FALSE, at |-> k, why |-> "the model has stopped, the code took another step"]
             ELSE IF ev.fn # name THEN [ok |-> FALSE, at |-> k, why |-> "state function differs: model " \o name]
             ELSE LET r == LXD!Step(q, name, L)
                  IN  IF r.L.st # "ok" THEN [ok |-> FALSE, at |-> k, why |-> "the model raises in this step, the code did not"]
                      ELSE IF r.next # ev.next THEN [ok |-> FALSE, at |-> k, why |-> "next state function differs: model " \o r.next]
                      ELSE IF r.L.pos # ev.pos \/ r.L.start # ev.start THEN [ok |-> FALSE, at |-> k, why |-> "pos/start differ"]
                      ELSE IF r.L.fd # ev.fd \/ r.L.fs # ev.fs THEN [ok |-> FALSE, at |-> k, why |-> "filter depth / call stack differ"]
                      ELSE IF r.L.bs # ev.bs THEN [ok |-> FALSE, at |-> k, why |-> "bracket stack differs"]
                      ELSE IF Len(r.L.toks) # ev.ntoks THEN [ok |-> FALSE, at |-> k, why |-> "number of tokens differs"]
                      ELSE LexReplay(q, evs, k + 1, r.next, r.L)
VLex(r) ==
    LET res == LexReplay(r.q, r.events, 1, "lex_root", LXD!L0)
    IN  IF ~res.ok THEN Rej("LEXER step does not conform to Lexer.tla", <<res.at, res.why>>)
        ELSE IF r.raised THEN
            IF res.name # LXD!NONE /\ LXD!Step(r.q, res.name, res.L).L.st = "raised" THEN Acc
            ELSE Rej("LEXER the code raised where the model continues", <<res.at>>)
        ELSE IF res.name # LXD!NONE THEN Rej("LEXER the code stopped where the model continues", <<res.at, res.name>>)
        ELSE IF [k \in 1..Len(res.L.toks) |-> [t |-> res.L.toks[k].t, s |-> res.L.toks[k].s, e |-> res.L.toks[k].e]] # r.tokens
            THEN Rej("LEXER token list differs", <<>>)
        ELSE Acc

(* ---- the parser (coverage beyond the listed properties): Parser.tla ---------------------------- *)
PRS == INSTANCE Parser
\* r.out: "ok" | "raise"; r.kind: the exception class as one of the model's kinds; r.ast: the query built,
\* read off the real objects.  The model's "lexer" is Lexer.backup() (JSONPathSyntaxError) or
\* ignore_whitespace() (JSONPathLexerError) raising; "numbig": the model does not say.
VPCompile(r) ==
    LET ic == PRS!ImplCompile(r.q, RegOf(r), LoOf(r), HiOf(r))
    IN  IF ~ic.ok /\ ic.kind = "numbig" THEN Acc
        ELSE IF ic.ok # (r.out = "ok") THEN
            Rej("PARSER outcome differs from Parser.tla", <<IF ic.ok THEN "ok" ELSE ic.kind, IF r.out = "ok" THEN "ok" ELSE r.kind>>)
        ELSE IF ~ic.ok /\ ic.kind # r.kind /\ ~(ic.kind = "lexer" /\ r.kind = "syntax") THEN
            Rej("PARSER error class differs from Parser.tla", <<ic.kind, r.kind>>)
        ELSE IF ic.ok /\ ic.v # r.ast THEN Rej("PARSER the query built differs from Parser.tla", <<ToJson(ic.v)>>)
        ELSE Acc

(* ---- the helper API of node lists and compiled queries (coverage beyond the listed properties) ------- *)
\* r.singular / r.qempty: JSONPathQuery.singular_query() / .empty(); r.lempty: JSONPathNodeList.empty();
\* r.paths: node list .paths(); r.helpers_ok: values() / items() / node.root agree with the nodes themselves
VApi(r) ==
    LET reg == RegOf(r)
        cv  == CompileVerdict(r.q, reg, LoOf(r), HiOf(r))
    IN  IF cv.v # "accept" THEN Acc
        ELSE LET segs == Parse(r.q, FALSE).v
             IN  IF r.singular # IsSingularSegs(segs) THEN Rej("API singular_query() differs from the RFC's definition", <<r.singular>>)
                 ELSE IF r.qempty # (segs = <<>>) THEN Rej("API JSONPathQuery.empty() differs", <<r.qempty>>)
                 ELSE IF DcSegs(segs, r.doc, reg) \/ r.out # "ok" THEN Acc
                 ELSE LET nl == Find(segs, r.doc, reg)
                      IN  IF r.lempty # (nl = <<>>) THEN Rej("API JSONPathNodeList.empty() differs", <<r.lempty>>)
                          ELSE IF r.paths # [k \in 1..Len(nl) |-> NormalizedPath(nl[k].loc)] THEN Rej("API paths() differs", <<>>)
                          ELSE IF ~r.helpers_ok THEN Rej("API values() / items() / node.root disagree with the nodes", <<>>)
                          ELSE IF IsSingularSegs(segs) /\ Len(nl) > 1 THEN Rej("API a singular query selected more than one node", <<Len(nl)>>)
                          ELSE Acc

(* ---- repeatability (C14), also where the VALUE is a declared don't-care ---------------------------------- *)
\* r.results: the outcome of the same (query, document) on a fresh environment and, several times, in the middle of
\* a long history on a long-lived one: <<"ok", locs>> or <<"raise", class>>.  All must coincide; where the
\* specification knows the value they must also be that value.
VRepeat(r) ==
    LET N   == Len(r.results)
        reg == RegOf(r)
        cv  == CompileVerdict(r.q, reg, LoOf(r), HiOf(r))
    IN  IF \E k \in 2..N : r.results[k] # r.results[1] THEN
            Rej("C14 the same query on the same document gave different results depending on the history",
                <<CHOOSE k \in 2..N : r.results[k] # r.results[1]>>)
        ELSE IF Has(r, "nospec") THEN Acc             \* (a document too deep to be shipped: coincidence only)
        ELSE IF cv.v = "accept" /\ ~DcSegs(Parse(r.q, FALSE).v, r.doc, reg) THEN
            LET nl == Find(Parse(r.q, FALSE).v, r.doc, reg)
            IN  IF r.results[1] # <<"ok", [k \in 1..Len(nl) |-> nl[k].loc]>> THEN Rej("nodelist differs", <<>>) ELSE Acc
        ELSE Acc

\* an iterator abandoned after its first item: r.locs is <<>> or the first node of the full result
VFindFirst(r) ==
    LET reg == RegOf(r)
        cv  == CompileVerdict(r.q, reg, LoOf(r), HiOf(r))
    IN  IF cv.v # "accept" \/ DcSegs(Parse(r.q, FALSE).v, r.doc, reg) THEN Acc
        ELSE LET nl == Find(Parse(r.q, FALSE).v, r.doc, reg)
             IN  IF r.locs # (IF nl = <<>> THEN <<>> ELSE <<nl[1].loc>>) THEN Rej("nodelist differs", <<"first item">>) ELSE Acc

Verdict(r) ==
    CASE r.op = "compile" -> VCompile(r)
      [] r.op = "findfirst" -> VFindFirst(r)
      [] r.op = "repeat" -> VRepeat(r)
      [] r.op = "api" -> VApi(r)
      [] r.op = "pcompile" -> VPCompile(r)
      [] r.op = "lex"     -> VLex(r)
      [] r.op = "t1"      -> VT1(r)
      [] r.op = "anchor_find"  -> VAnchorFind(r)
      [] r.op = "anchor_valid" -> VAnchorValid(r)
      [] r.op = "anchor_cmp"   -> VAnchorCmp(r)
      [] r.op = "anchor_re"    -> VAnchorRe(r)
      [] r.op = "anchor_cat"   -> VAnchorCat(r)
      [] r.op = "depth"   -> VDepth(r)
      [] r.op = "depthbig" -> VDepthBig(r)
      [] r.op = "nondet"  -> VNondet(r)
      [] r.op = "entry"   -> VEntry(r)
      [] r.op = "lit"      -> VLit(r)
      [] r.op = "litrange" -> VLitRange(r)
      [] r.op = "requery" -> VRequery(r)
      [] r.op = "cprange" -> VCpRange(r)
      [] r.op = "shrange" -> VShRange(r)
      [] r.op = "sametext" -> VSameText(r)
      [] r.op = "total"   -> VTotal(r)
      [] r.op = "errpos"  -> VErrPos(r)
      [] r.op = "str"     -> VStr(r)
      [] r.op = "find"    -> VFind(r)
      [] r.op = "probe"   -> VProbe(r)
      [] OTHER -> Rej("unknown record kind", <<r.op>>)

TraceInit == l = 1
TraceNext ==
    /\ l <= Len(Tr)
    /\ LET v == Verdict(Tr[l])
       IN  IF v.ok THEN TRUE
           ELSE PrintT("REJ " \o ToJson([id |-> Tr[l].id, clause |-> v.clause, detail |-> v.detail]))
    /\ l' = l + 1
TraceSpec == TraceInit /\ [][TraceNext]_l
TraceDone == TLCGet("distinct") = Len(Tr) + 1
=============================================================================
