-------------------------------- MODULE Slice --------------------------------
(***************************************************************************)
(* RFC 9535 2.3.4.2.2 as the step-by-step procedure the RFC prints         *)
(* (Normalize, Bounds, then the WHILE loop), one PlusCal label per         *)
(* pseudo-code statement group.  Theorems checked by TLC (MC_Slice.cfg):   *)
(*   T4a  the loop terminates                      (PROPERTY Termination)  *)
(*   T4b  at Done: out = SliceIdx(..), every index in 0..len-1, strictly   *)
(*        monotone in the direction of step, empty when step = 0           *)
(*   T4c  clamping: a component of magnitude > 2*len may be replaced by    *)
(*        BigRep of the same sign without changing the result              *)
(* Every Done state is also a test of the implementation (GEN).            *)
(***************************************************************************)
EXTENDS SliceDef, TLC

CONSTANTS MaxLen, Comps     \* array lengths 0..MaxLen; Comps: set of Maybe-ints

(* --fair algorithm RfcSlice
variables
    len \in 0..MaxLen, s \in Comps, e \in Comps, st \in Comps,
    step = 0, start = 0, stop = 0, nstart = 0, nend = 0,
    lower = 0, upper = 0, i = 0, out = <<>>;
begin
Defaults:
    step  := IF st = <<>> THEN 1 ELSE st[1];
    start := IF s # <<>> THEN s[1] ELSE IF step >= 0 THEN 0 ELSE len - 1;
    stop  := IF e # <<>> THEN e[1] ELSE IF step >= 0 THEN len ELSE -len - 1;
Norm:
    nstart := IF start >= 0 THEN start ELSE len + start;
    nend   := IF stop >= 0 THEN stop ELSE len + stop;
Bounds:
    if step >= 0 then
        lower := SMin(SMax(nstart, 0), len);
        upper := SMin(SMax(nend, 0), len);
    else
        upper := SMin(SMax(nstart, -1), len - 1);
        lower := SMin(SMax(nend, -1), len - 1);
    end if;
Pick:
    if step > 0 then
        i := lower;
Up:     while i < upper do
            out := Append(out, i);
            i := i + step;
        end while;
    elsif step < 0 then
        i := upper;
Down:   while lower < i do
            out := Append(out, i);
            i := i + step;
        end while;
    end if;
end algorithm; *)
\* BEGIN TRANSLATION
VARIABLES pc, len, s, e, st, step, start, stop, nstart, nend, lower, upper, i, 
          out

vars == << pc, len, s, e, st, step, start, stop, nstart, nend, lower, upper, 
           i, out >>

Init == (* Global variables *)
        /\ len \in 0..MaxLen
        /\ s \in Comps
        /\ e \in Comps
        /\ st \in Comps
        /\ step = 0
        /\ start = 0
        /\ stop = 0
        /\ nstart = 0
        /\ nend = 0
        /\ lower = 0
        /\ upper = 0
        /\ i = 0
        /\ out = <<>>
        /\ pc = "Defaults"

Defaults == /\ pc = "Defaults"
            /\ step' = (IF st = <<>> THEN 1 ELSE st[1])
            /\ start' = (IF s # <<>> THEN s[1] ELSE IF step' >= 0 THEN 0 ELSE len - 1)
            /\ stop' = (IF e # <<>> THEN e[1] ELSE IF step' >= 0 THEN len ELSE -len - 1)
            /\ pc' = "Norm"
            /\ UNCHANGED << len, s, e, st, nstart, nend, lower, upper, i, out >>

Norm == /\ pc = "Norm"
        /\ nstart' = (IF start >= 0 THEN start ELSE len + start)
        /\ nend' = (IF stop >= 0 THEN stop ELSE len + stop)
        /\ pc' = "Bounds"
        /\ UNCHANGED << len, s, e, st, step, start, stop, lower, upper, i, out >>

Bounds == /\ pc = "Bounds"
          /\ IF step >= 0
                THEN /\ lower' = SMin(SMax(nstart, 0), len)
                     /\ upper' = SMin(SMax(nend, 0), len)
                ELSE /\ upper' = SMin(SMax(nstart, -1), len - 1)
                     /\ lower' = SMin(SMax(nend, -1), len - 1)
          /\ pc' = "Pick"
          /\ UNCHANGED << len, s, e, st, step, start, stop, nstart, nend, i, 
                          out >>

Pick == /\ pc = "Pick"
        /\ IF step > 0
              THEN /\ i' = lower
                   /\ pc' = "Up"
              ELSE /\ IF step < 0
                         THEN /\ i' = upper
                              /\ pc' = "Down"
                         ELSE /\ pc' = "Done"
                              /\ i' = i
        /\ UNCHANGED << len, s, e, st, step, start, stop, nstart, nend, lower, 
                        upper, out >>

Up == /\ pc = "Up"
      /\ IF i < upper
            THEN /\ out' = Append(out, i)
                 /\ i' = i + step
                 /\ pc' = "Up"
            ELSE /\ pc' = "Done"
                 /\ UNCHANGED << i, out >>
      /\ UNCHANGED << len, s, e, st, step, start, stop, nstart, nend, lower, 
                      upper >>

Down == /\ pc = "Down"
        /\ IF lower < i
              THEN /\ out' = Append(out, i)
                   /\ i' = i + step
                   /\ pc' = "Down"
              ELSE /\ pc' = "Done"
                   /\ UNCHANGED << i, out >>
        /\ UNCHANGED << len, s, e, st, step, start, stop, nstart, nend, lower, 
                        upper >>

(* Allow infinite stuttering to prevent deadlock on termination. *)
Terminating == pc = "Done" /\ UNCHANGED vars

Next == Defaults \/ Norm \/ Bounds \/ Pick \/ Up \/ Down
           \/ Terminating

Spec == /\ Init /\ [][Next]_vars
        /\ WF_vars(Next)

Termination == <>(pc = "Done")

\* END TRANSLATION

AtDone == pc = "Done"

T4b_Closed   == AtDone => out = SliceIdx(len, s, e, st)
T4b_InRange  == \A k \in 1..Len(out) : out[k] \in 0..(len - 1)
T4b_Monotone == \A k \in 1..(Len(out) - 1) :
                   IF step > 0 THEN out[k] < out[k + 1] ELSE out[k] > out[k + 1]
T4b_StepZero == (AtDone /\ step = 0) => out = <<>>
\* progress measure: the loop variable moves strictly toward its bound
T4a_Measure  == [][(pc = "Up" /\ pc' = "Up") => i' > i]_vars
                /\ [][(pc = "Down" /\ pc' = "Down") => i' < i]_vars

\* T4c, evaluated as an ASSUME-style constant property by MC_Slice
BigOf(c, len0, big) == IF c # <<>> /\ c[1] > 2 * len0 + 2 THEN <<big>>
                       ELSE IF c # <<>> /\ c[1] < -(2 * len0 + 2) THEN <<-big>> ELSE c
Clamping(big) ==
    \A l \in 0..MaxLen, a \in Comps, b \in Comps :
        /\ SliceIdx(l, BigOf(a, l, big), b, <<>>)  = SliceIdx(l, a, b, <<>>)
        /\ SliceIdx(l, b, BigOf(a, l, big), <<>>)  = SliceIdx(l, b, a, <<>>)
        /\ SliceIdx(l, BigOf(a, l, big), b, <<-1>>) = SliceIdx(l, a, b, <<-1>>)
        /\ SliceIdx(l, b, BigOf(a, l, big), <<-1>>) = SliceIdx(l, b, a, <<-1>>)
        /\ (a # <<>> /\ Len(SliceIdx(l, <<>>, <<>>, a)) > 1 => Len(SliceIdx(l, <<>>, <<>>, BigOf(a, l, big))) >= 1)
=============================================================================
