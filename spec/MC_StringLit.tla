---------------------------- MODULE MC_StringLit ----------------------------
EXTENDS StringLit
\* ' " \ / b f n r t u x 0 1 8 9 a A D d C c E F  SP U+0001 U+001F DEL e-acute U+1F600
SigmaFull == {39, 34, 92, 47, 98, 102, 110, 114, 116, 117, 120, 48, 49, 56, 57, 97, 65, 68, 100, 67, 99, 69, 70,
              32, 1, 31, 127, 233, 128512}
SigmaEsc  == {39, 34, 92, 117, 48, 56, 68, 100, 67, 65, 110, 120, 1}
SigmaHex  == {92, 117, 48, 68, 100, 56, 66, 67, 70, 69, 55}     \* \ u 0 D d 8 B C F E 7
SigmaHexQ == SigmaHex \cup {39, 34, 120}                       \* ... plus both quotes and a plain character
BothQuotes == {39, 34}

\* T7a: every spelling of every short string decodes back to it
EscapeForms(cp, q) ==
    LET h(d) == IF d < 10 THEN 48 + d ELSE 87 + d
        H(d) == IF d < 10 THEN 48 + d ELSE 55 + d
        u4l(v) == <<92, 117, h(v \div 4096), h((v \div 256) % 16), h((v \div 16) % 16), h(v % 16)>>
        u4u(v) == <<92, 117, H(v \div 4096), H((v \div 256) % 16), H((v \div 16) % 16), H(v % 16)>>
        raw == IF (IsUnescaped(cp) \/ cp = 34 \/ cp = 39) /\ cp # q THEN {<<cp>>} ELSE {}
        two == CASE cp = 8 -> {<<92, 98>>} [] cp = 12 -> {<<92, 102>>} [] cp = 10 -> {<<92, 110>>}
                 [] cp = 13 -> {<<92, 114>>} [] cp = 9 -> {<<92, 116>>} [] cp = 47 -> {<<92, 47>>}
                 [] cp = 92 -> {<<92, 92>>} [] cp = q -> {<<92, q>>} [] OTHER -> {}
        uni == IF cp < 65536 THEN {u4l(cp), u4u(cp)}
               ELSE LET v == cp - 65536
                        hi == 55296 + (v \div 1024)
                        lo == 56320 + (v % 1024)
                    IN  {u4l(hi) \o u4u(lo), u4u(hi) \o u4l(lo)}
    IN  raw \cup two \cup uni
Cps == {0, 8, 10, 31, 32, 34, 39, 47, 92, 97, 127, 233, 55295, 57344, 65535, 65536, 128512, 1114111}
ASSUME T7a ==
    \A q \in BothQuotes : \A a \in Cps : \A b \in Cps :
        \A fa \in EscapeForms(a, q) : \A fb \in EscapeForms(b, q) :
            LET lit == <<q>> \o fa \o fb \o <<q>>
                r   == StringLit(lit, 1)
            IN  r.ok /\ r.v = <<a, b>> /\ r.i = Len(lit) + 1
=============================================================================
