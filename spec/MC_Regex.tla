------------------------------ MODULE MC_Regex ------------------------------
(***************************************************************************)
(* T13: internal theorems of the I-Regexp matcher on a small universe.     *)
(***************************************************************************)
EXTENDS IRegexp

Chr(c) == [t |-> "chr", c |-> c]
Dot    == [t |-> "dot"]
Cls(neg, lo, hi) == [t |-> "cls", neg |-> neg, items |-> <<[t |-> "rng", lo |-> lo, hi |-> hi]>>]
Cat(xs) == [t |-> "cat", xs |-> xs]
Alt(xs) == [t |-> "alt", xs |-> xs]
Rep(x, lo, hi) == [t |-> "rep", x |-> x, lo |-> lo, hi |-> hi]

Atoms == {Chr(97), Chr(98), Dot, Cls(FALSE, 97, 98), Cls(TRUE, 97, 97), Chr(10)}
L1 == Atoms \cup {Rep(x, q[1], q[2]) : x \in Atoms, q \in {<<0, 1>>, <<0, -1>>, <<1, -1>>, <<2, 2>>, <<1, 2>>}}
L2 == L1 \cup {Cat(<<x, y>>) : x \in L1, y \in Atoms} \cup {Alt(<<x, y>>) : x \in Atoms, y \in L1}
          \cup {Rep(Alt(<<x, Cat(<<>>)>>), 0, -1) : x \in Atoms}
Alphabet == {97, 98, 10, 13, 8232}
Subjects == UNION {[1..n -> Alphabet] : n \in 0..3}

VARIABLE re
Init == re \in L2
Next == UNCHANGED re
Spec == Init /\ [][Next]_re

T13 == \A s \in Subjects :
          /\ (ReMatch(re, s) => ReSearch(re, s))
          /\ (ReSearch(re, s) <=> \E i \in 1..(Len(s) + 1) : \E j \in (i - 1)..Len(s) :
                                     ReMatch(re, SubSeq(s, i, j)))
          /\ (re = Dot /\ Len(s) = 1 => (ReMatch(re, s) <=> s[1] \notin {10, 13}))
=============================================================================
