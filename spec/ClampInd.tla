------------------------------ MODULE ClampInd ------------------------------
(***************************************************************************)
(* T4c (the clamping lemma) for UNBOUNDED integers, typed for Apalache.    *)
(*                                                                         *)
(* TLC's integers are 32-bit and the GEN / TRACE sides of C07 therefore    *)
(* let a moderate value stand for 2^53-1 (and the evaluator of Eval.tla    *)
(* clamps magnitudes above 10^9).  That is sound iff a slice component     *)
(* whose magnitude exceeds the array length can be replaced by ANY other   *)
(* value of the same sign whose magnitude exceeds the array length without *)
(* changing what the RFC 9535 procedure selects.  MC_Slice checks this on  *)
(* small constants (Slice!Clamping); here it is one state predicate over   *)
(* arbitrary integers, checked by Apalache as an invariant of a one-state  *)
(* specification whose initial states are ALL valuations:                  *)
(*     apalache-mc check --init=Init --inv=Clamp --length=0                *)
(*                                                                         *)
(* The bounds part is stated on Lower / Upper (the emitted indices are a   *)
(* function of lower, upper and step only); the step part says that a step *)
(* of magnitude > len emits exactly the first index - whatever the step.   *)
(***************************************************************************)
EXTENDS Integers

VARIABLES
    \* @type: Int;
    len,
    \* @type: Int;
    a,          \* the component under replacement
    \* @type: Int;
    big,        \* its stand-in: same sign, magnitude also > len
    \* @type: Bool;
    hasB,
    \* @type: Int;
    bv,         \* the other bound (present iff hasB)
    \* @type: Int;
    step        \* any step

SMin(x, y) == IF x < y THEN x ELSE y
SMax(x, y) == IF x > y THEN x ELSE y
Normalize(i) == IF i >= 0 THEN i ELSE len + i

\* RFC 9535 2.3.4.2.2, as in SliceDef.tla (start and end already defaulted)
Lower(start, end) ==
    IF step >= 0 THEN SMin(SMax(Normalize(start), 0), len)
    ELSE SMin(SMax(Normalize(end), -1), len - 1)
Upper(start, end) ==
    IF step >= 0 THEN SMin(SMax(Normalize(end), 0), len)
    ELSE SMin(SMax(Normalize(start), -1), len - 1)

DefStart == IF step >= 0 THEN 0 ELSE len - 1
DefEnd   == IF step >= 0 THEN len ELSE -len - 1
OtherAsEnd   == IF hasB THEN bv ELSE DefEnd
OtherAsStart == IF hasB THEN bv ELSE DefStart

Init ==
    /\ len \in Int /\ a \in Int /\ big \in Int /\ bv \in Int /\ step \in Int
    /\ hasB \in BOOLEAN

Next == UNCHANGED <<len, a, big, hasB, bv, step>>

SameSide == (a > len /\ big > len) \/ (a < -len /\ big < -len)

\* replacing a start or an end beyond the array by any other value beyond it on the same side changes neither bound
ClampBounds ==
    (len >= 0 /\ SameSide) =>
        /\ Lower(a, OtherAsEnd) = Lower(big, OtherAsEnd)
        /\ Upper(a, OtherAsEnd) = Upper(big, OtherAsEnd)
        /\ Lower(OtherAsStart, a) = Lower(OtherAsStart, big)
        /\ Upper(OtherAsStart, a) = Upper(OtherAsStart, big)

\* a step longer than the array emits the first index only, for any bounds the procedure can produce
ClampStep ==
    \A lo \in {Lower(OtherAsStart, OtherAsEnd)}, up \in {Upper(OtherAsStart, OtherAsEnd)} :
        /\ (len >= 0 /\ step > len /\ lo < up) => lo + step >= up
        /\ (len >= 0 /\ step < -len /\ lo < up) => up + step <= lo

\* and the bounds never depend on the MAGNITUDE of the step, only on its sign (so a stand-in step keeps them)
Clamp == ClampBounds /\ ClampStep
=============================================================================
