------------------------------ MODULE MC_Iters ------------------------------
EXTENDS Iters
A == <<97>>  B == <<98>>  X == <<120>>
DA == Arr(<<Obj(<<Mem(A, Num(1, 0))>>), Obj(<<Mem(A, Num(2, 0)), Mem(B, Num(1, 0))>>), Obj(<<Mem(B, Num(3, 0))>>),
            Arr(<<Obj(<<Mem(A, Num(1, 0))>>)>>)>>)
DB == Obj(<<Mem(X, Num(1, 0)), Mem(A, Arr(<<Num(1, 0), Arr(<<Num(1, 0), Num(2, 0)>>)>>)), Mem(B, Obj(<<Mem(A, Num(1, 0))>>))>>)
\* fq  $[?@.a]              filter          (2 nodes on DA)
\* nq  $[?@[?@.a == 1]]     nested filter   (1 node on DA: the inner array)
\* dq  $..a                 descendant      (3 nodes on DA, 2 on DB)
\* rq  $..[?@ == $.x]       descendant + filter + '$'  (on DB)
\* wq  $[*]                 wildcard
FQ == <<36,91,63,64,46,97,93>>
NQ == <<36,91,63,64,91,63,64,46,97,32,61,61,32,49,93,93>>
DQ == <<36,46,46,97>>
RQ == <<36,46,46,91,63,64,32,61,61,32,36,46,120,93>>
WQ == <<36,91,42,93>>
It(id, q, d) == [id |-> id, q |-> q, d |-> d]
MCConfigs == {
    <<It("fq_da_c1", FQ, DA), It("fq_da_c1", FQ, DA)>>,                      \* the same compiled query twice, same document
    <<It("fq_da_c1", FQ, DA), It("dq_da_c2", DQ, DA), It("fq_da_c1", FQ, DA)>>,
    <<It("dq_da_e1", DQ, DA), It("dq_db_e1", DQ, DB)>>,                      \* same environment, different documents
    <<It("rq_db_e1", RQ, DB), It("nq_da_e2", NQ, DA), It("dq_db_m", DQ, DB)>>, \* different environments
    <<It("wq_da_c3", WQ, DA), It("rq_db_c4", RQ, DB), It("wq_da_c3", WQ, DA)>> }
MCConfigsSmall == {
    <<It("fq_da_c1", FQ, DA), It("fq_da_c1", FQ, DA)>>,
    <<It("dq_da_c2", DQ, DA), It("dq_da_c2", DQ, DA)>>,                              \* a compiled descendant query, reused
    <<It("dq_db_c5", DQ, DB), It("rq_db_c4", RQ, DB)>>,
    <<It("rq_db_e1", RQ, DB), It("nq_da_e2", NQ, DA), It("dq_db_m", DQ, DB)>> }
=============================================================================
