----------------------------- MODULE MC_System -----------------------------
EXTENDS System

\* q1  $[?@.a == $.x]                   '$'-rooted sub-query inside a filter
\* q2  $[?f(@.a)]                       depends on the environment's registry (invalid where f is unknown)
\* q3  $..[?@[?@ == $.x]]               descendant + nested filter + '$'
\* q4  $[?match(@.s, 'a.') || search(@.s, 'a.')]   same pattern text in match and search
\* q5  $.k3[2]                          out of range for the subclass's [-1, 1]
\* q6  $[?@.a == ]                      syntactically invalid
\* q7  $..s                             a descendant segment whose first match lies below the root (find_one abandons
\*                                      the traversal with siblings still pending)
\* q8  $[?f(@.a) == 1]                  well-typed only where f returns a ValueType (the subclass's own f)
\* q9  $.k3[1]   and  q10  $.k3['1']     an index and the member name spelled with the same digits: whatever the parser shares
\*                                       between queries of one environment must not confuse the two kinds of selector
MCQText == [q9 |-> <<36,46,107,51,91,49,93>>,
            q10 |-> <<36,46,107,51,91,39,49,39,93>>,
            q8 |-> <<36,91,63,102,40,64,46,97,41,32,61,61,32,49,93>>,
            q1 |-> <<36,91,63,64,46,97,32,61,61,32,36,46,120,93>>,
            q2 |-> <<36,91,63,102,40,64,46,97,41,93>>,
            q3 |-> <<36,46,46,91,63,64,91,63,64,32,61,61,32,36,46,120,93,93>>,
            q4 |-> <<36,91,63,109,97,116,99,104,40,64,46,115,44,32,39,97,46,39,41,32,124,124,32,115,101,97,114,99,104,40,64,46,115,44,32,39,97,46,39,41,93>>,
            q5 |-> <<36,46,107,51,91,50,93>>,
            q6 |-> <<36,91,63,64,46,97,32,61,61,32,93>>,
            q7 |-> <<36,46,46,115>>]

A == <<97>>   X == <<120>>   S == <<115>>
K1 == <<107, 49>>  K2 == <<107, 50>>  K3 == <<107, 51>>
D1 == Obj(<<Mem(X, Num(1, 0)),
            Mem(K1, Obj(<<Mem(A, Num(1, 0)), Mem(S, Str(<<97, 98>>))>>)),
            Mem(K2, Obj(<<Mem(A, Num(2, 0)), Mem(S, Str(<<120, 97, 98, 121>>))>>)),
            Mem(K3, Arr(<<Num(1, 0), Arr(<<Num(1, 0), Num(2, 0)>>), Num(2, 0)>>))>>)
D3 == Obj(<<Mem(X, Num(2, 0)),
            Mem(K1, Obj(<<Mem(A, Num(1, 0))>>)),
            Mem(K2, Obj(<<Mem(A, Num(2, 0)), Mem(S, Str(<<97>>))>>)),
            Mem(K3, Arr(<<Num(2, 0), Arr(<<Num(2, 0)>>), Str(<<97, 10>>)>>))>>)
\* d2 is a distinct but equal copy of d1 (the harness materialises it separately)
\* d4: built by the harness from ONE shared sub-object referenced three times (no cycle): as a JSON value it
\* is just its unfolding, and every query must treat it as such
SH == Obj(<<Mem(A, Num(1, 0)), Mem(S, Str(<<97, 98>>))>>)
D4 == Obj(<<Mem(X, Num(1, 0)), Mem(K1, SH), Mem(K2, SH), Mem(K3, Arr(<<SH, Arr(<<SH>>), Num(1, 0)>>))>>)
MCDocVal == [d1 |-> D1, d2 |-> D1, d3 |-> D3, d4 |-> D4]
\* the user may edit d3 in place: x becomes 1, k1.a becomes 2 (d1 and d2 are never edited)
D3Alt == Obj(<<Mem(X, Num(1, 0)),
               Mem(K1, Obj(<<Mem(A, Num(2, 0))>>)),
               Mem(K2, Obj(<<Mem(A, Num(2, 0)), Mem(S, Str(<<97>>))>>)),
               Mem(K3, Arr(<<Num(2, 0), Arr(<<Num(2, 0)>>), Str(<<97, 10>>)>>))>>)
MCDocAlt == [d1 |-> D1, d2 |-> D1, d3 |-> D3Alt, d4 |-> D4]
=============================================================================
