------------------------------ MODULE MC_Parser ------------------------------
(***************************************************************************)
(* T15 (refinement): the implementation-shaped pipeline Lexer -> token     *)
(* stream -> Pratt parser (Parser.tla) against the RFC-shaped grammar and  *)
(* validity rules (Syntax.tla, Typing.tla), over every text                *)
(*     prefix u1 .. un suffix                                              *)
(* with (prefix, suffix) a template and the ui taken from a set of units   *)
(* (short texts standing for a token or a fragment) - so that n units      *)
(* reach well-formed filters that texts of n characters cannot.            *)
(*   - no text makes the implementation-shaped pipeline crash;             *)
(*   - a valid, well-typed, in-range text is accepted and the query built  *)
(*     is the RFC's, up to parentheses and chains of && / ||;              *)
(*   - a text outside the grammar, or invalid, is rejected;                *)
(*   - the declared don't-care texts are not constrained.                  *)
(* T16 (refinement): on every accepted text, the implementation-shaped     *)
(* evaluator (Evaluator.tla) applied to the query the implementation-      *)
(* shaped parser built returns the node list Eval!Find assigns to the      *)
(* RFC's parse of the text, on each of six discriminating documents.       *)
(***************************************************************************)
EXTENDS Parser, Canon, Evaluator, Unparse, Json

CONSTANTS UnitSet,        \* which family of units
          MaxUnits,
          ExportAllUpTo   \* every text of at most this many units is exported, longer ones unless plainly a syntax error

VARIABLES tpl, body, n
pvars == <<tpl, body, n>>

Units ==
    CASE UnitSet = "logic" -> {<<64>>, <<46, 97>>, <<61, 61>>, <<38, 38>>, <<124, 124>>, <<33>>, <<40>>, <<41>>, <<49>>, <<32>>, <<36>>, <<60>>}
           \* @  .a  ==  &&  ||  !  (  )  1     $  <
      [] UnitSet = "calls" -> {<<64>>, <<36>>, <<46, 42>>, <<46, 97>>, <<60>>, <<108, 101, 110, 103, 116, 104, 40>>, <<99, 111, 117, 110, 116, 40>>, <<109, 97, 116, 99, 104, 40>>, <<118, 97, 108, 117, 101, 40>>, <<41>>, <<44>>, <<39, 97, 39>>, <<40>>, <<49>>}
           \* @  $  .*  .a  <  length(  count(  match(  value(  )  ,  'a'  (  1
      [] UnitSet = "select" -> {<<91>>, <<93>>, <<44>>, <<58>>, <<49>>, <<45>>, <<48>>, <<42>>, <<46, 46>>, <<46, 97>>, <<32>>, <<39, 98, 39>>, <<63, 64>>}
           \* [  ]  ,  :  1  -  0  *  ..  .a     'b'  ?@
      [] UnitSet = "lits" -> {<<49>>, <<48>>, <<45>>, <<46>>, <<101>>, <<69>>, <<43>>, <<116, 114, 117, 101>>, <<110, 117, 108, 108>>, <<34, 99, 34>>, <<33>>, <<64>>}
           \* 1  0  -  .  e  E  +  true  null  "c"  !  @
      [] UnitSet = "strs" -> {<<97>>, <<92>>, <<39>>, <<34>>, <<117>>, <<100, 56, 51, 100>>, <<100, 101, 48, 48>>, <<48, 48, 52, 49>>, <<110>>, <<47>>, <<1>>, <<233>>, <<32>>}
           \* a  \\  '  "  u  d83d  de00  0041  n  /  \x01  é   
      [] UnitSet = "singular" -> {<<46, 97>>, <<91, 48, 93>>, <<91, 48, 44, 49, 93>>, <<91, 39, 97, 39, 44, 39, 98, 39, 93>>, <<91, 42, 93>>, <<46, 46, 97>>, <<91, 48, 58, 49, 93>>, <<91, 63, 64, 93>>, <<32>>, <<46, 42>>, <<91, 45, 49, 93>>, <<91, 39, 97, 39, 93>>}
           \* .a  [0]  [0,1]  ['a','b']  [*]  ..a  [0:1]  [?@]     .*  [-1]  ['a']
\* templates <<prefix, suffix>>: the text checked is prefix \o body \o suffix
Templates ==
    CASE UnitSet = "logic" -> {<<<<36, 91, 63>>, <<93>>>>}
           \* $[? ... ]
      [] UnitSet = "calls" -> {<<<<36, 91, 63>>, <<93>>>>, <<<<36, 91, 63, 108, 101, 110, 103, 116, 104, 40>>, <<41, 61, 61, 49, 93>>>>}
           \* $[? ... ]   $[?length( ... )==1]
      [] UnitSet = "select" -> {<<<<36>>, <<>>>>, <<<<36, 91>>, <<93>>>>}
           \* $ ...    $[ ... ]
      [] UnitSet = "lits" -> {<<<<36, 91, 63, 64, 61, 61>>, <<93>>>>, <<<<36, 91, 63>>, <<60, 49, 93>>>>}
           \* $[?@== ... ]   $[? ... <1]
      [] UnitSet = "strs" -> {<<<<36, 91, 39>>, <<39, 93>>>>, <<<<36, 91, 34>>, <<34, 93>>>>, <<<<36, 91, 63, 64, 61, 61, 39>>, <<39, 93>>>>}
           \* $[' ... ']   $[" ... "]   $[?@==' ... ']
      [] UnitSet = "singular" -> {<<<<36, 91, 63, 64>>, <<61, 61, 49, 93>>>>, <<<<36, 91, 63, 49, 60, 36>>, <<93>>>>}
           \* $[?@ ... ==1]   $[?1<$ ... ]

text == tpl[1] \o body \o tpl[2]
Init == tpl \in Templates /\ body = <<>> /\ n = 0
Grow == /\ n < MaxUnits
        /\ \E u \in Units : body' = body \o u
        /\ n' = n + 1
        /\ UNCHANGED tpl
Spec == Init /\ [][Grow]_pvars

Lo == IJsonLo
Hi == IJsonHi
Impl == ImplCompile(text, Builtins, Lo, Hi)
Rfc  == CompileVerdict(text, Builtins, Lo, Hi)

\* ("lexer": Lexer.backup() / ignore_whitespace() raised - a JSONPathSyntaxError / JSONPathLexerError)
T15_NoCrash == Impl.ok \/ Impl.kind \in {"syntax", "type", "name", "index", "lexer", "numbig"}
T15_Accept  == Rfc.v = "accept" => (Impl.ok /\ NF(Impl.v) = NF(Parse(text, TRUE).v))
T15_Reject  == Rfc.v = "reject" => ~Impl.ok

(* ---- T16: the implementation-shaped evaluator (Evaluator.tla) refines Eval.tla ------------------------- *)
\* on the query the implementation-shaped parser built vs the RFC's parse of the same text, over documents
\* that tell the units' names and literals apart (object / array / scalar roots, every kind as a child)
nA == <<97>>  nB == <<98>>  nC == <<99>>
N1 == Num(1, 0)  N0 == Num(0, 0)
MCDocSeq == <<
    Obj(<<Mem(nA, N1), Mem(nB, Arr(<<N1, Obj(<<Mem(nA, Str(nA))>>)>>)), Mem(nC, Null)>>),
    Arr(<<N1, Arr(<<N0, N1>>), Obj(<<Mem(nA, Arr(<<N1>>))>>), Str(nA), Bool(TRUE)>>),
    Obj(<<Mem(nA, Obj(<<Mem(nA, N1), Mem(nB, Str(nC))>>)), Mem(nB, Str(nB))>>),
    Arr(<<Obj(<<Mem(nA, N1)>>), Obj(<<Mem(nA, N0), Mem(nB, N1)>>), Obj(<<Mem(nA, Str(nA))>>), Obj(<<Mem(nA, Bool(TRUE))>>),
          Obj(<<Mem(nA, Null)>>), Obj(<<Mem(nA, Arr(<<N1>>))>>), N1, Str(nC), Arr(<<>>), Obj(<<>>)>>),
    N1, Str(nA) >>
MCDocs == {MCDocSeq[i] : i \in 1..Len(MCDocSeq)}
T16 == (Impl.ok /\ Rfc.v = "accept") =>
           \A d \in MCDocs : DcSegs(Impl.v, d, Builtins) \/ ImplFind(Impl.v, d, Builtins) = Find(Parse(text, TRUE).v, d, Builtins)

(* ---- T2: the serialiser of the specification (Unparse.tla) and its parser agree ------------------------------ *)
T2 == (Impl.ok /\ Rfc.v = "accept") =>
          LET t == Unparse(Impl.v)
              p == Parse(t, TRUE)
          IN  p.ok /\ NF(p.v) = NF(Impl.v) /\ StringsCanonical(t)

\* export for the conformance run: the text and what the implementation-shaped model says
Export == (n > ExportAllUpTo /\ ~Impl.ok /\ Impl.kind = "syntax") \/ PrintT("GEN " \o ToJson([q |-> text, ok |-> Impl.ok, kind |-> IF Impl.ok THEN "" ELSE Impl.kind,
                                   rfc |-> Rfc.v, why |-> Rfc.why, ast |-> IF Impl.ok THEN Impl.v ELSE <<>>,
                                   \* what the implementation-shaped evaluator returns on each document ("dc": not pinned)
                                   res |-> IF Impl.ok /\ Rfc.v = "accept"
                                           THEN [i \in 1..Len(MCDocSeq) |->
                                                    IF DcSegs(Impl.v, MCDocSeq[i], Builtins) THEN <<"dc">>
                                                    ELSE LET nl == ImplFind(Impl.v, MCDocSeq[i], Builtins) IN [k \in 1..Len(nl) |-> nl[k].loc]]
                                           ELSE <<>>,
                                   \* the specification's own canonical text of the query: one more valid input
                                   canon |-> IF Impl.ok /\ Rfc.v = "accept" THEN Unparse(Impl.v) ELSE <<>>]))
=============================================================================
