#!/venv/bin/python
"""Differential test for patch B (function_extensions: match/search/length ...).

Imports the unmodified package (a copy made before any change, in
/tmp/out11/G6/orig_pkg) and the patched one (the worktree /tmp/wt11/G6) side by
side in one process and compares

  1. map_re() on random strings (dots, escapes, brackets, line ends, Unicode);
  2. direct calls of Match / Search / Length / Count / Value with every kind of
     argument: valid and invalid I-Regexps, patterns that I-Regexp accepts and
     the regex engine rejects, non-strings in either position, str subclasses,
     lone surrogates, NUL, very long patterns, empty containers, huge and tiny
     numbers, nodelists, Nothing - the value or the exception class;
  3. queries using the five functions evaluated with find() on generated
     documents, patterns given as literals and taken from the document
     (accept/reject, error class, offset inside the text, nodes);
  4. the same calls from several threads with a tiny cache (constant eviction)
     and with the default cache, on the patched copy against the sequential
     answers of the unmodified copy;
  5. that the cache stays within its bound and that answers do not depend on
     what was asked before (a fresh process-wide cache, a warm one, a full
     one: same answers).

Usage: diff_B.py [scale, default 1.0] [seed]
"""

from __future__ import annotations

import importlib
import random
import sys
import threading
import time
from types import SimpleNamespace

ORIG_PATH = "/tmp/out11/G6/orig_pkg"
NEW_PATH = "/tmp/wt11/G6"
PKG = "jsonpath_rfc9535"


def load(path: str) -> SimpleNamespace:
    for name in [n for n in sys.modules if n == PKG or n.startswith(PKG + ".")]:
        del sys.modules[name]
    sys.path.insert(0, path)
    try:
        pkg = importlib.import_module(PKG)
        mods = {
            n: m for n, m in sys.modules.items() if n == PKG or n.startswith(PKG + ".")
        }
    finally:
        sys.path.remove(path)
        for name in [n for n in sys.modules if n == PKG or n.startswith(PKG + ".")]:
            del sys.modules[name]
    assert pkg.__file__.startswith(path), (pkg.__file__, path)
    fx = mods[PKG + ".function_extensions"]
    return SimpleNamespace(
        path=path,
        pkg=pkg,
        mods=mods,
        Env=pkg.JSONPathEnvironment,
        Error=mods[PKG + ".exceptions"].JSONPathError,
        NodeList=mods[PKG + ".node"].JSONPathNodeList,
        Node=mods[PKG + ".node"].JSONPathNode,
        NOTHING=mods[PKG + ".filter_expressions"].NOTHING,
        pattern_mod=mods[PKG + ".function_extensions._pattern"],
        match=fx.Match(),
        search=fx.Search(),
        length=fx.Length(),
        count=fx.Count(),
        value=fx.Value(),
    )


ORIG = load(ORIG_PATH)
NEW = load(NEW_PATH)
assert ORIG.Env is not NEW.Env
CACHE = getattr(NEW.pattern_mod, "_matchers", None)

DIFFS: list = []


def diff(what: str, *detail: object) -> None:
    DIFFS.append((what, tuple(repr(d)[:240] for d in detail) if len(DIFFS) < 40 else ()))


# --------------------------------------------------------------------------
# generators

ATOMS = ["a", "b", "c", "ab", "abc", "1", " ", "é", "中", "\U0001f600", "-", "_", "Z"]
ESCAPES = ["\\.", "\\\\", "\\[", "\\]", "\\(", "\\)", "\\*", "\\+", "\\?", "\\{", "\\}",
           "\\|", "\\^", "\\$", "\\-", "\\n", "\\r", "\\t"]
CATEGORIES = ["\\p{L}", "\\p{Lu}", "\\P{L}", "\\p{Nd}", "\\p{N}", "\\P{Nd}", "\\p{Zs}",
              "\\p{So}", "\\p{Cs}", "\\p{Co}", "\\p{Ll}"]
CLASSES = ["[ab]", "[^ab]", "[a-c]", "[^a-c]", "[.]", "[a.]", "[^.]", "[\\.]", "[a\\-c]",
           "[-a]", "[a-]", "[\\p{L}]", "[^\\p{Lu}1]", "[\\n\\r]", "[^\\n]", "[é-中]",
           "[\U0001f600]", "[\\]]", "[\\[]", "[a\\]b.]", "[.-a]", "[ -~]"]
QUANT = ["*", "+", "?", "{2}", "{1,2}", "{0,}", "{2,}", "{0}", "{1,1}", "{10}"]
# accepted by the regex engine but not I-Regexp, or the other way round, or by neither
ODD = ["\\d", "\\w+", "\\s", "\\bfoo", "^a", "a$", "^a$", "(?i)a", "a*?", "a+?", "a??",
       "(?:a)", "(?=a)", "(a)\\1", "\\1", "a{2,1}", "[b-a]", "\\p{Xx}", "\\p{IsGreek}",
       "\\p{Latin}", "[[:alpha:]]", "[a&&b]", "[[a]]", "[a--b]", "(", ")", "[", "]", "a{",
       "a{,2}", "*", "+a", "a**", "a|*", "\\", "a\\", "\\q", "\\u0041", "\\x41", "\\0",
       "[^]", "[]", "[a", "a]", "{", "}", "a{1", "a{1,", "(?P<n>a)", "(?#c)", "\\Z", "\\A",
       "\\N{DIGIT ONE}", "\\X", "[\\d]", "[\\w]", "\\p{L", "\\p", "\\P{}", "a{1,2}{3}",
       "\ud800", "a\udc00", "\x00", "a\x00b", "(?V1)a", "(?e)(a){e<=1}", "a{e}", "\\K",
       "(*PRUNE)", "(?r)a", "(?|a)", "\\L<x>", "\\m", "\\M", "\\G", "[\\p{L}--a]"]


class Gen:
    def __init__(self, rng: random.Random) -> None:
        self.r = rng

    def atom(self, depth: int) -> str:
        r = self.r.random()
        if r < 0.3:
            return self.r.choice(ATOMS)
        if r < 0.45:
            return "."
        if r < 0.55:
            return self.r.choice(ESCAPES)
        if r < 0.63:
            return self.r.choice(CATEGORIES)
        if r < 0.8:
            return self.r.choice(CLASSES)
        if depth < 3:
            return "(" + self.regexp(depth + 1) + ")"
        return self.r.choice(ATOMS)

    def piece(self, depth: int) -> str:
        a = self.atom(depth)
        if self.r.random() < 0.3:
            a += self.r.choice(QUANT)
        return a

    def branch(self, depth: int) -> str:
        return "".join(self.piece(depth) for _ in range(self.r.choice([0, 1, 1, 2, 2, 3, 4])))

    def regexp(self, depth: int = 0) -> str:
        n = self.r.choice([1, 1, 1, 2, 3])
        return "|".join(self.branch(depth) for _ in range(n))

    def mutate(self, p: str) -> str:
        chars = list(p)
        for _ in range(self.r.choice([1, 1, 2])):
            k = self.r.random()
            i = self.r.randrange(len(chars) + 1)
            if k < 0.4 and chars:
                del chars[min(i, len(chars) - 1)]
            elif k < 0.8:
                chars.insert(i, self.r.choice("()[]{}|*+?.\\^$-,0a\n\r\ud800\x00"))
            elif chars:
                j = self.r.randrange(len(chars))
                i = min(i, len(chars) - 1)
                chars[i], chars[j] = chars[j], chars[i]
        return "".join(chars)

    def pattern(self) -> str:
        r = self.r.random()
        if r < 0.62:
            return self.regexp()
        if r < 0.8:
            return self.mutate(self.regexp())
        if r < 0.93:
            o = self.r.choice(ODD)
            if self.r.random() < 0.4:
                o = self.r.choice([self.branch(1) + o, o + self.branch(1)])
            return o
        if r < 0.96:
            # too long to be cached
            return "(" + self.regexp() + ")" + "a?" * self.r.choice([260, 300, 600])
        return self.r.choice(["", ".", ".*", "..", "[.]", "\\.", ".|\\n", "(.)", ".{2}"])

    def subject(self) -> str:
        r = self.r.random()
        alphabet = ["a", "b", "c", "1", " ", ".", "\n", "\r", "é", "中", "\U0001f600", "Z",
                    "-", "]", "[", "\\", "\t", "_"]
        if r < 0.04:
            alphabet += ["\ud800", "\udc00", "\x00", " ", "\x85"]
        n = self.r.choice([0, 1, 1, 2, 2, 3, 4, 6, 10])
        if r > 0.99:
            n = 400
        return "".join(self.r.choice(alphabet) for _ in range(n))


class Str(str):
    """A str subclass, as some decoders produce."""


NON_STRINGS: list = [
    None, True, False, 0, 1, -1, 1.5, -0.0, 10**30, 1e308, 5e-324, float("nan"),
    float("inf"), [], {}, ["a"], {"a": "a"}, [[]], b"a", b"", bytearray(b"a"), (), ("a",),
    object(), 3 + 0j,
]


def outcome(fn, *args: object) -> tuple:
    try:
        res = fn(*args)
    except Exception as err:  # noqa: BLE001
        return ("raised", type(err).__name__)
    name = type(res).__name__
    if name == "Nothing":
        return ("NOTHING",)
    return (name, repr(res)[:80])


# --------------------------------------------------------------------------
# 1. map_re


def phase_map_re(rng: random.Random, n: int) -> int:
    alphabet = ["\\", ".", "[", "]", "^", "-", "a", "b", "\n", "\r", "(", ")", "|", "*",
                "{", "}", "p", "é", "\U0001f600", "\ud800", "\x00", "?"]
    g = Gen(rng)
    for i in range(n):
        if i % 3 == 0:
            p = g.pattern()
        else:
            p = "".join(rng.choice(alphabet) for _ in range(rng.choice([0, 1, 2, 3, 5, 8, 13, 40])))
        a = ORIG.pattern_mod.map_re(p)
        b = NEW.pattern_mod.map_re(p)
        if a != b:
            diff("map_re", p, a, b)
    return n


# --------------------------------------------------------------------------
# 2. direct calls


def phase_regex_calls(rng: random.Random, n: int) -> tuple:
    g = Gen(rng)
    pool: list = []
    true_answers = 0
    cases = 0
    for i in range(n):
        r = rng.random()
        if pool and r < 0.35:
            pattern: object = rng.choice(pool)  # asked before: a cache hit
        else:
            pattern = g.pattern()
            if len(pool) < 3000:
                pool.append(pattern)
            else:
                pool[rng.randrange(len(pool))] = pattern
        subject: object = g.subject()
        k = rng.random()
        if k < 0.04:
            pattern = rng.choice(NON_STRINGS + [ORIG.NOTHING])
        elif k < 0.08:
            subject = rng.choice(NON_STRINGS)
        elif k < 0.10:
            pattern = Str(pattern)
        elif k < 0.12:
            subject = Str(subject)
        elif k < 0.13:
            subject = pattern  # strings where something else is expected, and v.v.
        for which in ("match", "search"):
            po = pattern
            pn = pattern
            so, sn = subject, subject
            if pattern is ORIG.NOTHING:
                pn = NEW.NOTHING
            a = outcome(getattr(ORIG, which), so, po)
            b = outcome(getattr(NEW, which), sn, pn)
            cases += 1
            if a != b:
                diff(which, subject, pattern, a, b)
            if a == ("bool", "True"):
                true_answers += 1
        if CACHE is not None and i % 5000 == 0 and len(CACHE) > CACHE.maxsize:
            diff("cache bound exceeded", len(CACHE), CACHE.maxsize)
    return cases, true_answers


def nodelist(ns: SimpleNamespace, values: list):
    return ns.NodeList(
        ns.Node(value=v, location=(i,), root=values) for i, v in enumerate(values)
    )


def phase_other_calls(rng: random.Random, n: int) -> int:
    from collections import OrderedDict, UserDict, UserList, defaultdict, deque

    class L(list):
        pass

    class D(dict):
        pass

    class BadLen:
        def __len__(self) -> int:
            raise ValueError("no")

    class NegLen:
        def __len__(self) -> int:
            return -1

    class TypeErrLen:
        def __len__(self) -> int:
            raise TypeError("no")

    extras: list = [
        "", "a", "\U0001f600", "é", "\ud800", "\x00" * 3, "a" * 10000, Str("abc"),
        [], [1], [[]], [None] * 1000, L([1, 2]), {}, {"a": 1}, {"": {}}, D(a=1),
        OrderedDict(a=1, b=2), defaultdict(list, a=[]), UserDict(a=1), UserList([1]),
        deque([1, 2]), (), (1, 2), set(), {1}, frozenset([1]), b"ab", bytearray(b"abc"),
        range(5), memoryview(b"abc"), BadLen(), NegLen(), TypeErrLen(), object(), len,
        True, False, None, 0, 1, -1, 2**53, 2**53 + 1, 10**400, 0.0, -0.0, 1.5, 1e308,
        5e-324, float("inf"), float("nan"), 1j,
    ]
    cases = 0
    for i in range(n):
        obj = rng.choice(extras)
        a = outcome(ORIG.length, obj)
        b = outcome(NEW.length, obj)
        cases += 1
        if a != b:
            diff("length", obj, a, b)
        values = [rng.choice(extras) for _ in range(rng.choice([0, 1, 1, 2, 3]))]
        for fname in ("count", "value", "length"):
            a = outcome(getattr(ORIG, fname), nodelist(ORIG, values))
            b = outcome(getattr(NEW, fname), nodelist(NEW, values))
            cases += 1
            if a != b:
                diff(fname + " of a nodelist", values, a, b)
        # arguments of the wrong sort
        for fname in ("count", "value"):
            if isinstance(obj, defaultdict):
                continue  # value() would add a member: the two calls would differ
            a = outcome(getattr(ORIG, fname), obj)
            b = outcome(getattr(NEW, fname), obj)
            cases += 1
            if a != b:
                diff(fname + " of a non-nodelist", obj, a, b)
    a = outcome(ORIG.length, ORIG.NOTHING)
    b = outcome(NEW.length, NEW.NOTHING)
    if a != b:
        diff("length(Nothing)", a, b)
    return cases + 1


# --------------------------------------------------------------------------
# 3. queries


def quote(rng: random.Random, s: str) -> str:
    q = rng.choice("'\"")
    out = []
    for ch in s:
        if ch == q or ch == "\\":
            out.append("\\" + ch)
        elif ord(ch) < 0x20:
            out.append(f"\\u{ord(ch):04x}")
        elif 0xD800 <= ord(ch) <= 0xDFFF:
            out.append("?")
        else:
            out.append(ch)
    return q + "".join(out) + q


def make_documents(rng: random.Random, g: Gen) -> list:
    def scalar() -> object:
        r = rng.random()
        if r < 0.5:
            return g.subject()
        if r < 0.7:
            return g.pattern()
        return rng.choice([None, True, False, 0, 1, 2, 3, -1, 1.5, 10**30, 1e308, 5e-324,
                           -0.0, [], {}, "", "abc"])

    def item() -> object:
        r = rng.random()
        if r < 0.55:
            return {
                k: (scalar() if rng.random() < 0.8 else [scalar() for _ in range(rng.randrange(4))])
                for k in rng.sample(["a", "b", "p", "s", "é"], rng.choice([0, 1, 2, 3, 4]))
            }
        if r < 0.75:
            return [scalar() for _ in range(rng.choice([0, 1, 2, 3, 5]))]
        return scalar()

    docs: list = []
    for _ in range(60):
        if rng.random() < 0.7:
            docs.append([item() for _ in range(rng.choice([0, 1, 2, 4, 6]))])
        else:
            docs.append({k: item() for k in rng.sample(["a", "b", "p", "s", "x", "y"], rng.choice([0, 2, 4]))})
    docs += [[], {}, "abc", 0, None, ["abc", "a.c", "a\nc", ["abc"], {"a": "abc"}]]
    deep: object = "abc"
    for i in range(140):
        deep = {"a": deep, "s": "ab"} if i % 2 else [deep, "abc"]
    docs.append(deep)
    cyc: dict = {"a": "abc", "p": "a.*", "s": ["abc"]}
    cyc["b"] = cyc
    docs.append(cyc)
    return docs


def phase_queries(rng: random.Random, n: int) -> tuple:
    g = Gen(rng)
    docs = make_documents(rng, g)
    env_o, env_n = ORIG.Env(), NEW.Env()
    operands = ["@", "@.a", "@.s", "@.p", "@[0]", "@[1]", "@['é']", "$.p", "$[0]", "$.a",
                "$[0].p", "@.a.a", "@[-1]"]
    plural = ["@.*", "@..a", "@[*]", "$..p", "@[0,1]", "@..*", "@[0:2]", "$.*", "@.a", "@"]
    cmp_ops = ["==", "!=", "<", "<=", ">", ">="]
    numbers = ["0", "1", "2", "3", "4", "10", "-1", "1.0", "2e0", "1e308", "3.5"]
    queries = cases = accepted = evals = 0
    while queries < n:
        r = rng.random()
        if r < 0.5:
            fn = rng.choice(["match", "search"])
            subj = rng.choice(operands) if rng.random() < 0.85 else quote(rng, g.subject())
            k = rng.random()
            if k < 0.75:
                pat = quote(rng, g.pattern())
            elif k < 0.95:
                pat = rng.choice(operands)
            else:
                pat = rng.choice(["1", "null", "true", "@.*", "length(@)", "count(@.*)"])
            expr = f"{fn}({subj}, {pat})"
            if rng.random() < 0.2:
                expr = "!" + expr
            if rng.random() < 0.15:
                other = rng.choice(["match", "search"])
                expr += rng.choice([" && ", " || "]) + f"{other}({rng.choice(operands)}, {quote(rng, g.pattern())})"
        elif r < 0.7:
            arg = rng.choice(operands + ["value(@.*)", "value(@..a)", quote(rng, g.subject()), "@.*", "1", "null"])
            rhs = rng.choice(numbers + ["length(@.a)", "count(@.*)", "@.a", "null"])
            expr = f"length({arg}) {rng.choice(cmp_ops)} {rhs}"
        elif r < 0.85:
            arg = rng.choice(plural + ["1", "'a'", "length(@)"])
            expr = f"count({arg}) {rng.choice(cmp_ops)} {rng.choice(numbers + ['length(@)'])}"
        else:
            arg = rng.choice(plural + ["1", "count(@.*)"])
            rhs = rng.choice(numbers + [quote(rng, g.subject()), "@.a", "null", "value(@..s)"])
            expr = f"value({arg}) {rng.choice(cmp_ops)} {rhs}"
            if rng.random() < 0.3:
                expr = f"{rng.choice(['match', 'search'])}(value({arg}), {quote(rng, g.pattern())})"
        if rng.random() < 0.05:
            expr = g.mutate(expr)
        query = rng.choice(["$", "$", "$", "$..", "$.a", "$[*]"]) + f"[?{expr}]"
        if query.startswith("$..["):
            pass
        queries += 1
        cases += 1
        try:
            co = ("ok", env_o.compile(query))
        except Exception as err:  # noqa: BLE001
            co = ("err", err)
        try:
            cn = ("ok", env_n.compile(query))
        except Exception as err:  # noqa: BLE001
            cn = ("err", err)
        if co[0] != cn[0]:
            diff("accept/reject", query, co, cn)
            continue
        if co[0] == "err":
            eo, en = co[1], cn[1]
            if type(eo).__name__ != type(en).__name__:
                diff("error class", query, eo, en)
            elif isinstance(en, NEW.Error):
                tok = getattr(en, "token", None)
                if tok is None or not 0 <= tok.index <= len(query):
                    otok = getattr(eo, "token", None)
                    if otok is not None and 0 <= otok.index <= len(query):
                        diff("error offset", query, str(eo), str(en))
                if str(eo) != str(en):
                    diff("error message (not changed by this patch)", query, str(eo), str(en))
            continue
        accepted += 1
        if str(co[1]) != str(cn[1]):
            diff("str(query)", query, str(co[1]), str(cn[1]))
        for doc in rng.sample(docs, 3):
            evals += 1
            cases += 1
            try:
                ro = ("ok", [(x.location, id(x.value)) for x in co[1].find(doc)])
            except Exception as err:  # noqa: BLE001
                ro = ("err", type(err).__name__)
            try:
                rn = ("ok", [(x.location, id(x.value)) for x in cn[1].find(doc)])
            except Exception as err:  # noqa: BLE001
                rn = ("err", type(err).__name__)
            if ro != rn:
                diff("find()", query, doc, ro, rn)
    return cases, accepted, evals


# --------------------------------------------------------------------------
# 4. threads, 5. cache bound and independence from history


def phase_threads(rng: random.Random, n: int) -> int:
    g = Gen(rng)
    patterns = [g.pattern() for _ in range(700)]
    subjects = [g.subject() for _ in range(300)] + [None, 1, [], b"a"]
    work = [
        (rng.choice(["match", "search"]), rng.choice(subjects), rng.choice(patterns))
        for _ in range(n)
    ]
    expected = [outcome(getattr(ORIG, w), s, p) for w, s, p in work]
    env_o, env_n = ORIG.Env(), NEW.Env()
    doc = [{"a": s, "p": p} for (_, s, p) in work[:400]]
    q = "$[?match(@.a, @.p) || search(@.a, @.p)]"
    expected_q = [(x.location, id(x.value)) for x in env_o.find(q, doc)]
    total = 0
    for maxsize in (4, 64, None):
        if CACHE is not None:
            CACHE.clear()
            old = CACHE.maxsize
            if maxsize is not None:
                CACHE.maxsize = maxsize
        problems: list = []

        def worker(tid: int) -> None:
            order = list(range(len(work)))
            random.Random(tid).shuffle(order)
            for j, i in enumerate(order):
                w, s, p = work[i]
                got = outcome(getattr(NEW, w), s, p)
                if got != expected[i]:
                    problems.append((w, s, p, expected[i], got))
                if j % 4000 == 0:
                    res = [(x.location, id(x.value)) for x in env_n.find(q, doc)]
                    if res != expected_q:
                        problems.append(("query", q))

        threads = [threading.Thread(target=worker, args=(t,)) for t in range(8)]
        for t in threads:
            t.start()
        for t in threads:
            t.join()
        total += 8 * len(work)
        for p in problems[:5]:
            diff("threaded", maxsize, *p)
        if CACHE is not None:
            if len(CACHE) > CACHE.maxsize:
                diff("cache bound exceeded", len(CACHE), CACHE.maxsize)
            CACHE.maxsize = old
    return total


def phase_history(rng: random.Random, n: int) -> int:
    """The same questions with a cold, a warm and an overflowing cache."""
    g = Gen(rng)
    work = [(rng.choice(["match", "search"]), g.subject(), g.pattern()) for _ in range(n)]
    expected = [outcome(getattr(ORIG, w), s, p) for w, s, p in work]
    total = 0
    for label in ("cold", "warm", "reversed", "overflowing"):
        if CACHE is not None and label == "cold":
            CACHE.clear()
        if CACHE is not None and label == "overflowing":
            for i in range(CACHE.maxsize + 50):
                NEW.match("x", f"filler{i}")
        order = range(len(work)) if label != "reversed" else range(len(work) - 1, -1, -1)
        for i in order:
            w, s, p = work[i]
            got = outcome(getattr(NEW, w), s, p)
            total += 1
            if got != expected[i]:
                diff("history " + label, w, s, p, expected[i], got)
        if CACHE is not None and len(CACHE) > CACHE.maxsize:
            diff("cache bound exceeded", label, len(CACHE), CACHE.maxsize)
    return total


def main() -> int:
    scale = float(sys.argv[1]) if len(sys.argv) > 1 else 1.0
    seed = int(sys.argv[2]) if len(sys.argv) > 2 else 20261005
    rng = random.Random(seed)
    started = time.time()
    print(f"seed {seed}; patched copy has a matcher cache: {CACHE is not None}")

    n1 = phase_map_re(rng, int(60000 * scale))
    print(f"map_re strings compared            : {n1}   [{time.time() - started:.0f}s]", flush=True)
    n2, trues = phase_regex_calls(rng, int(90000 * scale))
    print(f"match/search calls compared        : {n2} ({trues} true)   [{time.time() - started:.0f}s]", flush=True)
    n3 = phase_other_calls(rng, int(12000 * scale))
    print(f"length/count/value calls compared  : {n3}   [{time.time() - started:.0f}s]", flush=True)
    n4, acc, evals = phase_queries(rng, int(40000 * scale))
    print(f"queries + find() compared          : {n4} ({acc} queries accepted, {evals} evaluations)   [{time.time() - started:.0f}s]", flush=True)
    n5 = phase_threads(rng, int(6000 * scale))
    print(f"threaded calls compared (8 threads): {n5}   [{time.time() - started:.0f}s]", flush=True)
    n6 = phase_history(rng, int(5000 * scale))
    print(f"history-independence calls         : {n6}   [{time.time() - started:.0f}s]", flush=True)
    print(f"total cases                        : {n1 + n2 + n3 + n4 + n5 + n6}")
    print(f"DIFFERENCES                        : {len(DIFFS)}")
    for what, detail in DIFFS[:40]:
        print("  *", what, *detail)
    return 1 if DIFFS else 0


if __name__ == "__main__":
    sys.exit(main())
