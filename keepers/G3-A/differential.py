"""Differential test for rewrite A: patched jsonpath_rfc9535 (selectors.py) vs the original.

Usage:  /venv/bin/python diff_A.py [PATCHED_ROOT] [ORIG_ROOT]

PATCHED_ROOT is a directory containing the patched `jsonpath_rfc9535` package
(default /tmp/wt11/G3), ORIG_ROOT one containing the unmodified package
(default /tmp/out11/G3/orig_pkg). Both copies are imported into this one
process (the package uses absolute self-imports only at import time, so the
two copies are loaded one after the other with sys.modules purged in between).

Every "case" is one (query, document, environment-mode) triple evaluated by
both libraries. Compared: accepted/rejected, error CLASS name, offset of the
error inside the query text, line/column printed in the message, one-line
messages, str(query), find()/finditer()/find_one() results (location, path,
value identity), purity of the document, recursion errors on deep and cyclic
data, threaded and interleaved evaluation, and - in nondeterministic mode -
the complete SET of results reachable under every outcome of the random calls.
"""

from __future__ import annotations

import collections
import copy
import importlib
import itertools
import math
import random
import sys
import threading
import time

# Rewrite A keeps the sequence of calls into `random` unchanged, so with the
# same seed the nondeterministic results must be identical, not just a
# permitted permutation. Rewrite B changes the calls; there only the multiset
# of nodes and the exhaustively enumerated set of orderings are compared.
SAME_RANDOM_STREAM = True

PATCHED_ROOT = sys.argv[1] if len(sys.argv) > 1 else "/tmp/wt11/G3"
ORIG_ROOT = sys.argv[2] if len(sys.argv) > 2 else "/tmp/out11/G3/orig_pkg"
SEED = int(sys.argv[3]) if len(sys.argv) > 3 else 20261005

PKG = "jsonpath_rfc9535"


class Lib:
    """One imported copy of the package."""

    def __init__(self, root: str, label: str) -> None:
        for name in [m for m in sys.modules if m == PKG or m.startswith(PKG + ".")]:
            del sys.modules[name]
        sys.path.insert(0, root)
        try:
            self.pkg = importlib.import_module(PKG)
            self.selectors = importlib.import_module(PKG + ".selectors")
            self.segments = importlib.import_module(PKG + ".segments")
            self.fx = importlib.import_module(PKG + ".function_extensions")
            self.exceptions = importlib.import_module(PKG + ".exceptions")
        finally:
            sys.path.remove(root)
        for name in [m for m in sys.modules if m == PKG or m.startswith(PKG + ".")]:
            del sys.modules[name]
        assert self.pkg.__file__.startswith(root), (self.pkg.__file__, root)
        self.label = label
        self.Env = self.pkg.JSONPathEnvironment
        self.Error = self.pkg.JSONPathError

        class NDEnv(self.Env):  # type: ignore[name-defined,misc]
            nondeterministic = True

        class SmallIntEnv(self.Env):  # type: ignore[name-defined,misc]
            max_int_index = 5
            min_int_index = -5

        class ShallowEnv(self.Env):  # type: ignore[name-defined,misc]
            max_recursion_depth = 7

        class ShallowNDEnv(self.Env):  # type: ignore[name-defined,misc]
            max_recursion_depth = 7
            nondeterministic = True

        lib = self

        class FuncEnv(self.Env):  # type: ignore[name-defined,misc]
            def setup_function_extensions(self) -> None:
                super().setup_function_extensions()
                fx = lib.fx
                T = fx.ExpressionType

                class Boom(fx.FilterFunction):
                    arg_types = [T.VALUE]
                    return_type = T.LOGICAL

                    def __call__(self, v: object) -> bool:
                        if v == "boom":
                            raise lib.pkg.JSONPathTypeError("boom says no")
                        return isinstance(v, str)

                class First(fx.FilterFunction):
                    arg_types = [T.NODES]
                    return_type = T.VALUE

                    def __call__(self, nodes: object) -> object:
                        for n in nodes:  # type: ignore[attr-defined]
                            return n.value
                        return lib.pkg.NOTHING

                class Both(fx.FilterFunction):
                    arg_types = [T.LOGICAL, T.LOGICAL]
                    return_type = T.LOGICAL

                    def __call__(self, a: object, b: object) -> bool:
                        assert isinstance(a, bool) and isinstance(b, bool)
                        return a and b

                self.function_extensions["boom"] = Boom()
                self.function_extensions["first"] = First()
                self.function_extensions["both"] = Both()

        self.envs = {
            "default": self.Env(),
            "nd": NDEnv(),
            "smallint": SmallIntEnv(),
            "shallow": ShallowEnv(),
            "shallow_nd": ShallowNDEnv(),
            "func": FuncEnv(),
        }

    def set_random(self, obj: object) -> None:
        self.selectors.random = obj
        self.segments.random = obj


ORIG = Lib(ORIG_ROOT, "orig")
NEW = Lib(PATCHED_ROOT, "patched")
assert ORIG.selectors is not NEW.selectors
assert ORIG.selectors.__file__ != NEW.selectors.__file__

COUNTS: collections.Counter = collections.Counter()
FAILURES: list = []
MESSAGE_DIFFS: collections.Counter = collections.Counter()
STATS: collections.Counter = collections.Counter()


def fail(section: str, *info: object) -> None:
    FAILURES.append((section, info))
    if len(FAILURES) <= 25:
        print("DIFFERENCE", section, *[repr(i)[:300] for i in info], flush=True)


# --------------------------------------------------------------------------
# Observing one evaluation


def value_key(v: object) -> object:
    """Containers by identity (a node holds the very object), scalars strictly."""
    if isinstance(v, (dict, list)):
        return ("id", id(v))
    return (type(v).__name__, repr(v))


def node_key(n: object) -> tuple:
    return (n.location, n.path(), value_key(n.value))  # type: ignore[attr-defined]


def error_key(lib: Lib, err: BaseException, query: str) -> tuple:
    """What must agree about an error: class name, JSONPathError-ness, position."""
    is_jp = isinstance(err, lib.Error)
    cls = type(err).__name__
    tok = getattr(err, "token", None)
    index = getattr(tok, "index", None) if tok is not None else None
    text = None
    try:
        text = str(err)
    except Exception as e2:  # noqa: BLE001
        return ("ERR", cls, is_jp, "str() failed", type(e2).__name__, False), None
    one_line_ok = True
    pos_ok = True
    if is_jp and tok is not None:
        q = tok.query
        if not (isinstance(index, int) and 0 <= index <= len(q)):
            pos_ok = False
        else:
            line = q.count("\n", 0, index) + 1
            col = index - (q.rfind("\n", 0, index) + 1)
            if not text.endswith(f", line {line}, column {col}"):
                pos_ok = False
        msg = text.rsplit(", line ", 1)[0]
        # the message proper is one line unless it quotes multi-line query text
        if "\n" in msg and "\n" not in q:
            one_line_ok = False
    return ("ERR", cls, is_jp, index, pos_ok, one_line_ok), text


def observe(lib: Lib, env_name: str, query: str, doc: object, seed: int | None) -> tuple:
    """Compile and run through every entry point; return a comparable summary."""
    env = lib.envs[env_name]
    try:
        compiled = env.compile(query)
    except BaseException as err:  # noqa: BLE001
        key = error_key(lib, err, query)
        return ("REJECT", key[0]), key[1]
    text = str(compiled)
    out: list = ["OK", text, compiled.singular_query()]
    msg = None
    for how in ("find", "finditer", "find_one", "env.find"):
        if seed is not None:
            random.seed(seed)
        try:
            if how == "find":
                res = [node_key(n) for n in compiled.find(doc)]
            elif how == "finditer":
                res = [node_key(n) for n in compiled.finditer(doc)]
            elif how == "env.find":
                res = [node_key(n) for n in env.find(query, doc)]
            else:
                n = compiled.find_one(doc)
                res = None if n is None else node_key(n)
        except RecursionError as err:
            res = ("PYTHON RecursionError",)
        except BaseException as err:  # noqa: BLE001
            key = error_key(lib, err, query)
            res = key[0]
            msg = key[1]
        out.append(res)
    return tuple(map(freeze, out)), msg


def freeze(x: object) -> object:
    if isinstance(x, list):
        return tuple(freeze(i) for i in x)
    return x


def is_nd(env_name: str) -> bool:
    return env_name in ("nd", "shallow_nd")


def relax(summary: tuple) -> tuple:
    """For nondeterministic mode without a shared random stream: compare bags."""
    if summary[0] != "OK":
        return summary
    head = summary[:3]
    find, finditer, find_one, envfind = summary[3:7]

    def bag(r: object) -> object:
        if isinstance(r, tuple) and r and r[0] == "ERR":
            return r
        return tuple(sorted(r, key=repr))  # type: ignore[arg-type]

    f1 = find_one
    if isinstance(find, tuple) and not (find and find[0] == "ERR"):
        # find_one must be None iff there are no nodes, else one of the nodes
        f1 = (find_one is None) if not find else (find_one in find or "NOT A NODE")
    return head + (bag(find), bag(finditer), f1, bag(envfind))


def compare_case(section: str, env_name: str, query: str, doc: object, seed: int) -> None:
    COUNTS[section] += 1
    before = snapshot(doc)
    a, amsg = observe(ORIG, env_name, query, doc, seed)
    mid = snapshot(doc)
    b, bmsg = observe(NEW, env_name, query, doc, seed)
    after = snapshot(doc)
    if before != mid or mid != after:
        fail(section, "document modified", env_name, query)
    if a[0] != "OK":
        STATS[section + ": rejected by compile"] += 1
    elif isinstance(a[3], tuple) and a[3] and a[3][0] == "ERR":
        STATS[section + ": evaluation error " + a[3][1]] += 1
    elif a[3]:
        STATS[section + ": non-empty result"] += 1
    else:
        STATS[section + ": empty result"] += 1
    if is_nd(env_name) and not SAME_RANDOM_STREAM:
        a2, b2 = relax(a), relax(b)
    else:
        a2, b2 = a, b
    if a2 != b2:
        fail(section, env_name, query, short(doc), a2, b2)
    elif amsg != bmsg:
        MESSAGE_DIFFS[(amsg, bmsg)] += 1
    # entry points agree inside the patched library (deterministic envs)
    if b[0] == "OK" and not is_nd(env_name):
        find, finditer, find_one, envfind = b[3:7]
        if not (find == finditer == envfind):
            fail(section, "entry points disagree", env_name, query, b)
        elif isinstance(find, tuple) and not (find and find[0] == "ERR"):
            if find_one != (find[0] if find else None):
                fail(section, "find_one disagrees", env_name, query, b)
    # positions / one-line messages hold in the patched library
    for part in (b if b[0] == "OK" else (b[1],)):
        if isinstance(part, tuple) and part and part[0] == "ERR":
            if part[2] is not True:
                fail(section, "not a JSONPathError", env_name, query, part)
            elif part[4] is not True or part[5] is not True:
                fail(section, "bad error position/message", env_name, query, part)


def short(doc: object) -> str:
    try:
        r = repr(doc)
    except RecursionError:
        return "<deep>"
    return r[:200]


def snapshot(doc: object) -> object:
    """A structural fingerprint of the document that tolerates cycles/depth."""
    seen: dict = {}
    out: list = []
    stack = [doc]
    budget = 20000
    while stack and budget:
        budget -= 1
        v = stack.pop()
        if isinstance(v, (dict, list)):
            if id(v) in seen:
                out.append(("ref", seen[id(v)]))
                continue
            seen[id(v)] = len(seen)
            if isinstance(v, dict):
                out.append(("d", tuple(v.keys())))
                stack.extend(v.values())
            else:
                out.append(("l", len(v)))
                stack.extend(v)
        else:
            out.append((type(v).__name__, repr(v)))
    return tuple(out)


# --------------------------------------------------------------------------
# Generators

R = random.Random(SEED)

NAMES = [
    "a", "b", "c", "d", "", " ", "0", "1", "-1", "a b", "'", '"', "\\", "/",
    "é", "é", "\u0000", "\u001f", "\u007f", " ", "퟿",
    "", "￿", "\U0001f600", "\U0010ffff", "‮", "中文",
    "length", "*", "$", "@", "?", "true", "null", "\n", "\t", "A", "_x",
]

SCALARS = [
    None, True, False, 0, 1, -1, 2, 3, 10, 2**31, -(2**31), 2**53 - 1, 2**53,
    -(2**53) + 1, 2**63, -(2**64), 10**30, -(10**40), 0.0, -0.0, 1.0, 1.5, -2.5, 1e308,
    -1e308, 5e-324, 2.2250738585072014e-308, 1e-7, 9007199254740993.0,
    float("inf"), float("-inf"),
    "", "a", "b", "ab", "abc", "0", "1", "boom", "é", "é", "\U0001f600",
    "\U0001f600\U0001f600", "\u0000", "a\nb", "a\rb", " ", "퟿",
    "x" * 40, "[1,2]", "{}", " ", "\t",
]


def pick_name() -> str:
    return R.choice(["a", "a", "b", "c", "d"]) if R.random() < 0.55 else R.choice(NAMES)


def gen_doc(depth: int = 0) -> object:
    r = R.random()
    if depth >= 4 or r < 0.3:
        return R.choice(SCALARS)
    if r < 0.65:
        n = R.choice([0, 0, 1, 2, 3, 3, 4, 5, 6, 9])
        return [gen_doc(depth + 1) for _ in range(n)]
    n = R.choice([0, 0, 1, 2, 3, 4, 5])
    d: dict = collections.OrderedDict() if R.random() < 0.1 else {}
    for _ in range(n):
        d[pick_name()] = gen_doc(depth + 1)
    return d


class MyList(list):
    pass


class MyDict(dict):
    pass


def gen_doc_top() -> object:
    r = R.random()
    if r < 0.04:
        return R.choice(SCALARS)
    if r < 0.07:
        return MyList([gen_doc(1) for _ in range(R.randrange(5))])
    if r < 0.10:
        return MyDict({pick_name(): gen_doc(1) for _ in range(R.randrange(5))})
    if r < 0.14:
        # shared (aliased) sub-structures
        shared = gen_doc(2)
        return {"a": shared, "b": [shared, shared], "c": {"a": shared}}
    d = gen_doc(0)
    while not isinstance(d, (dict, list)):
        d = gen_doc(0)
    return d


INTS = [
    0, 1, 2, 3, 4, 5, 6, 7, 9, 10, -1, -2, -3, -4, -5, -6, -7, -10, 2**31, -(2**31),
    2**53 - 1, -(2**53) + 1, 2**53 - 2, 2**32 + 1,
]
BAD_INTS = [2**53, -(2**53), 2**53 + 1, 10**20, -(10**20), 2**63, -(2**64)]


def q_name_literal(name: str) -> str:
    quote = R.choice("'\"")
    out = []
    for ch in name:
        o = ord(ch)
        if ch == quote:
            out.append("\\" + ch)
        elif ch == "\\":
            out.append("\\\\")
        elif o < 0x20:
            out.append(R.choice(["\\u%04x" % o, "\\u%04X" % o]))
        elif ch == "/" and R.random() < 0.5:
            out.append("\\/")
        elif o > 0xFFFF and R.random() < 0.5:
            o -= 0x10000
            out.append("\\u%04x\\u%04x" % (0xD800 + (o >> 10), 0xDC00 + (o & 0x3FF)))
        elif o > 0x7F and o <= 0xFFFF and R.random() < 0.3:
            out.append("\\u%04x" % o)
        else:
            out.append(ch)
    return quote + "".join(out) + quote


def ws() -> str:
    return R.choice(["", "", "", " ", "  ", "\n", "\t", " \r\n "])


def gen_int(bad: float = 0.02) -> str:
    if R.random() < bad:
        return str(R.choice(BAD_INTS))
    return str(R.choice(INTS))


def gen_selector(depth: int) -> str:
    r = R.random()
    if r < 0.18:
        return q_name_literal(pick_name())
    if r < 0.36:
        return gen_int()
    if r < 0.62:
        parts = []
        for _ in range(2):
            parts.append(gen_int() if R.random() < 0.6 else "")
        s = parts[0] + ws() + ":" + ws() + parts[1]
        if R.random() < 0.6:
            step = R.choice(["", "1", "2", "3", "-1", "-2", "-3", "0", "7", gen_int()])
            s += ws() + ":" + ws() + step
        return s
    if r < 0.72:
        return "*"
    if depth > 2:
        return "*"
    return "?" + ws() + gen_logical(depth + 1)


def gen_segments(depth: int, n: int | None = None, singular: bool = False) -> str:
    out = []
    if n is None:
        n = R.choice([0, 1, 1, 1, 1, 1, 2, 2, 2, 2, 2, 2, 3, 3, 3, 3])
    for _ in range(n):
        r = R.random()
        if singular:
            if R.random() < 0.5:
                nm = R.choice(["a", "b", "c", "d", "_x", "A", "é"])
                out.append("." + nm if R.random() < 0.5 else "[" + q_name_literal(nm) + "]")
            else:
                out.append("[" + gen_int(0.0) + "]")
            continue
        desc = ".." if R.random() < 0.15 else ""
        if r < 0.2:
            nm = R.choice(["a", "b", "c", "d", "_x", "A", "é", "中文", "\U0001f600"])
            out.append((desc or ".") + nm)
        elif r < 0.3:
            out.append((desc or ".") + "*")
        else:
            k = R.choice([1, 1, 1, 2, 3])
            sels = [gen_selector(depth) for _ in range(k)]
            out.append(desc + "[" + ws() + (ws() + "," + ws()).join(sels) + ws() + "]")
    return ws().join(out) if R.random() < 0.2 else "".join(out)


def gen_literal() -> str:
    r = R.random()
    if r < 0.3:
        return R.choice(["0", "1", "-1", "2", "3", "1.5", "-2.5", "1e2", "1E-2", "-0", "0.0",
                         "9007199254740991", "1e400" if R.random() < 0.1 else "10",
                         "100000000000000000000000000000", "2.0", "5e-324"])
    if r < 0.7:
        return q_name_literal(R.choice(["a", "b", "ab", "abc", "", "0", "1", "boom",
                                        "é", "é", "\U0001f600", "\u0000", "x"]))
    return R.choice(["true", "false", "null"])


def gen_comparable(depth: int) -> str:
    r = R.random()
    if r < 0.4:
        return gen_literal()
    if r < 0.8:
        return R.choice("@@$") + gen_segments(depth, R.choice([0, 1, 1, 2]), singular=True)
    r = R.random()
    if r < 0.35:
        return "length(" + R.choice(["@", "@.a", "@[0]", "$", gen_literal()]) + ")"
    if r < 0.7:
        return "count(" + R.choice("@@$") + gen_segments(depth, R.choice([1, 1, 2])) + ")"
    if r < 0.9:
        return "value(" + R.choice("@@$") + gen_segments(depth, R.choice([1, 1, 2])) + ")"
    return "first(" + R.choice("@@$") + gen_segments(depth, 1) + ")"


def gen_basic(depth: int) -> str:
    r = R.random()
    if r < 0.3:
        neg = "!" + ws() if R.random() < 0.2 else ""
        return neg + R.choice("@@@$") + gen_segments(depth, R.choice([0, 1, 1, 2]))
    if r < 0.7:
        op = R.choice(["==", "!=", "<", "<=", ">", ">="])
        return gen_comparable(depth) + ws() + op + ws() + gen_comparable(depth)
    if r < 0.8:
        fn = R.choice(["match", "search"])
        pat = R.choice(["a", "a.*", ".", "[ab]+", "a|b", "\\\\d", "(", "x{2,3}", "\\\\p{L}"])
        neg = "!" if R.random() < 0.2 else ""
        return f"{neg}{fn}({R.choice(['@', '@.a', '@[0]'])}, '{pat}')"
    if r < 0.85:
        return "boom(" + R.choice(["@", "@", "@.a", "@[0]", "'boom'", "'x'"]) + ")"
    if r < 0.9:
        return "both(" + gen_basic(depth + 1) + ", " + gen_basic(depth + 1) + ")"
    neg = "!" if R.random() < 0.3 else ""
    return neg + "(" + ws() + gen_logical(depth + 1) + ws() + ")"


def gen_logical(depth: int) -> str:
    if depth > 3:
        return "@"
    n = R.choice([1, 1, 1, 2, 2, 3])
    out = gen_basic(depth)
    for _ in range(n - 1):
        out += ws() + R.choice(["&&", "||"]) + ws() + gen_basic(depth)
    return out


def gen_query() -> str:
    return "$" + (ws() if R.random() < 0.1 else "") + gen_segments(0)


def mutate(q: str) -> str:
    """Damage a query: the result is usually (not always) invalid."""
    if not q:
        return q
    k = R.randrange(6)
    i = R.randrange(len(q) + 1)
    junk = ["[", "]", "(", ")", ",", ":", "?", "@", "$", ".", "..", "*", "'", '"', "\\",
            "&&", "||", "!", "==", "<", "-0", "01", "1.", " ", "\n", " ", "\x00",
            "\ud800", "\U0001f600", "true", "TRUE", "00", "--1", "1e", "9007199254740992"]
    if k == 0:
        return q[:i] + R.choice(junk) + q[i:]
    if k == 1 and len(q) > 1:
        j = min(len(q), i + R.choice([1, 1, 2, 3]))
        return q[:i] + q[j:]
    if k == 2:
        return q[:i]
    if k == 3:
        return q[:i] + R.choice(junk) + q[i + 1:]
    if k == 4:
        return R.choice(junk) + q
    return q + R.choice(junk)


# --------------------------------------------------------------------------
# Sections


def section_slices() -> None:
    """Every combination of a bound set, on arrays of every small length."""
    vals = [None, -(2**53) + 1, -(2**31), -8, -7, -6, -5, -4, -3, -2, -1, 0, 1, 2, 3, 4,
            5, 6, 7, 8, 2**31, 2**53 - 1]
    steps = [None, -(2**53) + 1, -(2**31), -8, -7, -5, -4, -3, -2, -1, 0, 1, 2, 3, 4, 5,
             7, 8, 2**31, 2**53 - 1]
    docs: list = [[chr(97 + i) for i in range(n)] for n in range(0, 8)]
    docs += ["abcdef", {"0": 1, "1": 2}, 5, None]
    for env_name in ("default", "nd"):
        oe, ne = ORIG.envs[env_name], NEW.envs[env_name]
        for a, b, c in itertools.product(vals, vals, steps):
            if env_name == "nd" and R.random() < 0.8:
                continue
            q = "$[%s:%s%s]" % (
                "" if a is None else a,
                "" if b is None else b,
                "" if c is None else ":%s" % c,
            )
            qo, qn = oe.compile(q), ne.compile(q)
            if str(qo) != str(qn):
                fail("slices", "str", q, str(qo), str(qn))
            for d in docs:
                COUNTS["slices"] += 1
                ro = [node_key(n) for n in qo.find(d)]
                rn = [node_key(n) for n in qn.find(d)]
                if ro != rn:
                    fail("slices", q, d, ro, rn)
                elif isinstance(d, list):
                    # and both agree with the RFC 9535 reference procedure
                    ref = rfc_slice(len(d), a, b, c)
                    if [k[0][0] for k in rn] != ref:
                        fail("slices-rfc", q, d, rn, ref)
                f1 = qn.find_one(d)
                if (None if f1 is None else node_key(f1)) != (rn[0] if rn else None):
                    fail("slices", "find_one", q, d)


def rfc_slice(length: int, start: object, end: object, step: object) -> list:
    """RFC 9535 section 2.3.4.2.2, transcribed literally (O(1) iteration count guard)."""
    if step is None:
        step = 1
    if step == 0:
        return []

    def normalize(i: int, ln: int) -> int:
        return i if i >= 0 else ln + i

    if start is None:
        start = 0 if step >= 0 else length - 1  # type: ignore[operator]
    if end is None:
        end = length if step >= 0 else -length - 1  # type: ignore[operator]
    n_start = normalize(start, length)  # type: ignore[arg-type]
    n_end = normalize(end, length)  # type: ignore[arg-type]
    if step >= 0:  # type: ignore[operator]
        lower = min(max(n_start, 0), length)
        upper = min(max(n_end, 0), length)
    else:
        upper = min(max(n_start, -1), length - 1)
        lower = min(max(n_end, -1), length - 1)
    out = []
    if step > 0:  # type: ignore[operator]
        i = lower
        while i < upper:
            out.append(i)
            i += step  # type: ignore[operator]
    else:
        i = upper
        while lower < i:
            out.append(i)
            i += step  # type: ignore[operator]
    return out


def section_indices() -> None:
    vals = list(range(-12, 13)) + [2**31, -(2**31), 2**53 - 1, -(2**53) + 1, 2**53,
                                   -(2**53), 10**25, -(10**25)]
    docs: list = [[i * 10 for i in range(n)] for n in range(0, 11)]
    docs += ["abc", {"0": "zero", "-1": "minus", "1": "one"}, 7, None, True, [[1, 2], [3]],
             MyList([1, 2, 3])]
    for env_name in ("default", "nd", "smallint"):
        for i in vals:
            for form in ("$[%d]", "$[ %d ]", "$..[%d]", "$[%d, %d]", "$[*][%d]", "$[?@[%d]]",
                         "$[?@[%d] == 10]"):
                q = form.replace("%d", str(i))
                for d in docs:
                    compare_case("indices", env_name, q, d, 1)


def section_random_valid(n: int) -> None:
    envs = ["default", "default", "nd", "func", "smallint", "shallow"]
    for k in range(n):
        q = gen_query()
        for _ in range(3):
            d = gen_doc_top()
            compare_case("random-valid", R.choice(envs), q, d, R.randrange(10**9))
        if k % 5 == 0:
            compare_case("random-valid", "default", q, R.choice(SCALARS), 1)


def section_random_invalid(n: int) -> None:
    doc = {"a": [1, 2, {"b": "x"}], "b": "ab"}
    for _ in range(n):
        q = mutate(gen_query())
        if R.random() < 0.3:
            q = mutate(q)
        compare_case("random-invalid", R.choice(["default", "func", "smallint"]), q, doc, 1)
    hand = [
        "", "$[", "$[]", "$[,]", "$[1,]", "$[:::]", "$[1:2:3:4]", "$[01]", "$[-0]", "$[0:-0]",
        "$[1.0]", "$[1e2]", "$['a'", "$[\"a']", "$['\\x']", "$['\\ud800']", "$['\\udc00\\ud800']",
        "$[?]", "$[?@.a ==]", "$[?@.a == @.*]", "$[?length(@.*) == 1]", "$[?count(1) == 1]",
        "$[?nope(@)]", "$[?match(@)]", "$[?@ == (1)]", "$[?!(@.a) == 1]", "$ [0]", " $[0]",
        "$[0] ", "$.a.", "$..", "$...a", "$.1", "$[9007199254740992]", "$[-9007199254740992]",
        "$[0:9007199254740992]", "$[::9007199254740992]", "$[::-9007199254740992]",
        "$[1:2:\n9007199254740992]", "$[\n\n 9007199254740992]", "$[0,\n 1,\n 9007199254740992 ]",
        "$[?@[9007199254740992]]", "$[?@.a[1:9007199254740992] ]", "$[6]", "$[-6]", "$[0:6]",
        "$[::6]", "$[\n::-6]", "$[?@[6]]", "$[?boom(@.*)]", "$[?boom(@)==1]", "$[?first(@.*)]",
        "$[?TRUE]", "$[?@.a && ]", "$[?@.a &&& @.b]", "$[?@.a === 1]", "$['a',,'b']", "$[*,]",
        "$[?@.a]]", "$[[0]]", "$[0][", "$(0)", "$[0)", "$[?(@.a]", "$[?@.a)]",
    ]
    for q in hand:
        for env_name in ("default", "nd", "smallint", "func"):
            compare_case("hand-invalid", env_name, q, doc, 1)


def deep_list(depth: int, leaf: object = 1) -> object:
    d: object = leaf
    for _ in range(depth):
        d = [d]
    return d


def deep_dict(depth: int, leaf: object = 1) -> object:
    d: object = leaf
    for _ in range(depth):
        d = {"a": d}
    return d


def deep_mixed(depth: int) -> object:
    d: object = "leaf"
    for i in range(depth):
        d = {"a": d, "b": i} if i % 2 else [d, i]
    return d


def section_deep_cyclic() -> None:
    cyc_l: list = [1, 2]
    cyc_l.append(cyc_l)
    cyc_d: dict = {"a": 1}
    cyc_d["self"] = cyc_d
    cyc_2: dict = {"x": [1, {"y": None}]}
    cyc_2["x"][1]["y"] = cyc_2
    cyc_wide: dict = {}
    cyc_wide["p"] = cyc_wide
    cyc_wide["q"] = cyc_wide
    cyc_wide["r"] = [cyc_wide, cyc_wide]
    docs: list = [cyc_l, cyc_d, cyc_2, cyc_wide]
    for depth in (1, 2, 5, 6, 7, 8, 9, 50, 98, 99, 100, 101, 102, 150, 400, 3000):
        docs += [deep_list(depth), deep_dict(depth), deep_mixed(depth)]
    queries = [
        "$..*", "$..[*]", "$..[0]", "$..[-1]", "$..a", "$..['a','b']", "$..[::2]", "$..[::-1]",
        "$..[?@.a]", "$..[?@[0]]", "$..[?@ == 1]", "$..[0, 'a', *]", "$[*]", "$.*.*", "$[0][0][0]",
        "$.a.a.a", "$[?@..a]", "$[?count(@..*) > 2]", "$[?@..[0]]", "$..[?@..*]", "$[0:1]..[1:]",
        "$.self.self.self.a", "$[2][2][2][0]", "$[*][*][*][*][*]", "$[?@[2][2][1] == 2]",
        "$[-1][-1][0:2]", "$.x[1].y.x[0]",
    ]
    for env_name in ("default", "nd", "shallow", "shallow_nd"):
        for q in queries:
            for d in docs:
                t0 = time.time()
                compare_case("deep-cyclic", env_name, q, d, 3)
                if time.time() - t0 > 20:
                    fail("deep-cyclic", "too slow", env_name, q, short(d))


class Scripted:
    """A stand-in for the `random` module whose every outcome can be enumerated."""

    def __init__(self) -> None:
        self.script: list = []
        self.pos = 0
        self.arity: list = []

    def start(self, script: list) -> None:
        self.script = script
        self.pos = 0
        self.arity = []

    def choose(self, n: int) -> int:
        if n <= 1:
            return 0
        v = self.script[self.pos] if self.pos < len(self.script) else 0
        self.pos += 1
        self.arity.append(n)
        assert v < n
        return v

    def next_script(self) -> list | None:
        taken = [self.script[i] if i < len(self.script) else 0 for i in range(len(self.arity))]
        for i in reversed(range(len(taken))):
            if taken[i] + 1 < self.arity[i]:
                return taken[:i] + [taken[i] + 1]
        return None

    # the `random` API
    def randrange(self, start: int, stop: int | None = None) -> int:
        if stop is None:
            return self.choose(start)
        return start + self.choose(stop - start)

    def randint(self, a: int, b: int) -> int:
        return a + self.choose(b - a + 1)

    def choice(self, seq: list) -> object:
        return seq[self.choose(len(seq))]

    def shuffle(self, x: list) -> None:
        for i in reversed(range(1, len(x))):
            j = self.choose(i + 1)
            x[i], x[j] = x[j], x[i]

    def sample(self, population: list, k: int) -> list:
        pool = list(population)
        out = []
        for _ in range(k):
            # identical objects are interchangeable: branch on distinct ones only
            distinct: list = []
            for idx, o in enumerate(pool):
                if all(o is not pool[d] for d in distinct):
                    distinct.append(idx)
            j = distinct[self.choose(len(distinct))]
            out.append(pool.pop(j))
        return out

    def random(self) -> float:
        return self.choose(4) / 4.0

    def getrandbits(self, k: int) -> int:
        return self.choose(2**k)


def all_outcomes(lib: Lib, env_name: str, query: str, doc: object, cap: int) -> object:
    scripted = Scripted()
    lib.set_random(scripted)
    try:
        compiled = lib.envs[env_name].compile(query)
        results = set()
        firsts = set()
        script: list | None = []
        runs = 0
        while script is not None:
            runs += 1
            if runs > cap:
                return None
            scripted.start(script)
            try:
                res = tuple(node_key(n) for n in compiled.finditer(doc))
            except lib.Error as err:
                res = ("ERR", type(err).__name__)
            results.add(res)
            script = scripted.next_script()
        # find_one: its own (shorter, if evaluation is lazy) decision tree
        script = []
        runs = 0
        while script is not None:
            runs += 1
            if runs > cap:
                return None
            scripted.start(script)
            try:
                n = compiled.find_one(doc)
                firsts.add(None if n is None else node_key(n))
            except lib.Error as err:
                firsts.add(("ERR", type(err).__name__))
            script = scripted.next_script()
        return results, firsts
    finally:
        lib.set_random(random)


def gen_small_doc(depth: int = 0) -> object:
    r = R.random()
    if depth >= 3 or r < 0.35:
        return R.choice([1, 2, "a", None, True, 1.5, "b"])
    if r < 0.6:
        return [gen_small_doc(depth + 1) for _ in range(R.choice([0, 1, 2, 2, 3]))]
    d = {}
    for _ in range(R.choice([0, 1, 2, 2, 3, 3, 4])):
        d[R.choice(["a", "b", "c", "d", "e"])] = gen_small_doc(depth + 1)
    return d


def section_nd_sets(n: int) -> None:
    """In nondeterministic mode the SET of possible results must be unchanged."""
    fixed = [
        "$[*]", "$.*", "$[*, *]", "$[*][*]", "$..*", "$..[*]", "$[?@]", "$[?@ != 1]", "$[?@.a]",
        "$[*, 'a', 0]", "$[?@.*]", "$[?count(@.*) > 1]", "$..[?@]", "$..[?@.a]", "$.a[*]",
        "$.a.*", "$[?@[?@]]", "$[?@ == 1, ?@ == 2]", "$[0:2, *]", "$[?first(@.*) == 1]",
        "$[?value(@.*) == 1]", "$.*[?@ > 1]", "$[?$.*]", "$[?count($.*) == 2]", "$..a", "$..[0]",
        "$[?first($.*) == @]", "$[?first(@.*) == 'a']",
    ]
    done = skipped = 0
    while done < n:
        q = R.choice(fixed) if R.random() < 0.7 else gen_query()
        d = gen_small_doc()
        if not isinstance(d, (dict, list)):
            continue
        env_name = R.choice(["nd", "nd", "shallow_nd"]) if "first" not in q else "func"
        if env_name == "func":
            # nondeterministic + custom functions
            for lib in (ORIG, NEW):
                lib.envs["func"].nondeterministic = True
        try:
            try:
                o = all_outcomes(ORIG, env_name, q, d, 3000)
            except ORIG.Error:
                continue  # invalid random query
            if o is None:
                skipped += 1
                continue
            p = all_outcomes(NEW, env_name, q, d, 60000)
        finally:
            for lib in (ORIG, NEW):
                lib.envs["func"].__dict__.pop("nondeterministic", None)
        done += 1
        COUNTS["nd-sets"] += 1
        if o != p:
            fail("nd-sets", env_name, q, d, o, p)
    COUNTS["nd-sets-skipped-too-many-outcomes"] += skipped


def section_threads() -> None:
    """Shared environment and shared compiled queries, several threads."""
    pairs = []
    for _ in range(300):
        q = gen_query()
        try:
            ORIG.envs["default"].compile(q)
        except ORIG.Error:
            continue
        pairs.append((q, gen_doc_top()))
    for env_name in ("default", "nd", "func"):
        oenv, nenv = ORIG.envs[env_name], NEW.envs[env_name]
        expected = []
        for q, d in pairs:
            s, _ = observe(ORIG, env_name, q, d, 5)
            expected.append(relax(s) if is_nd(env_name) else s)
        compiled = {}
        for q, _d in pairs:
            try:
                compiled[q] = nenv.compile(q)
            except NEW.Error:
                compiled[q] = None
        errors: list = []
        start = threading.Barrier(8)

        def work(tid: int) -> None:
            rr = random.Random(tid)
            start.wait()
            order = list(range(len(pairs)))
            rr.shuffle(order)
            for i in order:
                q, d = pairs[i]
                exp = expected[i]
                if exp[0] != "OK":
                    continue
                COUNTS["threads"] += 1
                cq = compiled[q] if rr.random() < 0.5 else nenv.compile(q)
                try:
                    # two interleaved iterators over the same compiled query, one abandoned
                    it1 = iter(cq.finditer(d))
                    it2 = iter(cq.finditer(d))
                    got1, got2 = [], []
                    for _k in range(3):
                        for n in itertools.islice(it2, 1):
                            got2.append(node_key(n))
                    for n in it1:
                        got1.append(node_key(n))
                        if rr.random() < 0.3:
                            for n2 in itertools.islice(it2, 1):
                                got2.append(node_key(n2))
                    got: object = tuple(got1)
                except NEW.Error as err:
                    got = error_key(NEW, err, q)[0]
                    got2 = []
                except Exception as err:  # noqa: BLE001
                    errors.append((env_name, q, short(d), "crash", repr(err)))
                    continue
                want = exp[4]
                if is_nd(env_name):
                    ok = isinstance(got, tuple) and (
                        got == want or tuple(sorted(got, key=repr)) == want
                    )
                else:
                    ok = got == want and (
                        not isinstance(want, tuple)
                        or (want and want[0] == "ERR")
                        or tuple(got2) == want[: len(got2)]
                    )
                if not ok:
                    errors.append((env_name, q, short(d), want, got))

        sys.setswitchinterval(1e-5)
        threads = [threading.Thread(target=work, args=(t,)) for t in range(8)]
        for t in threads:
            t.start()
        for t in threads:
            t.join()
        sys.setswitchinterval(0.005)
        for e in errors:
            fail("threads", *e)


def section_interleave() -> None:
    """Many iterators advanced round-robin equal solitary runs (patched lib)."""
    env = NEW.envs["default"]
    for _ in range(400):
        items = []
        for _k in range(R.choice([2, 3, 5])):
            q = gen_query()
            try:
                cq = env.compile(q)
            except NEW.Error:
                continue
            d = gen_doc_top()
            o, _ = observe(ORIG, "default", q, d, 1)
            if o[0] != "OK" or (o[4] and o[4][0] == "ERR"):
                continue
            items.append((q, d, o[4], iter(cq.finditer(d)), []))
        live = list(items)
        while live:
            it = R.choice(live)
            try:
                it[4].append(node_key(next(it[3])))
            except StopIteration:
                live.remove(it)
            except Exception as err:  # noqa: BLE001
                live.remove(it)
                fail("interleave", "crash", it[0], short(it[1]), repr(err))
        for q, d, want, _it, got in items:
            COUNTS["interleave"] += 1
            if tuple(got) != want:
                fail("interleave", q, short(d), want, got)


def section_direct_api() -> None:
    """Selector objects built directly: str, equality, hash, range checks."""
    for lib_pair in [(ORIG, NEW)]:
        o, n = lib_pair
        res = []
        for lib in (o, n):
            env = lib.envs["default"]
            # take tokens from compiled queries
            out = []
            for q in ["$[1]", "$[-1]", "$[1:2:3]", "$[::]", "$[:]", "$[::-1]", "$['a']", "$[*]",
                      "$[?@.a]", "$[?@.a == 1 && (@.b || !@.c)]", "$[0:0:0]", "$[-5:5:2]"]:
                cq = env.compile(q)
                sel = cq.segments[0].selectors[0]
                cq2 = env.compile(q)
                sel2 = cq2.segments[0].selectors[0]
                other = env.compile("$[2]").segments[0].selectors[0]
                out.append((type(sel).__name__, str(sel), sel == sel2, hash(sel) == hash(sel2),
                            sel == other, sel != sel2, str(cq), hash(cq) == hash(cq2),
                            sorted(a for a in ("name", "index", "slice", "expression")
                                   if hasattr(sel, a)),
                            repr(getattr(sel, "slice", None)), getattr(sel, "index", None),
                            getattr(sel, "name", None), sel.env is env, sel.token == sel2.token))
                COUNTS["direct-api"] += 1
            # constructing out-of-range selectors directly
            tokn = env.compile("$[1]").segments[0].selectors[0].token
            for kw in [dict(index=2**53), dict(index=-(2**53)), dict(index=2**53 - 1)]:
                try:
                    lib.selectors.IndexSelector(env=env, token=tokn, **kw)
                    out.append("ok")
                except lib.Error as err:
                    out.append((type(err).__name__, err.token.index))
                COUNTS["direct-api"] += 1
            for kw in [dict(start=2**53), dict(stop=-(2**53)), dict(step=2**53), dict(),
                       dict(start=1, stop=2, step=0)]:
                try:
                    s = lib.selectors.SliceSelector(env=env, token=tokn, **kw)
                    out.append(("ok", str(s), repr(s.slice)))
                except lib.Error as err:
                    out.append((type(err).__name__, err.token.index))
                COUNTS["direct-api"] += 1
            res.append(out)
        if res[0] != res[1]:
            for x, y in zip(res[0], res[1]):
                if x != y:
                    fail("direct-api", x, y)


def main() -> None:
    t0 = time.time()
    big = "--quick" not in sys.argv
    section_direct_api()
    print("direct-api done", dict(COUNTS), flush=True)
    section_slices()
    print("slices done", dict(COUNTS), round(time.time() - t0), flush=True)
    section_indices()
    print("indices done", dict(COUNTS), round(time.time() - t0), flush=True)
    section_random_valid(12000 if big else 500)
    print("random-valid done", dict(COUNTS), round(time.time() - t0), flush=True)
    section_random_invalid(25000 if big else 1000)
    print("random-invalid done", dict(COUNTS), round(time.time() - t0), flush=True)
    section_deep_cyclic()
    print("deep-cyclic done", dict(COUNTS), round(time.time() - t0), flush=True)
    section_nd_sets(2500 if big else 200)
    print("nd-sets done", dict(COUNTS), round(time.time() - t0), flush=True)
    section_threads()
    print("threads done", dict(COUNTS), round(time.time() - t0), flush=True)
    section_interleave()
    print("interleave done", dict(COUNTS), round(time.time() - t0), flush=True)

    total = sum(v for k, v in COUNTS.items() if "skipped" not in k)
    print()
    print("patched:", NEW.selectors.__file__)
    print("orig   :", ORIG.selectors.__file__)
    print("cases per section:", dict(COUNTS))
    print("TOTAL CASES:", total)
    for k in sorted(STATS):
        print("   ", k, STATS[k])
    print("message-only differences (allowed, informational):", sum(MESSAGE_DIFFS.values()))
    for (a, b), c in MESSAGE_DIFFS.most_common(5):
        print("   ", c, repr(a)[:100], "->", repr(b)[:100])
    print("BEHAVIOURAL DIFFERENCES:", len(FAILURES))
    if math.isfinite(total) and not FAILURES and total >= 100000:
        print("RESULT: NO DIFFERENCE")
        sys.exit(0)
    print("RESULT: FAILED" if FAILURES else "RESULT: too few cases")
    sys.exit(1)


if __name__ == "__main__":
    main()
