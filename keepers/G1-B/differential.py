#!/venv/bin/python
"""Differential test: unmodified jsonpath_rfc9535 against the same package + one patch.

    /venv/bin/python diff_B.py            # orig_pkg  vs  orig_pkg + patch_B.diff

How it works
    * the parent generates a deterministic list of cases (seeded) and pickles it;
    * it builds the patched package in a temp dir: copy of orig_pkg + `git apply`;
    * it runs this very file twice as a worker (`--worker PKGDIR CASES OUT`), once per
      package directory, so both packages are imported as `jsonpath_rfc9535` in
      separate processes and can never mix;
    * every case yields one JSON-able record; the two record lists must be IDENTICAL.

What a record holds (messages are NOT compared, only checked to be one line):
    accepted/rejected, error CLASS name, "offset inside text", "line/column printed in
    the message match the offset", the literal values found in the compiled AST
    (type + repr), index/slice integers, str(query), str(compile(str(query))), and the
    (path, repr(value)) lists produced by find / finditer / find_one / module-level
    entry points on several documents; for threads the per-thread results.
"""

from __future__ import annotations

import json
import os
import pickle
import random
import shutil
import struct
import subprocess
import sys
import tempfile
from fractions import Fraction

HERE = os.path.dirname(os.path.abspath(__file__))
ORIG = os.path.join(HERE, "orig_pkg")
PATCH = os.path.join(HERE, "patch_B.diff")
SEED = 0xB0B
# weights: how many cases of each kind
N_FILTER_NUM = 45000   # number literal in a filter comparison / function argument
N_INDEX = 35000        # index / slice selectors, several environments
N_FUZZ = 30000         # mutated number-ish queries (mostly invalid), some multi-line
N_LITSTR = 60000       # FloatLiteral / IntegerLiteral str() of raw values
N_ENTRY = 3000         # entry point agreement
N_THREAD = 150         # x 4 threads x 12 queries
N_DEEP = 300           # deep / cyclic data with numeric filters and indices
N_SELECTOR = 10000     # IndexSelector / SliceSelector built directly: the range check

# --------------------------------------------------------------------------- generation


def rand_digits(r: random.Random, n: int, *, nz_first: bool = True) -> str:
    if n <= 0:
        return ""
    s = "".join(r.choice("0123456789") for _ in range(n))
    if nz_first and s[0] == "0":
        s = r.choice("123456789") + s[1:]
    return s


BOUNDARY_INTS = []
for base in (2**31, 2**32, 2**53, 2**63, 2**64, 10**15, 10**16, 10**17, 10**22, 10**23):
    for k in (-2, -1, 0, 1, 2):
        BOUNDARY_INTS.append(base + k)
BOUNDARY_INTS += [0, 1, 2, 5, 9, 10, 11, 99, 100, 255, 1000, 4300, 10**308, 10**309 - 1]


def exact_decimal(fr: Fraction) -> str:
    """Exact, finite decimal expansion of a dyadic rational."""
    sign = "-" if fr < 0 else ""
    fr = abs(fr)
    ip = fr.numerator // fr.denominator
    rest = fr - ip
    digs = []
    while rest:
        rest *= 10
        d = rest.numerator // rest.denominator
        digs.append(str(d))
        rest -= d
    return f"{sign}{ip}." + ("".join(digs) or "0")


def rand_double(r: random.Random) -> float:
    while True:
        (x,) = struct.unpack("<d", struct.pack("<Q", r.getrandbits(64)))
        if x == x and x not in (float("inf"), float("-inf")):
            return x


def nextafter_up(x: float) -> float:
    import math

    return math.nextafter(x, math.inf)


def number_text(r: random.Random) -> str:
    """A number literal, valid most of the time, nasty often."""
    mode = r.random()
    if mode < 0.10:
        # repr / formatted random double over the whole exponent range
        x = rand_double(r)
        f = r.random()
        if f < 0.4:
            return repr(x)
        if f < 0.7:
            return format(x, f".{r.randint(0, 25)}e")
        if f < 0.8:
            return format(x, f".{r.randint(0, 20)}E")
        if abs(x) < 1e30 and abs(x) > 1e-30:
            return format(x, f".{r.randint(0, 40)}f")
        return repr(x).upper()
    if mode < 0.14:
        # exact midpoint between two adjacent doubles, +- one trailing digit
        x = abs(rand_double(r))
        if r.random() < 0.5:
            x = float(r.choice(BOUNDARY_INTS[:40]))
        if r.random() < 0.3:
            x = r.choice([5e-324, 1e-323, 2.2250738585072014e-308, 1.7976931348623157e308, 1.0, 0.1])
        y = nextafter_up(x)
        if y == float("inf"):
            mid = Fraction(x) + Fraction(2) ** 970  # half an ulp above the largest double
        else:
            mid = (Fraction(x) + Fraction(y)) / 2
        s = exact_decimal(mid)
        t = r.random()
        if t < 0.3:
            s += "1"
        elif t < 0.5:
            s = s[:-1] + str((int(s[-1]) - 1) % 10) + "9"
        elif t < 0.6 and "." in s:
            # the same number in exponent form
            e = r.randint(-30, 30)
            s = s + f"e{e}" if e >= 0 else s + f"e{e}"
        if r.random() < 0.3:
            s = "-" + s
        return s
    if mode < 0.20:
        n = r.choice(BOUNDARY_INTS)
        s = str(n)
        f = r.random()
        if f < 0.4:
            return r.choice(["", "-"]) + s
        if f < 0.6:
            return r.choice(["", "-"]) + s + r.choice(["e0", "E0", "e+0", "e00", ".0", ".0e0", "e-0", "e1", "e-1"])
        if f < 0.8:
            # scientific spelling of the same integer
            z = len(s) - len(s.rstrip("0"))
            return r.choice(["", "-"]) + (s[: len(s) - z] or "0") + f"e{r.choice(['', '+'])}{z}"
        return r.choice(["", "-"]) + s[0] + "." + (s[1:] or "0") + f"e{len(s) - 1}"

    sign = r.choice(["", "", "", "-", "-", "-", "+", "--", "- "]) if r.random() < 0.15 else r.choice(["", "-"])
    f = r.random()
    if f < 0.12:
        ip = "0"
    elif f < 0.18:
        ip = r.choice(["00", "01", "007", "0" + rand_digits(r, r.randint(1, 5)), ""])
    elif f < 0.85:
        ip = rand_digits(r, r.randint(1, 22))
    elif f < 0.95:
        ip = rand_digits(r, r.choice([100, 290, 300, 307, 308, 309, 310, 320, 401, 402]))
    elif f < 0.97:
        ip = r.choice(["1", "9", "17", "2"]) + "0" * r.choice([307, 308, 309, 400, 401])
    else:
        ip = rand_digits(r, r.choice([4299, 4300, 4301, 5000]))

    f = r.random()
    if f < 0.45:
        frac = ""
    elif f < 0.50:
        frac = r.choice([".", ".e", ". 0", ".-1", ".0.0", ",0"])
    elif f < 0.60:
        frac = "." + "0" * r.randint(1, 30)
    elif f < 0.93:
        frac = "." + rand_digits(r, r.randint(1, 25), nz_first=False)
    elif f < 0.97:
        frac = "." + "0" * r.choice([300, 322, 323, 324, 330, 399, 400, 401, 410]) + rand_digits(r, r.randint(1, 20), nz_first=False)
    elif f < 0.99:
        frac = "." + rand_digits(r, r.choice([400, 800, 1100]), nz_first=False)
    else:
        frac = "." + rand_digits(r, r.choice([4300, 5000]), nz_first=False)

    f = r.random()
    if f < 0.40:
        exp = ""
    else:
        e = r.choice("eE")
        es = r.choice(["", "", "+", "-", "-"])
        g = r.random()
        if g < 0.06:
            ed = r.choice(["", "+", "-", "1.5", "e1", " 1", "1e1", "x"])
            es = ""
        elif g < 0.45:
            ed = str(r.randint(0, 30))
        elif g < 0.60:
            ed = str(r.randint(0, 400))
        elif g < 0.80:
            ed = str(r.choice([290, 300, 306, 307, 308, 309, 310, 322, 323, 324, 325, 326, 340, 398, 399, 400, 401, 402, 410, 420, 700, 800]))
        elif g < 0.88:
            ed = "0" * r.randint(1, 12) + str(r.randint(0, 330))
        elif g < 0.95:
            ed = r.choice(["999999999", "1000000000", "1000000001", "99999999999", str(2**31), str(2**63), str(2**64), "9" * 18, "9" * 19, "9" * 20, "1" + "0" * 30])
        elif g < 0.98:
            ed = "0" * r.choice([100, 4300, 5000]) + str(r.randint(0, 20))
        else:
            ed = rand_digits(r, r.choice([4299, 4300, 4301, 5000]))
        exp = e + es + ed
    return sign + ip + frac + exp


FILTER_TEMPLATES = [
    "$[?@ == {n}]",
    "$[?@=={n}]",
    "$[?@ != {n}]",
    "$[?@ < {n}]",
    "$[?@ <= {n}]",
    "$[?@ > {n}]",
    "$[?@>={n}]",
    "$[?{n} == @]",
    "$[?{n} < @]",
    "$[?@.a == {n}]",
    "$[?@.a >= {n}]",
    "$[?@.a<{n}]",
    "$[?@.a == {n} || @ == {n}]",
    "$[?!(@ == {n})]",
    "$[?(@ == {n})]",
    "$[?{n} == {n}]",
    "$[?length(@) == {n}]",
    "$[?count(@.*) < {n}]",
    "$[?value(@.a) == {n}]",
    "$[?length({n}) == 1]",
    "$[?match(@, {n})]",
    "$[?@ == {n}, 1]",
    "$[0, ?@ == {n}]",
    "$[?@ == {n} ]",
    "$[? @ == \n {n}]",
    "$[?@ ==\t{n}\r\n]",
    "$..[?@ == {n}]",
    "$[?@[?@ == {n}]]",
    "$[?$[0] == {n}]",
    "$[?@ == {n}&&@ == {n}]",
    "$[?@=={n}]['é', \"\U0001F600\"]",
    "$.ü[?@ < {n}]",
]


def gen_filter_cases(r: random.Random, n: int):
    out = []
    for _ in range(n):
        t = r.choice(FILTER_TEMPLATES)
        if t.count("{n}") > 1 and r.random() < 0.7:
            parts = t.split("{n}")
            q = parts[0]
            for p in parts[1:]:
                q += number_text(r) + p
        else:
            q = t.replace("{n}", number_text(r))
        out.append({"k": "q", "q": q, "env": r.choice([0, 0, 0, 0, 4]), "docs": "num"})
    return out


def index_text(r: random.Random) -> str:
    f = r.random()
    if f < 0.35:
        n = r.randint(-30, 30)
        return str(n)
    if f < 0.45:
        return r.choice(["-0", "00", "01", "-01", "-00", "0", "007", "-007", "+1", "1.0", "1e1", "1e0", "--1", "- 1", "1 ", " 1", "1_0", "0x1", "١", "１", "1٠"])
    if f < 0.75:
        b = r.choice([2**53, 2**53, 2**53, 2**63, 2**64, 2**70, 10, 11, 2**31, 2**32, 1000])
        n = r.choice([-1, 1]) * (b + r.randint(-3, 3))
        return str(n)
    if f < 0.95:
        return r.choice(["", "-"]) + rand_digits(r, r.randint(1, 40))
    if f < 0.985:
        return r.choice(["", "-"]) + rand_digits(r, r.choice([300, 1000, 4299, 4300]))
    return r.choice(["", "-"]) + rand_digits(r, r.choice([4301, 5000]))


def gen_index_cases(r: random.Random, n: int):
    out = []
    for _ in range(n):
        f = r.random()
        ws = lambda: r.choice(["", "", "", " ", "\n", "\t ", "\r\n"])  # noqa: E731
        if f < 0.35:
            body = ws() + index_text(r) + ws()
        elif f < 0.85:
            parts = []
            k = r.choice([2, 2, 3, 3, 3, 4])
            for _i in range(k):
                parts.append(ws() + (index_text(r) if r.random() < 0.6 else "") + ws())
            body = ":".join(parts)
        else:
            items = []
            for _i in range(r.randint(2, 4)):
                if r.random() < 0.5:
                    items.append(index_text(r))
                else:
                    items.append(":".join(index_text(r) if r.random() < 0.6 else "" for _j in range(r.choice([2, 3]))))
            body = r.choice([",", ", ", " ,"]).join(items)
        pre = r.choice(["$", "$", "$", "$.a", "$..", "$[*]", "$ ", "$\n"])
        post = r.choice(["", "", "", "[0]", ".a", "[::-1]", " "])
        q = f"{pre}[{body}]{post}"
        out.append({"k": "q", "q": q, "env": r.choice([0, 0, 0, 1, 1, 2, 3, 4, 5]), "docs": "arr"})
    return out


FUZZ_ALPHABET = "0123456789-+.eE:, []?@=<>!$'\"\n\t()&|*aé\U0001F600\x00_"


def gen_fuzz_cases(r: random.Random, n: int, seeds):
    out = []
    for _ in range(n):
        q = r.choice(seeds)["q"]
        chars = list(q)
        for _m in range(r.randint(1, 3)):
            op = r.random()
            pos = r.randint(0, len(chars))
            if op < 0.4:
                chars.insert(pos, r.choice(FUZZ_ALPHABET))
            elif op < 0.7 and chars:
                del chars[min(pos, len(chars) - 1)]
            elif op < 0.85 and chars:
                chars[min(pos, len(chars) - 1)] = r.choice(FUZZ_ALPHABET)
            elif chars:
                a = min(pos, len(chars) - 1)
                b = r.randint(0, len(chars) - 1)
                chars[a], chars[b] = chars[b], chars[a]
        q2 = "".join(chars)
        if len(q2) > 3000:
            q2 = q2[:1500] + q2[-1500:]
        out.append({"k": "q", "q": q2, "env": r.choice([0, 0, 1, 2]), "docs": r.choice(["num", "arr"])})
    return out


def gen_litstr_cases(r: random.Random, n: int):
    out = []
    specials = [0.0, -0.0, 1e16, 1e15, 9999999999999998.0, 1e-4, 1e-5, 0.0001, 0.00001234, 1e22, 1e23, 1.5e300, 5e-324, 1.7976931348623157e308, 2.2250738585072014e-308, 1e-7, 1.5e-7, 123456789012345680.0, 0.1, 1 / 3, 2.0**53, 2.0**63, 1e100, 1e-100, 100.0, 1e5]
    for x in specials:
        out.append({"k": "fstr", "h": x.hex()})
        out.append({"k": "fstr", "h": (-x).hex()})
    for e in range(-1074, 1024, 3):
        out.append({"k": "fstr", "h": (2.0**e).hex()})
    for e in range(-323, 309):
        out.append({"k": "fstr", "h": float(f"1e{e}").hex()})
        out.append({"k": "fstr", "h": float(f"{r.randint(1, 99999)}e{e if e < 300 else 300}").hex()})
    while len(out) < n * 3 // 4:
        f = r.random()
        if f < 0.5:
            x = rand_double(r)
        elif f < 0.7:
            x = r.uniform(-1e6, 1e6)
        elif f < 0.8:
            x = float(r.randint(-(10**18), 10**18))
        elif f < 0.9:
            x = round(r.uniform(-1000, 1000), r.randint(0, 6))
        else:
            x = r.choice([1, -1]) * 10.0 ** r.uniform(-8, 20)
        out.append({"k": "fstr", "h": x.hex()})
    while len(out) < n:
        f = r.random()
        if f < 0.5:
            v = r.randint(-(10**6), 10**6)
        elif f < 0.8:
            v = r.choice([-1, 1]) * r.choice(BOUNDARY_INTS)
        elif f < 0.97:
            v = r.choice([-1, 1]) * int(rand_digits(r, r.randint(1, 400)))
        else:
            v = r.choice([-1, 1]) * int(rand_digits(r, r.choice([4000, 4300])))
        out.append({"k": "istr", "v": str(v)})
    return out


def gen_entry_cases(r: random.Random, n: int, seeds):
    return [{"k": "entry", "q": r.choice(seeds)["q"], "docs": r.choice(["num", "arr"])} for _ in range(n)]


def gen_thread_cases(r: random.Random, n: int, seeds):
    out = []
    for _ in range(n):
        out.append({"k": "thr", "qs": [r.choice(seeds)["q"] for _ in range(12)], "docs": r.choice(["num", "arr"])})
    return out


def gen_deep_cases(r: random.Random, n: int):
    out = []
    for _ in range(n):
        q = r.choice(
            [
                "$..[?@ == {n}]",
                "$..[{i}]",
                "$..[{i}:{i}:{i}]",
                "$..[?@[{i}] > {n}]",
                "$..[?length(@) >= {n}]",
                "$..a[{i}]",
            ]
        )
        while "{n}" in q:
            q = q.replace("{n}", number_text(r), 1)
        while "{i}" in q:
            q = q.replace("{i}", str(r.randint(-3, 3)), 1)
        out.append({"k": "deep", "q": q, "depth": r.choice([5, 50, 99, 100, 101, 150, 2000]), "shape": r.choice(["list", "dict", "mixed", "cyclic_list", "cyclic_dict"])})
    return out


def gen_selector_cases(r: random.Random, n: int):
    out = []

    def val():
        f = r.random()
        if f < 0.25:
            return None
        if f < 0.5:
            return r.randint(-12, 12)
        b = r.choice([0, 5, 10, 2**53, 2**70, 2**31])
        return r.choice([-1, 1]) * (b + r.randint(-2, 2))

    for _ in range(n):
        if r.random() < 0.4:
            v = val()
            out.append({"k": "sel", "env": r.randint(0, 5), "index": 0 if v is None else v})
        else:
            out.append({"k": "sel", "env": r.randint(0, 5), "slice": [val(), val(), val()]})
    return out


def generate():
    r = random.Random(SEED)
    a = gen_filter_cases(r, N_FILTER_NUM)
    b = gen_index_cases(r, N_INDEX)
    cases = a + b
    cases += gen_fuzz_cases(r, N_FUZZ, a + b)
    cases += gen_litstr_cases(r, N_LITSTR)
    small = [c for c in a + b if len(c["q"]) < 200]
    cases += gen_entry_cases(r, N_ENTRY, small)
    cases += gen_thread_cases(r, N_THREAD, small)
    cases += gen_deep_cases(r, N_DEEP)
    cases += gen_selector_cases(r, N_SELECTOR)
    return cases


# ------------------------------------------------------------------------------- worker


def worker(pkgdir: str, cases_path: str, out_path: str) -> None:
    sys.path.insert(0, pkgdir)
    sys.setrecursionlimit(10000)
    import threading

    import jsonpath_rfc9535 as jp
    from jsonpath_rfc9535 import JSONPathEnvironment
    from jsonpath_rfc9535.exceptions import JSONPathError
    from jsonpath_rfc9535.filter_expressions import FloatLiteral
    from jsonpath_rfc9535.filter_expressions import IntegerLiteral
    from jsonpath_rfc9535.selectors import IndexSelector
    from jsonpath_rfc9535.selectors import SliceSelector

    assert os.path.dirname(os.path.dirname(os.path.abspath(jp.__file__))) == os.path.abspath(pkgdir), jp.__file__

    class SmallEnv(JSONPathEnvironment):
        max_int_index = 10
        min_int_index = -10

    class HugeEnv(JSONPathEnvironment):
        max_int_index = 2**70
        min_int_index = -(2**70)

    class ZeroEnv(JSONPathEnvironment):
        max_int_index = 0
        min_int_index = 0

    class NondetEnv(JSONPathEnvironment):
        nondeterministic = True

    class LopsidedEnv(JSONPathEnvironment):
        max_int_index = 2**53 - 1
        min_int_index = -5

    envs = {0: JSONPathEnvironment(), 1: SmallEnv(), 2: HugeEnv(), 3: ZeroEnv(), 4: NondetEnv(), 5: LopsidedEnv()}

    nums = [
        0, -0.0, 0.0, 1, -1, 1.0, 1.5, True, False, None, "1", "a", "", [], {}, [1], {"a": 1}, [1.0], "\U0001F600",
        2**53, 2**53 + 1, float(2**53), 2**53 - 1, 2**63, 2**64, 10**20, 1e20, 10**308, 1e308, 10**309,
        1.7976931348623157e308, 5e-324, -5e-324, 1e-7, 1e16, 1e15, 10**16, 123456789012345678901,
        123456789012345683968, 100000, 1e5, 0.1, 0.30000000000000004, 2, 3, 10, 100, -2.5, 4300, 5000,
    ]  # fmt: skip
    docs = {
        "num": [nums, [{"a": v} for v in nums], {"a": 1, "b": 1.0, "c": [1, 2, 3], "ü": [0, 1e3]}],
        "arr": [
            list(range(26)),
            [],
            "a string, not an array",
            {},
            {"0": 1, "1": 2, "-1": 3, "a": [10, 20, 30, 40]},
            [[1, 2, 3], [], [4], "xyz", {"a": [5, 6]}, [[7, [8, 9]]]],
            list(range(1000)),
            [None],
            7,
        ],
    }

    def ser(nodes):
        return [(n.path(), repr(n.value)[:200]) for n in nodes]

    def walk(obj, found, seen):
        if id(obj) in seen:
            return
        seen.add(id(obj))
        if isinstance(obj, (list, tuple)):
            for x in obj:
                walk(x, found, seen)
            return
        mod = type(obj).__module__ or ""
        if not mod.startswith("jsonpath_rfc9535") or isinstance(obj, JSONPathEnvironment):
            return
        if isinstance(obj, (IntegerLiteral, FloatLiteral)):
            found.append((type(obj).__name__, type(obj.value).__name__, repr(obj.value), repr(obj.evaluate(None)), str(obj)))
        elif isinstance(obj, IndexSelector):
            found.append(("Index", repr(obj.index), str(obj)))
        elif isinstance(obj, SliceSelector):
            found.append(("Slice", repr(obj.slice), str(obj)))
        for klass in type(obj).__mro__:
            for name in getattr(klass, "__slots__", ()):
                if name in ("env", "token"):
                    continue
                try:
                    walk(getattr(obj, name), found, seen)
                except AttributeError:
                    pass
        if hasattr(obj, "__dict__"):
            for name, v in vars(obj).items():
                if name not in ("env", "token"):
                    walk(v, found, seen)

    def err_record(e, q):
        rec = {"err": type(e).__name__, "jpe": isinstance(e, JSONPathError)}
        if isinstance(e, JSONPathError):
            msg = str(e)
            rec["oneline"] = "\n" not in msg
            tok = getattr(e, "token", None)
            if tok is not None:
                idx = tok.index
                rec["inside"] = 0 <= idx <= len(q)
                line = q.count("\n", 0, idx) + 1
                col = idx - q.rfind("\n", 0, idx) - 1  # columns are 0-based
                rec["linecol"] = msg.endswith(f", line {line}, column {col}")
                rec["idx"] = idx
            else:
                rec["inside"] = None
        return rec

    def run_query(env, q, doclist, nondet):
        rec = {}
        try:
            c = env.compile(q)
        except Exception as e:  # noqa: BLE001
            return err_record(e, q)
        found = []
        walk(c, found, set())
        rec["ast"] = found
        try:
            s = str(c)
            rec["str"] = s if len(s) < 400 else [len(s), s[:150], s[-150:], hash_text(s)]
            c2 = env.compile(s)
            s2 = str(c2)
            rec["str2same"] = s2 == s
            f2 = []
            walk(c2, f2, set())
            rec["ast2same"] = f2 == found
        except Exception as e:  # noqa: BLE001
            rec["strerr"] = type(e).__name__
        res = []
        for d in doclist:
            try:
                nodes = ser(c.find(d))
                if nondet:
                    nodes = sorted(nodes)
                res.append(nodes)
            except Exception as e:  # noqa: BLE001
                res.append(err_record(e, q))
        rec["res"] = res
        return rec

    def hash_text(s):
        import hashlib

        return hashlib.sha256(s.encode("utf-8", "surrogatepass")).hexdigest()[:16]

    def deep_doc(shape, depth):
        if shape == "list":
            d = [1, 2.5]
            for _ in range(depth):
                d = [d, 1, 2]
            return d
        if shape == "dict":
            d = {"a": [1, 2, 3]}
            for _ in range(depth):
                d = {"a": d, "b": 1e3}
            return d
        if shape == "mixed":
            d = [0]
            for i in range(depth):
                d = {"a": d} if i % 2 else [d, 1.0]
            return d
        if shape == "cyclic_list":
            d = [1, 2, [3]]
            d.append(d)
            return d
        d = {"a": [1, 2], "b": {}}
        d["b"]["a"] = d
        return d

    out = []
    for case in cases_iter(cases_path):
        k = case["k"]
        if k == "q":
            env = envs[case["env"]]
            out.append(run_query(env, case["q"], docs[case["docs"]], case["env"] == 4))
        elif k == "fstr":
            x = float.fromhex(case["h"])
            lit = FloatLiteral(None, x)
            s = str(lit)
            rec = {"s": s, "ev": repr(lit.evaluate(None)), "eq": lit == x, "hash": hash(lit) == hash(x)}
            try:
                c = envs[0].compile(f"$[?@ == {s}]")
                f = []
                walk(c, f, set())
                rec["back"] = f
            except Exception as e:  # noqa: BLE001
                rec["back"] = type(e).__name__
            out.append(rec)
        elif k == "istr":
            v = int(case["v"])
            lit = IntegerLiteral(None, v)
            try:
                s = str(lit)
            except Exception as e:  # noqa: BLE001
                out.append({"err": type(e).__name__})
                continue
            rec = {"s": hash_text(s), "len": len(s), "ev": lit.evaluate(None) == v, "evt": type(lit.evaluate(None)).__name__}
            try:
                c = envs[0].compile(f"$[?@ == {s}]")
                f = []
                walk(c, f, set())
                rec["back"] = hash_text(repr(f))
            except Exception as e:  # noqa: BLE001
                rec["back"] = type(e).__name__
            out.append(rec)
        elif k == "entry":
            q = case["q"]
            rec = {}
            for d in docs[case["docs"]][:4]:
                row = []
                for name, fn in (
                    ("find", lambda d=d: ser(jp.find(q, d))),
                    ("finditer", lambda d=d: ser(list(jp.finditer(q, d)))),
                    ("find_one", lambda d=d: (lambda n: None if n is None else (n.path(), repr(n.value)))(jp.find_one(q, d))),
                    ("env.find", lambda d=d: ser(envs[0].find(q, d))),
                    ("env.finditer", lambda d=d: ser(list(envs[0].finditer(q, d)))),
                    ("env.find_one", lambda d=d: (lambda n: None if n is None else (n.path(), repr(n.value)))(envs[0].find_one(q, d))),
                    ("c.find", lambda d=d: ser(envs[0].compile(q).find(d))),
                    ("c.apply", lambda d=d: ser(envs[0].compile(q).apply(d))),
                    ("c.finditer", lambda d=d: ser(list(envs[0].compile(q).finditer(d)))),
                    ("values", lambda d=d: repr(envs[0].compile(q).find(d).values())[:300]),
                ):
                    try:
                        row.append((name, fn()))
                    except Exception as e:  # noqa: BLE001
                        row.append((name, type(e).__name__))
                rec.setdefault("rows", []).append(row)
            out.append(rec)
        elif k == "thr":
            qs = case["qs"]
            dl = docs[case["docs"]]
            env = JSONPathEnvironment()
            seq = [run_query(JSONPathEnvironment(), q, dl, False) for q in qs]
            results = [None] * 4
            barrier = threading.Barrier(4)

            def job(i, env=env, qs=qs, dl=dl, results=results, barrier=barrier):
                barrier.wait()
                order = qs[i:] + qs[:i]
                got = {}
                for q in order:
                    got[q] = run_query(env, q, dl, False)
                results[i] = [got[q] for q in qs]

            ts = [threading.Thread(target=job, args=(i,)) for i in range(4)]
            for t in ts:
                t.start()
            for t in ts:
                t.join()
            out.append({"seq": seq, "threads_equal_seq": [json.dumps(x, sort_keys=True, default=str) == json.dumps(seq, sort_keys=True, default=str) for x in results]})
        elif k == "deep":
            d = deep_doc(case["shape"], case["depth"])
            rec = {}
            for eid in (0, 4):
                try:
                    c = envs[eid].compile(case["q"])
                except Exception as e:  # noqa: BLE001
                    rec[eid] = err_record(e, case["q"])
                    continue
                try:
                    nodes = c.find(d)
                    rec[eid] = [len(nodes), sorted(hash_text(n.path()) for n in nodes)[:50]]
                except Exception as e:  # noqa: BLE001
                    rec[eid] = {"evalerr": type(e).__name__, "jpe": isinstance(e, JSONPathError)}
            out.append(rec)
        elif k == "sel":
            from jsonpath_rfc9535.tokens import Token
            from jsonpath_rfc9535.tokens import TokenType

            env = envs[case["env"]]
            q = "$[1:2:3]"
            tok = Token(TokenType.INDEX, "1", 2, q)
            try:
                if "index" in case:
                    sel = IndexSelector(env=env, token=tok, index=case["index"])
                else:
                    a, b, c3 = case["slice"]
                    sel = SliceSelector(env=env, token=tok, start=a, stop=b, step=c3)
                from jsonpath_rfc9535.node import JSONPathNode

                node = JSONPathNode(value=list(range(15)), location=(), root=None)
                out.append({"str": str(sel), "res": [(n.path(), repr(n.value)) for n in sel.resolve(node)]})
            except Exception as e:  # noqa: BLE001
                out.append(err_record(e, q))
        else:
            raise AssertionError(k)

    with open(out_path, "w", encoding="utf-8") as fh:
        for rec in out:
            fh.write(json.dumps(rec, sort_keys=True, default=str, ensure_ascii=True) + "\n")


def cases_iter(path):
    with open(path, "rb") as fh:
        return pickle.load(fh)


# ------------------------------------------------------------------------------- parent


def main() -> int:
    tmp = tempfile.mkdtemp(prefix="jpdiff_")
    try:
        patched = os.path.join(tmp, "patched_pkg")
        shutil.copytree(ORIG, patched)
        subprocess.run(["git", "apply", PATCH], check=True, cwd=patched)
        changed = subprocess.run(["diff", "-rq", ORIG, patched], capture_output=True, text=True).stdout
        print("patched files:\n" + changed)
        assert changed.strip(), "patch did not change anything"

        cases = generate()
        print("cases generated:", len(cases))
        kinds = {}
        for c in cases:
            kinds[c["k"]] = kinds.get(c["k"], 0) + 1
        print("by kind:", kinds)
        cases_path = os.path.join(tmp, "cases.pkl")
        with open(cases_path, "wb") as fh:
            pickle.dump(cases, fh)

        outs = []
        procs = []
        for name, pkg in (("orig", ORIG), ("patched", patched)):
            out = os.path.join(tmp, name + ".jsonl")
            outs.append(out)
            env = dict(os.environ)
            env.pop("PYTHONPATH", None)
            env["PYTHONHASHSEED"] = "0"
            procs.append(subprocess.Popen([sys.executable, os.path.abspath(__file__), "--worker", pkg, cases_path, out], env=env, cwd=tmp))
        for p in procs:
            if p.wait() != 0:
                print("worker failed")
                return 2

        with open(outs[0], encoding="utf-8") as fa, open(outs[1], encoding="utf-8") as fb:
            la = fa.readlines()
            lb = fb.readlines()
        assert len(la) == len(lb) == len(cases), (len(la), len(lb), len(cases))
        diffs = 0
        stats = {"accepted": 0, "rejected": 0, "non_jsonpath_error": 0, "offset_outside": 0, "linecol_mismatch": 0, "multiline_msg": 0}
        for i, (a, b) in enumerate(zip(la, lb)):
            if a != b:
                diffs += 1
                if diffs <= 20:
                    print("DIFF case", i, repr(cases[i])[:300])
                    print("   orig   :", a[:600].rstrip())
                    print("   patched:", b[:600].rstrip())
            rb = json.loads(b)
            if cases[i]["k"] == "q":
                if "err" in rb:
                    stats["rejected"] += 1
                    if not rb["jpe"]:
                        stats["non_jsonpath_error"] += 1
                    else:
                        if rb.get("inside") is not True:
                            stats["offset_outside"] += 1
                        if rb.get("linecol") is not True:
                            stats["linecol_mismatch"] += 1
                        if rb.get("oneline") is not True:
                            stats["multiline_msg"] += 1
                else:
                    stats["accepted"] += 1
        print("query cases (patched side):", stats)
        print(f"TOTAL cases: {len(cases)}   DIFFERENCES: {diffs}")
        return 1 if diffs else 0
    finally:
        shutil.rmtree(tmp, ignore_errors=True)


if __name__ == "__main__":
    if len(sys.argv) > 1 and sys.argv[1] == "--worker":
        worker(sys.argv[2], sys.argv[3], sys.argv[4])
    else:
        sys.exit(main())
