"""Differential test for patch A (serialize.py escape table, normalized_path,
bracketed_selection, Query/Segment/SliceSelector __str__).

Usage:  /venv/bin/python /tmp/out11/G5/diff_A.py [patched_tree] [n_queries] [seed]

Imports the untouched package from /tmp/out11/G5/orig_pkg and the patched one
from the working tree (default /tmp/wt11/G5) side by side and checks that every
observable string / result / error is the same.
"""

from __future__ import annotations

import io
import json
import os
import random
import subprocess
import sys
import tempfile
import threading
import time
from concurrent.futures import ThreadPoolExecutor
from typing import Any
from typing import List
from typing import Tuple

sys.path.insert(0, os.path.dirname(os.path.abspath(__file__)))

import diffcommon as dc  # noqa: E402

PATCHED = sys.argv[1] if len(sys.argv) > 1 else dc.PATCHED_PATH
N_QUERIES = int(sys.argv[2]) if len(sys.argv) > 2 else 120_000
SEED = int(sys.argv[3]) if len(sys.argv) > 3 else 20261005

orig, new = dc.load_both(PATCHED)
T = dc.Tally()
rng = random.Random(SEED)


# --------------------------------------------------------------------------
# 1. canonical_string: every code point, every pair of troublesome characters,
#    random strings (lone surrogates included: json.loads can produce them).
# --------------------------------------------------------------------------
def part_canonical_string() -> None:
    co, cn = orig.serialize.canonical_string, new.serialize.canonical_string
    for cp in range(0x110000):
        ch = chr(cp)
        a, b = co(ch), cn(ch)
        if a != b:
            T.diff("canonical_string/1char", cp, a, b)
        a, b = co("x" + ch + "'"), cn("x" + ch + "'")
        if a != b:
            T.diff("canonical_string/embedded", cp, a, b)
    T.case("canonical_string every code point", 0x110000)

    special = [chr(c) for c in range(0x21)] + list("'\"\\/u") + ["\x7f", "\ud800", "\udc00", "é", "\U0001f600"]
    n = 0
    for x in special:
        for y in special:
            for z in ("", "'", "\\", '"'):
                s = x + y + z
                n += 1
                if co(s) != cn(s):
                    T.diff("canonical_string/pairs", s, co(s), cn(s))
    T.case("canonical_string special pairs/triples", n)

    n = 0
    for _ in range(200_000):
        s = dc.rand_string(rng, maxlen=rng.choice([8, 8, 40]))
        n += 1
        if co(s) != cn(s):
            T.diff("canonical_string/random", s, co(s), cn(s))
    for s in dc.NAME_POOL + dc.NASTY_CHARS + ["a" * 100_000, "'" * 50_000, "\\\"" * 10_000, "\x00" * 1000]:
        n += 1
        if co(s) != cn(s):
            T.diff("canonical_string/pool", s[:40], co(s)[:80], cn(s)[:80])
    T.case("canonical_string random strings", n)

    class MyStr(str):
        pass

    for s in ["", "a'b", 'q"\\\n', "\x00é"]:
        T.check("canonical_string/str-subclass", s, co(MyStr(s)), cn(MyStr(s)))
        T.check("canonical_string/type", s, type(co(MyStr(s))), type(cn(MyStr(s))))
        T.case("canonical_string str subclass")


# --------------------------------------------------------------------------
# 2. JSONPathNode.path() / str(node) / node list helpers on hand-made locations
# --------------------------------------------------------------------------
WEIRD_KEYS: List[Any] = [
    0,
    1,
    -1,
    7,
    2**53,
    10**30,
    -(10**30),
    True,
    False,
    None,
    1.5,
    -0.0,
    1e22,
    float("inf"),
    float("nan"),
    (1, 2),
    b"bytes",
]


def rand_location(r: random.Random) -> Tuple[Any, ...]:
    n = r.choice([0, 1, 2, 3, 5, 12])
    loc: List[Any] = []
    for _ in range(n):
        x = r.random()
        if x < 0.45:
            loc.append(r.choice(dc.NAME_POOL))
        elif x < 0.65:
            loc.append(dc.rand_string(r))
        elif x < 0.9:
            loc.append(r.choice([0, 1, 2, 10, 123456, 2**53 - 1]))
        else:
            loc.append(r.choice(WEIRD_KEYS))
    return tuple(loc)


def part_paths() -> None:
    n = 0
    for _ in range(60_000):
        loc = rand_location(rng)
        val = rng.choice(dc.SCALARS)
        a = orig.node.JSONPathNode(value=val, location=loc, root=None)
        b = new.node.JSONPathNode(value=val, location=loc, root=None)
        n += 1
        if not T.check("node.path", loc, a.path(), b.path()):
            continue
        T.check("str(node)", loc, str(a), str(b))
        ka = rng.choice(dc.NAME_POOL + [0, 3])
        T.check("new_child.path", (loc, ka), a.new_child(1, ka).path(), b.new_child(1, ka).path())
        # location given as a list or another iterable type
        a.location = list(loc)  # type: ignore[assignment]
        b.location = list(loc)  # type: ignore[assignment]
        T.check("node.path/list-location", loc, a.path(), b.path())
    T.case("node.path hand-made locations", n)

    # long locations
    for size in (1000, 20_000):
        loc = tuple(rng.choice(dc.NAME_POOL) if i % 2 else i for i in range(size))
        a = orig.node.JSONPathNode(value=1, location=loc, root=None)
        b = new.node.JSONPathNode(value=1, location=loc, root=None)
        T.check("node.path/long", size, a.path(), b.path())
        T.case("node.path long locations")

    # node lists
    n = 0
    for _ in range(5000):
        locs = [rand_location(rng) for _ in range(rng.choice([0, 1, 2, 5]))]
        vals = [rng.choice(dc.SCALARS) for _ in locs]
        la = orig.node.JSONPathNodeList(
            orig.node.JSONPathNode(value=v, location=loc, root=None) for loc, v in zip(locs, vals)
        )
        lb = new.node.JSONPathNodeList(
            new.node.JSONPathNode(value=v, location=loc, root=None) for loc, v in zip(locs, vals)
        )
        n += 1
        T.check("nodelist.paths", locs, la.paths(), lb.paths())
        T.check("nodelist.items", locs, repr(la.items()), repr(lb.items()))
        T.check("nodelist.values", locs, repr(la.values()), repr(lb.values()))
        T.check("nodelist.empty", locs, la.empty(), lb.empty())
        T.check("nodelist.len/str-prefix", locs, str(la)[:9], str(lb)[:9])
    T.case("node list helpers", n)


# --------------------------------------------------------------------------
# 3. Generated queries: accept/reject, error class and offset, all strings of
#    the compiled query, round trip through str(), results on documents.
# --------------------------------------------------------------------------
class NDEnv:
    pass


def make_envs(lib: Any) -> Tuple[Any, Any]:
    class ND(lib.pkg.JSONPathEnvironment):
        nondeterministic = True

    return lib.pkg.JSONPathEnvironment(), ND()


ENV_O, ND_O = make_envs(orig)
ENV_N, ND_N = make_envs(new)


def compare_query(text: str, docs: List[Any], *, nondet: bool) -> None:
    ro = dc.attempt(orig, lambda: ENV_O.compile(text), text)
    rn = dc.attempt(new, lambda: ENV_N.compile(text), text)
    if ro[0] != rn[0]:
        T.diff("compile accept/reject", text, ro, rn)
        return
    if ro[0] == "err":
        T.outcome("query rejected: " + str(ro[1][0]))
        T.check("compile error facts", text, ro[1:], rn[1:])
        if ro[1][1]:  # a JSONPathError: demand the offset facts outright
            for facts in (ro[1], rn[1]):
                for f in facts[2:]:
                    if f[0] in ("one-line", "offset-inside") and f[1] is not True:
                        T.diff("error sanity", text, facts, facts)
        # every entry point must raise the same class
        for meth in ("find", "find_one", "finditer"):
            eo = dc.attempt(orig, lambda m=meth: getattr(ENV_O, m)(text, docs[0]), text)
            en = dc.attempt(new, lambda m=meth: getattr(ENV_N, m)(text, docs[0]), text)
            T.check("entry point error", (meth, text), eo[:2], en[:2])
        return

    T.outcome("query accepted")
    qo, qn = ro[1], rn[1]
    fo = dc.attempt(orig, lambda: dc.query_facts(qo))
    fn = dc.attempt(new, lambda: dc.query_facts(qn))
    if not T.check("str(query)/segments/selectors", text, fo, fn):
        return
    if fo[0] == "ok":
        canon = fo[1][0]
        # the canonical text reparses, in both copies, to the same canonical text
        r2o = dc.attempt(orig, lambda: str(ENV_O.compile(canon)), canon)
        r2n = dc.attempt(new, lambda: str(ENV_N.compile(canon)), canon)
        T.check("reparse of str(query)", (text, canon), r2o, r2n)
        if r2n[0] == "ok" and r2n[1] != canon:
            # Not something a patch may change either way: report only if the
            # two copies disagree (they cannot, given the check above).
            T.outcome("str() not idempotent in BOTH copies")
        # cross: what one copy prints the other one reads
        qx = dc.attempt(new, lambda: ENV_N.compile(str(qo)), canon)
        T.check("cross reparse", text, qx[0], "ok" if r2o[0] == "ok" else qx[0])

    for doc in docs:
        so = dc.attempt(orig, lambda d=doc: dc.nodelist_facts(qo.find(d)))
        sn = dc.attempt(new, lambda d=doc: dc.nodelist_facts(qn.find(d)))
        T.check("find()", (text, repr(doc)[:200]), so, sn)
        if so[0] == "ok" and so[1][0]:
            # each normalized path is re-queryable and gives that one node back
            path = rng.choice(so[1][1])
            po = dc.attempt(orig, lambda d=doc, p=path: dc.nodelist_facts(ENV_O.find(p, d)), path)
            pn = dc.attempt(new, lambda d=doc, p=path: dc.nodelist_facts(ENV_N.find(p, d)), path)
            T.check("find(path())", (text, path), po, pn)
            T.check("find(path()) round trip", (text, path), pn[0] == "ok" and pn[1][1], [path])
        # lazy iterator and find_one agree with it
        io_ = dc.attempt(orig, lambda d=doc: dc.node_facts(qo.finditer(d)))
        in_ = dc.attempt(new, lambda d=doc: dc.node_facts(qn.finditer(d)))
        T.check("finditer()", text, io_, in_)
        oo = dc.attempt(orig, lambda d=doc: (lambda n: n and n.path())(qo.find_one(d)))
        on = dc.attempt(new, lambda d=doc: (lambda n: n and n.path())(qn.find_one(d)))
        T.check("find_one()", text, oo, on)

    if nondet:
        doc = docs[0]
        seed = rng.randrange(1 << 30)
        random.seed(seed)
        so = dc.attempt(orig, lambda: dc.nodelist_facts(ND_O.find(text, doc)))
        random.seed(seed)
        sn = dc.attempt(new, lambda: dc.nodelist_facts(ND_N.find(text, doc)))
        T.check("nondeterministic find(), same seed", (text, seed), so, sn)


def part_queries() -> None:
    gen = dc.QueryGen(rng)
    docs_pool = [dc.gen_doc(rng) for _ in range(400)]
    t0 = time.time()
    for i in range(N_QUERIES):
        text = gen.query()
        r = rng.random()
        if r < 0.30:
            text = gen.mutate(text)
            if rng.random() < 0.3:
                text = gen.mutate(text)
        elif r < 0.33:
            text = rng.choice(["", " $", "$ ", "a", "$.", "$..", "$[", "$[?", "$[?@.a ==", "\n$\n", "$\n.a\n[?@\n<\n]", "$[?@.a &&\n\n  ]"]) + rng.choice(["", "x", "\n"])
        docs = [rng.choice(docs_pool), dc.gen_doc(rng)]
        compare_query(text, docs, nondet=(i % 5 == 0))
        T.case("generated query (valid and invalid)")
        if i and i % 20000 == 0:
            print(f"  ... {i} queries, {time.time() - t0:.0f}s, diffs={len(T.diffs)}", flush=True)


# --------------------------------------------------------------------------
# 4. Direct construction of selectors / segments (things compile() never
#    builds but the classes allow), so that every __str__ is exercised.
# --------------------------------------------------------------------------
def part_direct() -> None:
    n = 0
    for _ in range(15_000):
        names = [dc.rand_string(rng) for _ in range(rng.choice([0, 1, 2, 4]))]
        bounds = [rng.choice([None, 0, 1, -1, 5, -5, 2**53 - 1, -(2**53) + 1]) for _ in range(3)]
        idx = rng.choice([0, 1, -1, 2**53 - 1, -(2**53) + 1, 12345])
        out = []
        for lib, env in ((orig, ENV_O), (new, ENV_N)):
            tok = lib.tokens.Token(lib.tokens.TokenType.EOF, "", 0, "$")
            sels: List[Any] = [lib.selectors.NameSelector(env=env, token=tok, name=nm) for nm in names]
            sels.append(lib.selectors.SliceSelector(env=env, token=tok, start=bounds[0], stop=bounds[1], step=bounds[2]))
            sels.append(lib.selectors.IndexSelector(env=env, token=tok, index=idx))
            sels.append(lib.selectors.WildcardSelector(env=env, token=tok))
            rng_state = rng.getstate()
            rng.shuffle(sels)
            rng.setstate(rng_state)
            child = lib.segments.JSONPathChildSegment(env=env, token=tok, selectors=tuple(sels))
            desc = lib.segments.JSONPathRecursiveDescentSegment(env=env, token=tok, selectors=tuple(sels))
            empty = lib.segments.JSONPathChildSegment(env=env, token=tok, selectors=())
            q = lib.query.JSONPathQuery(env=env, segments=(child, desc, empty))
            q0 = lib.query.JSONPathQuery(env=env, segments=())
            out.append(
                (
                    [str(s) for s in sels],
                    [hash(s) == hash(s) for s in sels],
                    str(child),
                    str(desc),
                    str(empty),
                    str(q),
                    str(q0),
                    q0.empty(),
                    "@" + str(q)[1:],
                )
            )
        rng.shuffle(names)  # advance the generator the same for both
        n += 1
        T.check("direct construction", (names, bounds, idx), out[0], out[1])
    T.case("directly constructed selectors/segments/queries", n)


# --------------------------------------------------------------------------
# 5. Deep and cyclic data; deep nesting of filters in str()
# --------------------------------------------------------------------------
def part_deep() -> None:
    queries = ["$..*", "$..a", "$..[0]", "$..['\\'']", "$..[?@.a]", "$..[?@..a]", "$.a..[*, 0]"]
    n = 0
    for depth in (1, 2, 50, 99, 100, 101, 150, 400, 2000):
        for kind in ("mixed", "list", "dict"):
            doc = dc.deep_doc(depth, kind)
            for qtext in queries:
                for eo, en in ((ENV_O, ENV_N), (ND_O, ND_N)):
                    random.seed(depth)
                    a = dc.attempt(orig, lambda: dc.nodelist_facts(eo.find(qtext, doc)))
                    random.seed(depth)
                    b = dc.attempt(new, lambda: dc.nodelist_facts(en.find(qtext, doc)))
                    n += 1
                    T.check("deep data", (depth, kind, qtext), a, b)
    for doc in dc.cyclic_docs():
        for qtext in queries + ["$.*", "$[2][2][2][0]", "$.self.self.x", "$.k[2].k[2].k[1].z"]:
            for eo, en in ((ENV_O, ENV_N), (ND_O, ND_N)):
                random.seed(7)
                a = dc.attempt(orig, lambda: [(x.location, x.path()) for x in eo.find(qtext, doc)])
                random.seed(7)
                b = dc.attempt(new, lambda: [(x.location, x.path()) for x in en.find(qtext, doc)])
                n += 1
                T.check("cyclic data", qtext, a, b)
    T.case("deep / cyclic documents", n)

    # str() of deeply nested queries. Both copies give up with RecursionError
    # at some nesting depth; the patched copy must cope with at least the
    # depth the original copes with, and give the same text up to there.
    def max_depth(lib: Any, env: Any, make: Any) -> int:
        best = 0
        for d in range(1, 400):
            try:
                q = env.compile(make(d))
            except RecursionError:
                break
            try:
                str(q)
            except RecursionError:
                break
            best = d
        return best

    shapes = {
        "nested filters": lambda d: "$[?" + "@[?" * d + "@.b" + "]" * d + "]",
        "nested filters in descendant": lambda d: "$[?" + "@..[?" * d + "@.b" + "]" * d + "]",
        "nested not": lambda d: "$[?" + "!(" * d + "@.a" + ")" * d + "]",
        "nested and": lambda d: "$[?" + "(@.a && " * d + "@.b" + ")" * d + "]",
    }
    for name, make in shapes.items():
        mo = max_depth(orig, ENV_O, make)
        mn = max_depth(new, ENV_N, make)
        print(f"  str() nesting limit [{name}]: orig={mo} patched={mn}")
        if mn < mo:
            T.diff("str() nesting limit lower than before", name, mo, mn)
        for d in range(1, min(mo, mn) + 1, 7):
            T.check("deep str()", (name, d), str(ENV_O.compile(make(d))), str(ENV_N.compile(make(d))))
            T.case("deeply nested str()")


# --------------------------------------------------------------------------
# 6. Threads: str(), path() and find() from several threads at once give what
#    a solitary run gives.
# --------------------------------------------------------------------------
def part_threads() -> None:
    gen = dc.QueryGen(random.Random(SEED + 1))
    texts = []
    while len(texts) < 300:
        t = gen.query()
        try:
            ENV_O.compile(t)
        except Exception:  # noqa: BLE001
            continue
        texts.append(t)
    docs = [dc.gen_doc(random.Random(SEED + i)) for i in range(20)]
    qo = [ENV_O.compile(t) for t in texts]
    qn = [ENV_N.compile(t) for t in texts]

    def work(qs: List[Any], lib: Any, k: int) -> List[Any]:
        r = random.Random(k)
        out = []
        for _ in range(400):
            i = r.randrange(len(qs))
            d = docs[r.randrange(len(docs))]
            res = dc.attempt(lib, lambda: (str(qs[i]), qs[i].find(d).paths(), [str(x) for x in qs[i].finditer(d)]))
            out.append((i, res))
        return out

    expected = [work(qo, orig, k) for k in range(8)]
    barrier = threading.Barrier(8)

    def threaded(k: int) -> List[Any]:
        barrier.wait()
        return work(qn, new, k)

    with ThreadPoolExecutor(8) as pool:
        got = list(pool.map(threaded, range(8)))
    for k in range(8):
        T.check("threads: patched concurrent == orig sequential", k, expected[k], got[k])
    T.case("threaded str()/paths()/finditer() runs", 8 * 400)


# --------------------------------------------------------------------------
# 7. CLI, in a subprocess per copy
# --------------------------------------------------------------------------
def run_cli(path: str, args: List[str], stdin: str) -> Tuple[int, str, str]:
    env = dict(os.environ, PYTHONPATH=path, PYTHONIOENCODING="utf-8")
    p = subprocess.run(
        [sys.executable, "-m", "jsonpath_rfc9535", *args],
        input=stdin.encode("utf-8", "surrogatepass"),
        capture_output=True,
        env=env,
        cwd="/tmp",
        check=False,
    )
    return p.returncode, p.stdout.decode("utf-8", "replace"), p.stderr.decode("utf-8", "replace")


def part_cli() -> None:
    gen = dc.QueryGen(random.Random(SEED + 2))
    r = random.Random(SEED + 3)
    n = 0
    with tempfile.TemporaryDirectory() as tmp:
        for i in range(40):
            text = gen.query() if i % 4 else gen.mutate(gen.query())
            doc = dc.gen_doc(r)
            try:
                payload = json.dumps(doc)
            except Exception:  # noqa: BLE001
                continue
            if i % 10 == 9:
                payload = payload[: len(payload) // 2] + "{"
            qf = os.path.join(tmp, "q.txt")
            with io.open(qf, "w", encoding="utf-8", newline="") as fd:
                fd.write(text)
            args = ["-r", qf] + (["--pretty"] if i % 2 else []) + (["--debug"] if i % 7 == 0 else [])
            a = run_cli(dc.ORIG_PATH, args, payload)
            b = run_cli(PATCHED, args, payload)
            # tracebacks (only with --debug) mention file paths of the copy
            if "--debug" in args:
                a, b = a[:2], b[:2]
            n += 1
            T.check("cli", (text, args), a, b)
    T.case("CLI runs", n)


def main() -> int:
    print(f"orig:    {orig.pkg.__file__}\npatched: {new.pkg.__file__}\nseed={SEED}", flush=True)
    for part in (part_canonical_string, part_paths, part_direct, part_deep, part_threads, part_cli, part_queries):
        t0 = time.time()
        print(f"== {part.__name__}", flush=True)
        part()
        print(f"   done in {time.time() - t0:.1f}s, diffs so far: {len(T.diffs)}", flush=True)
    return T.report()


if __name__ == "__main__":
    sys.exit(main())
