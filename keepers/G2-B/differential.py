#!/venv/bin/python
"""Differential test: unmodified jsonpath_rfc9535 against the package + one patch.

The unmodified package is /tmp/out11/G2/orig_pkg/jsonpath_rfc9535 (copied from
the worktree before any change).  The patched package is built on the fly: the
original is copied to a temporary directory and PATCH_FILE is applied to the
copy, so this script does not depend on the state of the worktree.

Both copies are imported under their real name, one after the other, and the
first set of modules is moved out of sys.modules before the second import.
All imports inside the package are done at import time, so each copy keeps
using its own modules.

Parts
  1  deterministic mode, random documents x random queries: exact node lists
     (location + identity of the value), error class, error text, number of
     nodes delivered before an error, find_one.
  2  nondeterministic mode, real `random`: same accept/raise decision, same
     multiset of nodes as the deterministic result, the order of the result
     is checked against an independent RFC 9535 ordering predicate, and the
     visiting order of `_nondeterministic_visit` itself is checked to be a
     linear extension of (parent before child, array elements in order).
  3  nondeterministic mode, exhaustive: every call into `random` is replaced
     by an explorer that enumerates ALL outcomes, on tiny documents.  The SET
     of possible results of the two libraries must be identical, and the set
     of visiting orders must equal the brute force set of linear extensions.
  4  depth limit grid: nesting depth x max_recursion_depth x shape x mode,
     cyclic data with fan-out (time bounded), very deep data.
  5  interleaved iterators and threads on a shared environment.
  6  invalid queries: same accept/reject, same class, offset inside the text.
"""

from __future__ import annotations

import itertools
import os
import random
import shutil
import subprocess
import sys
import tempfile
import threading
import time
from collections import Counter

PATCH_NAME = "B"
OUT = "/tmp/out11/G2"
PATCH_FILE = f"{OUT}/patch_{PATCH_NAME}.diff"
ORIG_PARENT = f"{OUT}/orig_pkg"

SEED = int(os.environ.get("DIFF_SEED", "20261005"))
SCALE = float(os.environ.get("DIFF_SCALE", "1.0"))

# --------------------------------------------------------------------------
# loading the two libraries


def _purge():
    gone = {}
    for name in list(sys.modules):
        if name == "jsonpath_rfc9535" or name.startswith("jsonpath_rfc9535."):
            gone[name] = sys.modules.pop(name)
    return gone


class Lib:
    def __init__(self, label, parent):
        self.label = label
        _purge()
        sys.path.insert(0, parent)
        try:
            import jsonpath_rfc9535 as pkg  # noqa: PLC0415
        finally:
            sys.path.pop(0)
        self.mods = _purge()
        assert os.path.dirname(pkg.__file__).startswith(parent), pkg.__file__
        self.pkg = pkg
        self.segments = self.mods["jsonpath_rfc9535.segments"]
        self.selectors = self.mods["jsonpath_rfc9535.selectors"]
        self.Error = pkg.JSONPathError
        self._envs = {}

    def env(self, nd=False, limit=100):
        key = (nd, limit)
        if key not in self._envs:
            cls = type(
                "Env",
                (self.pkg.JSONPathEnvironment,),
                {"nondeterministic": nd, "max_recursion_depth": limit},
            )
            self._envs[key] = cls()
        return self._envs[key]

    def set_random(self, obj):
        self.segments.random = obj
        self.selectors.random = obj


def load_libs():
    tmp = tempfile.mkdtemp(prefix=f"patched_{PATCH_NAME}_")
    shutil.copytree(
        f"{ORIG_PARENT}/jsonpath_rfc9535",
        f"{tmp}/jsonpath_rfc9535",
        ignore=shutil.ignore_patterns("__pycache__"),
    )
    subprocess.run(
        ["patch", "-p1", "-s", "-i", PATCH_FILE], cwd=tmp, check=True
    )
    orig = Lib("orig", ORIG_PARENT)
    new = Lib("patched", tmp)
    src_o = open(orig.segments.__file__).read()
    src_n = open(new.segments.__file__).read()
    assert src_o != src_n, "patch did not change segments.py"
    assert orig.segments is not new.segments
    return orig, new


# --------------------------------------------------------------------------
# generators

KEYS = ["a", "b", "c", "", "é", "\U0001f600", "\u0000", "a b", "'", "0"]
NASTY_SCALARS = [
    0,
    -0.0,
    1,
    -1,
    2**53,
    -(2**53) + 1,
    10**400,
    -(10**400),
    5e-324,
    1.7976931348623157e308,
    1e-320,
    float("inf"),
    float("nan"),
    True,
    False,
    None,
    "",
    "a",
    "[1,2]",
    "{'a': 1}",
    "\U0001f600\u0000\ud800",
    "‮́",
    "x" * 50,
]


def gen_value(rng, depth, width=4, p_container=0.55):
    if depth <= 0 or rng.random() > p_container:
        return rng.choice(NASTY_SCALARS)
    n = rng.choice([0, 0, 1, 1, 2, 2, 3, width])
    if rng.random() < 0.5:
        return [gen_value(rng, depth - 1, width, p_container) for _ in range(n)]
    keys = rng.sample(KEYS, min(n, len(KEYS)))
    return {k: gen_value(rng, depth - 1, width, p_container) for k in keys}


def gen_doc(rng):
    r = rng.random()
    if r < 0.03:
        return rng.choice(NASTY_SCALARS)
    if r < 0.06:
        return rng.choice([[], {}, [[]], {"a": {}}, [[], []], {"": []}])
    depth = rng.choice([1, 2, 3, 3, 4, 5, 6])
    v = gen_value(rng, depth)
    if not isinstance(v, (dict, list)):
        v = [v, gen_value(rng, depth)]
    return v


CHILD_SEGS = [".a", ".b", "[0]", "[-1]", ".*", "[*]", "['a','b']", "[1:3]", "['']"]
DESC_SEGS = [
    "..a",
    "..b",
    "..*",
    "..[*]",
    "..[0]",
    "..[-1]",
    "..[1]",
    "..[::2]",
    "..[::-1]",
    "..[1:]",
    "..[5:1:-2]",
    "..['a',0]",
    "..[0,'a','a']",
    "..[*,*]",
    "..[*,0]",
    "..['é']",
    "..['\U0001f600']",
    "..['\\u0000']",
    "..['']",
    "..[?@.a]",
    "..[?@.a == 1]",
    "..[?@ == 'a']",
    "..[?@..a]",
    "..[?!@..b]",
    "..[?count(@..*) > 2]",
    "..[?length(@) > 1]",
    "..[?@..[0] && $..b]",
    "..[?count($..*) > 3]",
    "..[?value(@..a) == 1]",
    "..[?@ < 10]",
    "..[?@ >= 1e300]",
]


def gen_query(rng):
    n = rng.choice([1, 1, 1, 2, 2, 3])
    segs = [rng.choice(DESC_SEGS)]
    for _ in range(n - 1):
        pool = DESC_SEGS if rng.random() < 0.5 else CHILD_SEGS
        segs.insert(rng.randrange(len(segs) + 1), rng.choice(pool))
    q = "$" + "".join(segs)
    if rng.random() < 0.1:
        q = q.replace("..", " \n..", 1).replace("[", "[ ", 1)
    return q


def gen_bad_query(rng):
    q = gen_query(rng)
    r = rng.random()
    if r < 0.3:
        i = rng.randrange(len(q) + 1)
        return q[:i] + rng.choice(list("$.[]'\"?@!&|()*,:-0 \n\té\U0001f600\\#")) + q[i:]
    if r < 0.55:
        i = rng.randrange(len(q))
        return q[:i] + q[i + 1 :]
    if r < 0.7:
        return q + rng.choice(["..", ".", "[", "..[", "...a", " ", "..[01]", "..[-0]"])
    if r < 0.8:
        return q + f"..[{rng.choice([2**53, -(2**53), 2**53 - 1, 10**30])}]"
    if r < 0.9:
        return rng.choice(["", " $..a", "$.. a", "$..[?@..a == 1]", "$..[?count(@..a)]",
                           "$..[?length(@..*) > 1]", "$..[?foo(@..a)]", "$..[1:2:3:4]",
                           "$..['a' 'b']", "$..[,]", "$..[?]", "$..[? @..a &&]"])
    i = rng.randrange(len(q))
    return q[:i] + q[i:].upper()


# --------------------------------------------------------------------------
# observing behaviour


def run(lib, env, query, doc, compiled=None):
    """Return a comparable signature of env.finditer(query, doc)."""
    try:
        q = compiled if compiled is not None else env.compile(query)
    except Exception as err:  # noqa: BLE001
        return compile_error_sig(lib, err, query)
    out = []
    try:
        for node in q.finditer(doc):
            out.append((node.location, id(node.value)))
    except Exception as err:  # noqa: BLE001
        return ("eval-error", type(err).__name__, isinstance(err, lib.Error),
                str(err), tuple(out))
    return ("ok", tuple(out))


def compile_error_sig(lib, err, query):
    tok = getattr(err, "token", None)
    idx = getattr(tok, "index", None)
    inside = idx is not None and 0 <= idx <= len(query)
    text = str(err)
    linecol_ok = True
    if tok is not None and idx is not None and inside:
        line = query.count("\n", 0, idx) + 1
        col = idx - (query.rfind("\n", 0, idx) + 1)
        linecol_ok = text.endswith(f"line {line}, column {col}")
    return ("compile-error", type(err).__name__, isinstance(err, lib.Error),
            inside, linecol_ok, "\n" not in text.split(", line ")[0], text)


failures = []
counts = Counter()
slowest = {}


def fail(part, msg, **info):
    failures.append((part, msg))
    if len(failures) <= 20:
        try:
            text = repr(info)
        except RecursionError:
            text = "<too deep to print>"
        print(f"FAIL [{part}] {msg}: {text}"[:2000], flush=True)


# --------------------------------------------------------------------------
# independent model of the documents


def containers(doc):
    """All (location, value) of dicts/lists in doc, root included, pre-order."""
    out = []
    stack = [((), doc)]
    while stack:
        loc, v = stack.pop()
        if isinstance(v, dict):
            out.append((loc, v))
            stack.extend((loc + (k,), c) for k, c in reversed(list(v.items())))
        elif isinstance(v, list):
            out.append((loc, v))
            stack.extend((loc + (i,), c) for i, c in reversed(list(enumerate(v))))
    return out


def get_at(doc, loc):
    v = doc
    for k in loc:
        v = v[k]
    return v


def visit_order_ok(doc, seq):
    """Is seq (locations of visited containers) a valid descendant visiting order?"""
    if not isinstance(doc, (dict, list)):
        return seq == [()] or seq == []
    expect = [loc for loc, _ in containers(doc)]
    if sorted(map(repr, seq)) != sorted(map(repr, expect)):
        return False
    pos = {loc: i for i, loc in enumerate(seq)}
    if len(pos) != len(seq):
        return False
    for loc in seq:
        if loc and pos[loc[:-1]] > pos[loc]:
            return False
    by_parent = {}
    for loc in expect:
        if loc and isinstance(get_at(doc, loc[:-1]), list):
            by_parent.setdefault(loc[:-1], []).append(loc)
    for sibs in by_parent.values():
        sibs.sort(key=lambda l: l[-1])
        for x, y in zip(sibs, sibs[1:]):
            if pos[x] > pos[y]:
                return False
    return True


def must_precede(doc, x, y):
    """True if RFC 9535 forces visiting x before y (x != y)."""
    n = min(len(x), len(y))
    i = 0
    while i < n and x[i] == y[i]:
        i += 1
    if i == len(x):
        return len(y) > len(x)  # x is an ancestor of y
    if i == len(y):
        return False
    # diverge below the common ancestor x[:i]
    if isinstance(get_at(doc, x[:i]), list) and len(x) == i + 1 and x[i] < y[i]:
        return True
    return False


def descendant_result_ok(lib_det_env, doc, selectors_text, result):
    """Check the order of the result of `$..[selectors]` in nondeterministic mode.

    result: tuple of (location, id).  Results for one visited node must be
    contiguous and in selector order (members of an object in any order for
    wildcard and filter selectors), visited nodes in an allowed order.
    """
    groups = []
    for loc, _id in result:
        parent = loc[:-1]
        if groups and groups[-1][0] == parent:
            groups[-1][1].append(loc)
        else:
            groups.append((parent, [loc]))
    parents = [g[0] for g in groups]
    if len(set(parents)) != len(parents):
        return "results of one node not contiguous"
    for i in range(len(parents)):
        for j in range(i + 1, len(parents)):
            if must_precede(doc, parents[j], parents[i]):
                return f"{parents[j]} must be visited before {parents[i]}"
    sels = split_selectors(selectors_text)
    for parent, locs in groups:
        value = get_at(doc, parent)
        k = 0
        for sel in sels:
            exp = [n.location for n in lib_det_env.find("$" + "".join(
                f"[{canon(p)}]" for p in parent) + f"[{sel}]", doc)]
            got = locs[k : k + len(exp)]
            k += len(exp)
            free = isinstance(value, dict) and (sel == "*" or sel.startswith("?"))
            if free:
                if sorted(map(repr, got)) != sorted(map(repr, exp)):
                    return "wrong members"
            elif got != exp:
                return f"selector {sel} at {parent}: {got} != {exp}"
        if k != len(locs):
            return "extra results"
    return None


def canon(p):
    if isinstance(p, int):
        return str(p)
    out = ["'"]
    for ch in p:
        if ch == "'":
            out.append("\\'")
        elif ch == "\\":
            out.append("\\\\")
        elif ord(ch) < 0x20:
            out.append(f"\\u{ord(ch):04x}")
        else:
            out.append(ch)
    out.append("'")
    return "".join(out)


def split_selectors(text):
    """Split the inside of a bracketed selection on top level commas."""
    parts, depth, cur, quote = [], 0, [], None
    i = 0
    while i < len(text):
        ch = text[i]
        if quote:
            cur.append(ch)
            if ch == "\\":
                cur.append(text[i + 1])
                i += 1
            elif ch == quote:
                quote = None
        elif ch in "'\"":
            quote = ch
            cur.append(ch)
        elif ch in "([":
            depth += 1
            cur.append(ch)
        elif ch in ")]":
            depth -= 1
            cur.append(ch)
        elif ch == "," and depth == 0:
            parts.append("".join(cur).strip())
            cur = []
        else:
            cur.append(ch)
        i += 1
    parts.append("".join(cur).strip())
    return parts


SINGLE_DESC = [
    ("$..*", "*"),
    ("$..[*]", "*"),
    ("$..a", "'a'"),
    ("$..[0]", "0"),
    ("$..[-1]", "-1"),
    ("$..[::2]", "::2"),
    ("$..[::-1]", "::-1"),
    ("$..['a',0]", "'a',0"),
    ("$..[0,'a','a']", "0,'a','a'"),
    ("$..[*,*]", "*,*"),
    ("$..[*,0]", "*,0"),
    ("$..[?@.a]", "?@.a"),
    ("$..[?@ == 'a', 0]", "?@ == 'a', 0"),
    ("$..[?@..a]", "?@..a"),
    ("$..['é', *]", "'é', *"),
]

# --------------------------------------------------------------------------
# part 1


def part1(orig, new, rng, n):
    for _ in range(n):
        doc = gen_doc(rng)
        query = gen_query(rng)
        limit = rng.choice([100, 100, 100, 6, 4, 3, 2, 1, 0])
        a = run(orig, orig.env(False, limit), query, doc)
        b = run(new, new.env(False, limit), query, doc)
        counts["1 deterministic exact"] += 1
        counts["1 outcome " + a[0]] += 1
        if a != b:
            fail(1, "deterministic results differ", query=query, doc=doc, limit=limit,
                 orig=a, new=b)
        if a[0] != "compile-error" and rng.random() < 0.2:
            one = []
            for lib in (orig, new):
                try:
                    n1 = lib.env(False, limit).find_one(query, doc)
                    one.append(None if n1 is None else (n1.location, id(n1.value)))
                except Exception as err:  # noqa: BLE001
                    one.append(("err", type(err).__name__, str(err)))
            counts["1 find_one"] += 1
            if one[0] != one[1]:
                fail(1, "find_one differs", query=query, doc=doc, got=one)
            if a[0] == "ok" and one[0] != (a[1][0] if a[1] else None):
                fail(1, "find_one is not first of find", query=query, doc=doc)


# --------------------------------------------------------------------------
# part 2


def visit_locations(lib, env, doc):
    q = env.compile("$..*")
    seg = q.segments[0]
    root = lib.pkg.JSONPathNode(value=doc, location=(), root=doc)
    seq = []
    for node in seg._nondeterministic_visit(root):
        if not (get_at(doc, node.location) is node.value):
            return None
        if isinstance(node.value, (dict, list)) or node.location == ():
            seq.append(node.location)
    return seq


def part2(orig, new, rng, n):
    for _ in range(n):
        doc = gen_doc(rng)
        limit = rng.choice([100, 100, 100, 100, 6, 4, 3, 2, 1, 0])
        single = rng.random() < 0.5
        if single:
            query, sels = rng.choice(SINGLE_DESC)
        else:
            query, sels = gen_query(rng), None
        det = run(orig, orig.env(False, limit), query, doc)
        a = run(orig, orig.env(True, limit), query, doc)
        b = run(new, new.env(True, limit), query, doc)
        counts["2 nondeterministic"] += 1
        counts["2 outcome " + a[0]] += 1
        if a[0] != b[0]:
            fail(2, "accept/raise differs", query=query, doc=doc, limit=limit, orig=a, new=b)
            continue
        if a[0] == "compile-error":
            if a != b:
                fail(2, "compile error differs", query=query, orig=a, new=b)
            continue
        if a[0] == "eval-error":
            if a[1:4] != b[1:4]:
                fail(2, "evaluation error differs", query=query, doc=doc, orig=a, new=b)
            # number of nodes before the error is only deterministic when
            # no object is iterated before the failing root
            continue
        if Counter(a[1]) != Counter(b[1]):
            fail(2, "multiset differs", query=query, doc=doc, orig=a, new=b)
        if det[0] == "ok" and Counter(det[1]) != Counter(b[1]):
            fail(2, "multiset differs from deterministic", query=query, doc=doc)
        if sels is not None and len(containers(doc)) <= 40:
            for lib, r in ((orig, a), (new, b)):
                why = descendant_result_ok(orig.env(False, 10**6), doc, sels, r[1])
                counts["2 order predicate"] += 1
                if why:
                    fail(2, f"{lib.label}: order not allowed: {why}", query=query, doc=doc,
                         result=[x[0] for x in r[1]])
        # the visitor itself
        if limit == 100:
            for lib in (orig, new):
                seq = visit_locations(lib, lib.env(True, limit), doc)
                counts["2 visitor order"] += 1
                if seq is None or not visit_order_ok(doc, seq):
                    fail(2, f"{lib.label}: invalid visiting order", doc=doc, seq=seq)


# --------------------------------------------------------------------------
# part 3: exhaustive exploration of the random choices


class TooMany(Exception):
    pass


class Explorer:
    """Enumerates every outcome of a sequence of finite random choices."""

    def __init__(self):
        self.prefix = []
        self.trace = []
        self.pos = 0

    def start(self):
        self.trace = []
        self.pos = 0

    def choose(self, n):
        if n <= 0:
            raise ValueError("empty range")
        if n == 1:
            return 0
        c = self.prefix[self.pos] if self.pos < len(self.prefix) else 0
        assert c < n
        self.trace.append((c, n))
        self.pos += 1
        return c

    def advance(self):
        t = self.trace
        while t and t[-1][0] + 1 >= t[-1][1]:
            t.pop()
        if not t:
            return False
        self.prefix = [c for c, _ in t]
        self.prefix[-1] += 1
        return True


class FakeRandom:
    """Stands in for the `random` module inside the library."""

    def __init__(self, ex):
        self.ex = ex

    def randrange(self, start, stop=None, step=1):
        assert step == 1
        if stop is None:
            return self.ex.choose(start)
        return start + self.ex.choose(stop - start)

    def randint(self, a, b):
        return a + self.ex.choose(b - a + 1)

    def choice(self, seq):
        return seq[self.ex.choose(len(seq))]

    def getrandbits(self, k):
        return self.ex.choose(2**k)

    def shuffle(self, x):
        pool = list(x)
        out = []
        while pool:
            out.append(pool.pop(self.ex.choose(len(pool))))
        x[:] = out

    def sample(self, population, k):
        pool = list(population)
        if not 0 <= k <= len(pool):
            raise ValueError("sample larger than population")
        out = []
        for _ in range(k):
            # identical objects are interchangeable: choose among distinct ones
            distinct = []
            seen = set()
            for i, item in enumerate(pool):
                if id(item) not in seen:
                    seen.add(id(item))
                    distinct.append(i)
            out.append(pool.pop(distinct[self.ex.choose(len(distinct))]))
        return out

    def random(self):
        # a coarse but exhaustive-enough grid for code that compares
        # random() against a probability
        return (self.ex.choose(64) + 0.5) / 64

    def __getattr__(self, name):
        raise AssertionError(f"random.{name} is not modelled by the explorer")


def explore(lib, fn, cap):
    """Return the set of fn() outcomes over all outcomes of the random choices."""
    ex = Explorer()
    lib.set_random(FakeRandom(ex))
    results = set()
    leaves = 0
    try:
        while True:
            ex.start()
            results.add(fn())
            leaves += 1
            if leaves > cap:
                raise TooMany
            if not ex.advance():
                break
    finally:
        lib.set_random(random)
    return results, leaves


def linear_extensions(doc):
    """Brute force: all allowed visiting orders of the containers of doc."""
    conts = [loc for loc, _ in containers(doc)]
    if not conts:
        return {((),)}
    out = set()

    def allowed(done, loc):
        if loc and loc[:-1] not in done:
            return False
        if loc and isinstance(get_at(doc, loc[:-1]), list):
            for other in conts:
                if (other[:-1] == loc[:-1] and len(other) == len(loc)
                        and other[-1] < loc[-1] and other not in done):
                    return False
        return True

    def rec(seq, done):
        if len(seq) == len(conts):
            out.add(tuple(seq))
            return
        for loc in conts:
            if loc not in done and allowed(done, loc):
                done.add(loc)
                seq.append(loc)
                rec(seq, done)
                seq.pop()
                done.discard(loc)

    rec([], set())
    return out


def gen_tiny(rng):
    budget = [rng.choice([3, 4, 5, 6, 7])]

    def g(depth):
        budget[0] -= 1
        if depth <= 0 or budget[0] <= 0 or rng.random() < 0.3:
            return rng.choice([1, "a", None, 10**400, True])
        n = rng.choice([0, 1, 2, 2, 3])
        if rng.random() < 0.5:
            return [g(depth - 1) for _ in range(n)]
        return {k: g(depth - 1) for k in rng.sample(["a", "b", "c", "\U0001f600"], n)}

    v = g(3)
    return v if isinstance(v, (dict, list)) else [v]


TINY_QUERIES = ["$..*", "$..[0]", "$..a", "$..[*,0]", "$..[?@.a]", "$..[?@..a]",
                "$[*]..[0,'a']", "$..[-1]..*", "$..*..*"]


def part3(orig, new, rng, n):
    done = 0
    attempts = 0
    while done < n and attempts < n * 20:
        attempts += 1
        doc = gen_tiny(rng)
        ext = None
        try:
            sets = []
            for lib in (orig, new):
                env = lib.env(True, 100)

                def visit(lib=lib, env=env):
                    return tuple(visit_locations(lib, env, doc))

                s, leaves = explore(lib, visit, 4000)
                counts[f"3 leaves explored ({lib.label})"] += leaves
                sets.append(s)
            ext = linear_extensions(doc)
        except TooMany:
            counts["3 skipped, too many outcomes"] += 1
            continue
        counts["3 exhaustive visiting orders"] += 1
        if sets[0] != sets[1]:
            fail(3, "sets of visiting orders differ", doc=doc,
                 only_orig=sorted(sets[0] - sets[1])[:3], only_new=sorted(sets[1] - sets[0])[:3])
        if sets[1] != ext:
            fail(3, "patched: visiting orders != linear extensions", doc=doc,
                 missing=sorted(ext - sets[1])[:3], extra=sorted(sets[1] - ext)[:3])
        if sets[0] != ext:
            fail(3, "orig: visiting orders != linear extensions", doc=doc)
        for query in rng.sample(TINY_QUERIES, 3):
            try:
                sets = []
                for lib in (orig, new):
                    env = lib.env(True, 100)
                    q = env.compile(query)

                    def find(q=q):
                        return tuple(n.location for n in q.finditer(doc))

                    s, leaves = explore(lib, find, 4000)
                    counts[f"3 leaves explored ({lib.label})"] += leaves
                    sets.append(s)
            except TooMany:
                counts["3 skipped, too many outcomes"] += 1
                continue
            counts["3 exhaustive result sets"] += 1
            if sets[0] != sets[1]:
                fail(3, "sets of possible results differ", doc=doc, query=query,
                     only_orig=sorted(sets[0] - sets[1], key=repr)[:3],
                     only_new=sorted(sets[1] - sets[0], key=repr)[:3])
        done += 1


# --------------------------------------------------------------------------
# part 4: the depth limit


def nest(depth, shape, leaf=1):
    """A value whose container nesting is exactly `depth` (0 = a scalar)."""
    v = leaf
    for i in range(depth):
        kind = shape[i % len(shape)]
        if kind == "l":
            v = [v]
        elif kind == "d":
            v = {"a": v}
        elif kind == "L":
            v = [0, "x", v, []]
        elif kind == "D":
            v = {"b": 1, "a": v, "c": {}}
        elif kind == "W":  # wide, deepest last
            v = [[], {}, [1], v]
        elif kind == "w":  # wide, deepest first
            v = [v, [], {}, [1]]
    return v


def cyclic(kind, fan):
    if kind == "list":
        x = []
        x.extend([x] * fan)
        return x
    if kind == "dict":
        x = {}
        for i in range(fan):
            x[f"k{i}"] = x
        return x
    if kind == "mixed":
        a, b = {}, []
        a["a"] = b
        a["z"] = [1, 2]
        for _ in range(fan):
            b.append(a)
        return a
    if kind == "tail":  # a healthy part first, the cycle at the very end
        x = [nest(3, "LD"), {"a": [1, 2, 3]}]
        y = {"a": x}
        x.append(y)
        return [nest(2, "l"), x]
    if kind == "head":
        x = []
        y = {"a": x}
        x.extend([y, nest(3, "LD"), {"a": [1, 2, 3]}])
        return [x, nest(2, "l")]
    raise AssertionError(kind)


DEPTH_QUERIES = ["$..*", "$..a", "$[*]..*", "$..[?@..a]", "$..[0]..*", "$[?@..a]"]


def part4(orig, new, rng, n):
    t_part = time.time()
    combos = []
    for depth in range(0, 10):
        for limit in range(0, 10):
            for shape in ["l", "d", "ld", "L", "D", "W", "w", "LdWw"]:
                combos.append((depth, limit, shape))
    rng.shuffle(combos)
    for depth, limit, shape in combos[: max(200, n)]:
        doc = nest(depth, shape)
        for base in (doc, [nest(1, "l"), doc, nest(2, "d")]):
            for query in DEPTH_QUERIES:
                a = run(orig, orig.env(False, limit), query, base)
                b = run(new, new.env(False, limit), query, base)
                counts["4 depth grid deterministic"] += 1
                if a != b:
                    fail(4, "deterministic depth behaviour differs", query=query, doc=base,
                         limit=limit, orig=a, new=b)
                a = run(orig, orig.env(True, limit), query, base)
                b = run(new, new.env(True, limit), query, base)
                counts["4 depth grid nondeterministic"] += 1
                same = a[0] == b[0]
                if same and a[0] == "eval-error":
                    same = a[1:4] == b[1:4]
                    # where no object is iterated before the failing root, the
                    # nodes delivered before the error are the same multiset
                    if query in ("$..*", "$..a", "$..[?@..a]") or (
                        query == "$[*]..*" and isinstance(base, list)
                    ):
                        same = same and Counter(a[4]) == Counter(b[4])
                elif same:
                    same = Counter(a[1]) == Counter(b[1])
                if not same:
                    fail(4, "nondeterministic depth behaviour differs", query=query,
                         doc=base, limit=limit, orig=a, new=b)
                counts["4 outcome " + a[0]] += 1

    print(f"  depth grid {time.time() - t_part:.1f}s", flush=True)
    # cyclic data: bounded time, right class, whatever the fan-out and limit
    for kind in ["list", "dict", "mixed", "tail", "head"]:
        for fan in [1, 2, 3, 8]:
            for limit in [0, 1, 2, 5, 100, 1000, 3000]:
                doc = cyclic(kind, fan)
                for nd in (False, True):
                    for query in ["$..*", "$..a", "$[*]..*", "$..[?@..a]"]:
                        sigs = []
                        for lib in (orig, new):
                            t0 = time.perf_counter()
                            sig = run(lib, lib.env(nd, limit), query, doc)
                            dt = time.perf_counter() - t0
                            if nd or sig[0] != "eval-error":
                                sigs.append(sig[:4])
                            else:
                                sigs.append(sig)
                            counts["4 cyclic"] += 1
                            slowest[(lib.label, "nd" if nd else "det")] = max(
                                slowest.get((lib.label, "nd" if nd else "det"), 0.0), dt
                            )
                            if dt > 5.0:
                                fail(4, f"{lib.label}: cyclic data took {dt:.1f}s", kind=kind,
                                     fan=fan, limit=limit, nd=nd, query=query)
                            if sig[0] != "eval-error" or sig[1] != "JSONPathRecursionError":
                                fail(4, f"{lib.label}: no JSONPathRecursionError", kind=kind,
                                     fan=fan, limit=limit, nd=nd, query=query, sig=sig[:3])
                        if sigs[0] != sigs[1]:
                            fail(4, "cyclic behaviour differs", kind=kind, fan=fan,
                                 limit=limit, nd=nd, query=query)

    print(f"  cyclic {time.time() - t_part:.1f}s", flush=True)
    # very deep, not cyclic
    for depth, limit in [(5000, 100), (3000, 5000), (1500, 1500), (1501, 1500),
                         (1499, 1500), (101, 100), (100, 100)]:
        for shape in ["l", "d", "ld", "W", "w"]:
            doc = nest(depth, shape)
            for nd in (False, True):
                sigs = []
                for lib in (orig, new):
                    env = lib.env(nd, limit)
                    q = env.compile("$..[0]" if shape != "d" else "$..a")
                    out = []
                    try:
                        for node in q.finditer(doc):
                            out.append(len(node.location))
                        sig = ("ok", Counter(out))
                    except Exception as err:  # noqa: BLE001
                        sig = ("err", type(err).__name__, isinstance(err, lib.Error),
                               str(err), None if nd else len(out))
                    sigs.append(sig)
                    counts["4 very deep"] += 1
                    # the wide shapes have a sibling container beside the leaf
                    expect_err = depth + (1 if shape in "Ww" else 0) > limit
                    if (sig[0] == "err") != expect_err or (
                        sig[0] == "err" and sig[1] != "JSONPathRecursionError"
                    ):
                        fail(4, f"{lib.label}: wrong outcome on deep data", depth=depth,
                             limit=limit, shape=shape, nd=nd, sig=sig[:3])
                if sigs[0] != sigs[1]:
                    fail(4, "deep data behaviour differs", depth=depth, limit=limit,
                         shape=shape, nd=nd, orig=sigs[0][:4], new=sigs[1][:4])


# --------------------------------------------------------------------------
# part 5: interleaving and threads


def part5(orig, new, rng, n):
    for _ in range(n):
        docs = [gen_doc(rng) for _ in range(3)]
        queries = [gen_query(rng) for _ in range(3)]
        limit = rng.choice([100, 100, 4])
        for nd in (False, True):
            for lib in (orig, new):
                env = lib.env(nd, limit)
                compiled = []
                for q in queries:
                    try:
                        compiled.append(env.compile(q))
                    except lib.Error:
                        pass
                if not compiled:
                    continue
                jobs = [(q, d) for q in compiled for d in docs]
                solo = [run(lib, env, None, d, compiled=q) for q, d in jobs]
                # interleaved in one thread, some abandoned half-way
                its = [iter(q.finditer(d)) for q, d in jobs]
                got = [[] for _ in jobs]
                state = ["run"] * len(jobs)
                quota = [rng.choice([None, None, 1, 3]) for _ in jobs]
                live = list(range(len(jobs)))
                while live:
                    i = rng.choice(live)
                    try:
                        node = next(its[i])
                        got[i].append((node.location, id(node.value)))
                        if quota[i] is not None and len(got[i]) >= quota[i]:
                            state[i] = "abandoned"
                            live.remove(i)
                    except StopIteration:
                        state[i] = "done"
                        live.remove(i)
                    except lib.Error as err:
                        state[i] = ("err", type(err).__name__, str(err))
                        live.remove(i)
                for i, s in enumerate(solo):
                    counts["5 interleaved iterators"] += 1
                    check_against_solo(5, lib, nd, jobs[i], s, got[i], state[i])

                # threads sharing the environment and the compiled queries
                results = [None] * len(jobs)

                def work(i, lib=lib, env=env, jobs=jobs, results=results):
                    q, d = jobs[i]
                    results[i] = run(lib, env, None, d, compiled=q)

                threads = [threading.Thread(target=work, args=(i,)) for i in range(len(jobs))]
                for t in threads:
                    t.start()
                for t in threads:
                    t.join()
                for i, s in enumerate(solo):
                    counts["5 threads"] += 1
                    r = results[i]
                    if nd:
                        ok = r[0] == s[0] and (
                            Counter(r[1]) == Counter(s[1]) if r[0] == "ok" else r[1:4] == s[1:4]
                        )
                    else:
                        ok = r == s
                    if not ok:
                        fail(5, f"{lib.label}: threaded result differs from solitary run",
                             nd=nd, query=str(jobs[i][0]), doc=jobs[i][1])
        # the two libraries agree on the solitary runs (deterministic)
        for q in queries:
            for d in docs:
                a = run(orig, orig.env(False, limit), q, d)
                b = run(new, new.env(False, limit), q, d)
                counts["5 solitary cross-check"] += 1
                if a != b:
                    fail(5, "solitary results differ", query=q, doc=d)


def check_against_solo(part, lib, nd, job, solo, got, state):
    q, d = job
    if state == "abandoned":
        if not nd and solo[0] == "ok" and tuple(got) != solo[1][: len(got)]:
            fail(part, f"{lib.label}: abandoned iterator is not a prefix", query=str(q), doc=d)
        return
    if state == "done":
        if solo[0] != "ok":
            fail(part, f"{lib.label}: interleaved run completed, solitary raised",
                 query=str(q), doc=d)
        elif nd and Counter(got) != Counter(solo[1]):
            fail(part, f"{lib.label}: interleaved multiset differs", query=str(q), doc=d)
        elif not nd and tuple(got) != solo[1]:
            fail(part, f"{lib.label}: interleaved result differs", query=str(q), doc=d)
        return
    if solo[0] != "eval-error" or (state[1], state[2]) != (solo[1], solo[3]):
        fail(part, f"{lib.label}: interleaved error differs", query=str(q), doc=d,
             state=state, solo=solo[:4])


# --------------------------------------------------------------------------
# part 6: invalid queries


def part6(orig, new, rng, n):
    doc = {"a": [1, {"a": 2, "b": [3]}], "b": {"a": "x"}}
    for _ in range(n):
        q = gen_bad_query(rng)
        for nd in (False, True):
            a = run(orig, orig.env(nd, 100), q, doc)
            b = run(new, new.env(nd, 100), q, doc)
            counts["6 mutated queries"] += 1
            counts["6 outcome " + a[0]] += 1
            if a[0] != b[0]:
                fail(6, "accept/reject differs", query=q, orig=a, new=b)
            elif a[0] == "compile-error":
                if a != b:
                    fail(6, "compile error differs", query=q, orig=a, new=b)
                if not (b[2] and b[3] and b[4] and b[5]):
                    # same for both libraries (a == b): a property of the
                    # untouched parser, reported but not a difference
                    counts["6 (both) error position not inside text/line-col"] += 1
            elif not nd and a != b:
                fail(6, "results differ", query=q, orig=a, new=b)
            elif nd and a[0] == "ok" and Counter(a[1]) != Counter(b[1]):
                fail(6, "multisets differ", query=q, orig=a, new=b)


# --------------------------------------------------------------------------


def main():
    t0 = time.time()
    rng = random.Random(SEED)
    orig, new = load_libs()
    print(f"patch {PATCH_NAME}: orig={orig.segments.__file__} patched={new.segments.__file__}")

    def n(x):
        return max(1, int(x * SCALE))

    for name, fn, size in [
        ("part 1", part1, n(150000)),
        ("part 2", part2, n(100000)),
        ("part 3", part3, n(600)),
        ("part 4", part4, n(800)),
        ("part 5", part5, n(600)),
        ("part 6", part6, n(20000)),
    ]:
        t = time.time()
        fn(orig, new, rng, size)
        print(f"{name} done in {time.time() - t:.1f}s, failures so far: {len(failures)}",
              flush=True)

    print()
    total = 0
    for key in sorted(counts):
        print(f"  {key:55s} {counts[key]:>9d}")
    compared = [k for k in counts if k[0].isdigit() and "outcome" not in k
                and "leaves" not in k and "skipped" not in k and "(both)" not in k]
    total = sum(counts[k] for k in compared)
    print(f"\ncases compared: {total}   (random outcomes explored exhaustively: "
          f"{sum(v for k, v in counts.items() if 'leaves' in k)})")
    for key in sorted(slowest):
        print(f"slowest query on cyclic data, {key[0]} {key[1]}: {slowest[key]:.3f}s")
    print(f"seed {SEED}, {time.time() - t0:.0f}s")
    if failures:
        print(f"\n{len(failures)} BEHAVIOURAL DIFFERENCES / FAILURES")
        sys.exit(1)
    print("\nNO BEHAVIOURAL DIFFERENCE")


if __name__ == "__main__":
    main()
