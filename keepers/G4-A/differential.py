#!/venv/bin/python
"""Differential test: unmodified jsonpath_rfc9535 CLI against the CLI with patch_A.diff.

Usage:  /venv/bin/python diff_A.py [--cases N] [--procs P] [--seed S]

The script is self-contained: it copies /tmp/out11/G4/orig_pkg (the unmodified
package, saved before any change was made) into a scratch directory, applies
the patch to the copy with `git apply`, and then runs the SAME generated cases
against both packages, each in its own worker processes (so the two packages
never share an interpreter), and compares the recorded observations.

Three layers:
  1. in-process: `cli.main()` with sys.argv / sys.stdin / sys.stdout / sys.stderr
     replaced (the bulk: >= 100,000 cases);
  2. threads: `handle_path_command(args)` run from 8 threads at once on
     file-to-file cases, compared with the other package's results;
  3. subprocess: `python -m jsonpath_rfc9535 ...` with real pipes, including
     standard input delivered in small delayed pieces.

Per case we compare: how main() ended (returned / SystemExit code / class of an
escaping exception), the bytes on standard output, the bytes of the -o file (or
its absence), and the text on standard error.  For rejected queries we also
check that the offset carried by the error lies inside the query text and that
the printed line/column are those of that offset.
"""

from __future__ import annotations

import argparse
import hashlib
import io
import json
import os
import random
import re
import shutil
import subprocess
import sys
import tempfile
import threading
import time

PATCH_NAME = "patch_A.diff"
HERE = os.path.dirname(os.path.abspath(__file__))
ORIG_PKG = os.path.join(HERE, "orig_pkg")
PY = sys.executable

# --------------------------------------------------------------------------
# case generation (pure function of (seed, index))
# --------------------------------------------------------------------------

VALID_QUERIES = [
    "$",
    "$.*",
    "$..*",
    "$[*]",
    "$[0]",
    "$[-1]",
    "$[1:3]",
    "$[::2]",
    "$[::-1]",
    "$[5:1:-2]",
    "$[0,0]",
    "$[0,-1,'a']",
    "$.a",
    "$.a.b",
    "$['a']",
    '$["a"]',
    "$['a','b']",
    "$..a",
    "$..[0]",
    "$..['a','b']",
    "$..[*]",
    "$.a..b",
    "$[?@.a]",
    "$[?!@.a]",
    "$[?@.a > 1]",
    "$[?@.a >= 1.5e0]",
    "$[?@.a == 'x']",
    "$[?@.a != null]",
    "$[?@ == true]",
    "$[?@ < 1e3]",
    "$[?@ == $.a]",
    "$[?@.a && @.b || !@.c]",
    "$[?(@.a || @.b) && @.c]",
    "$[?length(@) > 1]",
    "$[?length(@.a) == 1]",
    "$[?count(@.*) == 2]",
    "$[?count(@..*) > 3]",
    "$[?match(@.a, 'a.*')]",
    "$[?match(@, '[a-z]+')]",
    "$[?search(@, '\\\\p{L}')]",
    "$[?search(@.a, 'x|y')]",
    "$[?value(@..a) == 1]",
    "$[?value(@.*) == $.a]",
    "$..[?@ < 1e3]",
    "$..[?@.a]",
    "$..[?length(@) == 0]",
    "$[?@[0] == @[-1]]",
    "$[?@[?@.a]]",
    "$[?@.a == -0.0]",
    "$[?@.a == 9007199254740991]",
    "$[?@ == 1e400]" if False else "$[?@ == 1e300]",
    "$[?@ == 1E-400]",
    "$[?@ == 'café']",
    "$[?@ == '\\ud83d\\ude00']",
    '$["\\u0000"]',
    "$['\\u00e9']",
    "$.é",
    "$.☺",
    "$.\U0001f600",
    "$['\U0001f600']",
    "$[ 'a' , 'b' ]",
    "$ .a",
    "$\n.a\n[\n0\n]",
    "$[?@.a\n==\n1]",
    "$['']",
    "$[' ']",
    "$['\\'']",
    '$["\\""]',
    "$['\\\\']",
    "$['\\/']",
    "$[9007199254740991]",
    "$[-9007199254740991]",
    "$[:9007199254740991]",
    "$[0:0]",
    "$[:]",
    "$[::0]",
    "$.a[?@.b == $.a[0].b]",
    "$..*..*",
    "$..a..a",
]

INVALID_QUERIES = [
    "",
    " ",
    "$ ",
    " $",
    "a",
    "$.",
    "$..",
    "$.1",
    "$[",
    "$[]",
    "$[0",
    "$[0,]",
    "$[,0]",
    "$[01]",
    "$[-0]",
    "$[-01]",
    "$[1.0]",
    "$[1e2]",
    "$[1:2:3:4]",
    "$[0:-0]",
    "$a",
    "$.a.",
    "$.a b",
    "$. a",
    "$['a'",
    "$['a\"]",
    "$['\\x']",
    "$['\\u12']",
    '$["\\ud800"]',
    '$["\\udc00\\ud800"]',
    "$['\\\"']",
    "$['\t']",
    "$['\x00']",
    "$[?]",
    "$[?@.a ==]",
    "$[?== 1]",
    "$[?@.a === 1]",
    "$[?@.a = 1]",
    "$[?@.a & @.b]",
    "$[?@.a &&]",
    "$[?@.a || || @.b]",
    "$[?(@.a]",
    "$[?@.a)]",
    "$[?!(@.a == 1) == true]",
    "$[?(@.a) == 1]",
    "$[?!@.a == 1]",
    "$[?@.* == 1]",
    "$[?@..a == 1]",
    "$[?@[0:1] == 1]",
    "$[?@['a','b'] == 1]",
    "$[?1]",
    "$[?'a']",
    "$[?true]",
    "$[?TRUE == @]",
    "$[?@ == True]",
    "$[?@ == NULL]",
    "$[?count(@.a, 'b')]",
    "$[?count(@..*)]",
    "$[?count(1) == 1]",
    "$[?count() == 1]",
    "$[?length(@.*) > 1]",
    "$[?length(@) ]",
    "$[?length(@)]",
    "$[?match(@.a) == true]",
    "$[?match(@.a, 'a') == true]",
    "$[?value(@.a)]",
    "$[?foo(@)]",
    "$[?foo()]",
    "$[?Length(@) == 1]",
    "$[?length (@) == 1]",
    "$[?@ == 01]",
    "$[?@ == 1.]",
    "$[?@ == .5]",
    "$[?@ == 1e]",
    "$[?@ == +1]",
    "$[?@ == 1e999]",
    "$[9007199254740992]",
    "$[-9007199254740992]",
    "$[9007199254740992:]",
    "$[::9007199254740992]",
    "$[99999999999999999999999999999999999999]",
    "$.a\n  [?@.b ==\n  ]",
    "$\n\n[\n\n01]",
    "$.a\r\n.1",
    "$.a]",
    "$.a)",
    "$$",
    "$@",
    "@.a",
    "$[?$]x",
    "$.a #",
    "$..[",
    "$...a",
    "$.\ud800" if False else "$. ",
    "$[ ]",
    "$.a\u0000",
    "$['a']['b'",
    "$[?@.a == 'b]",
    "$[?@.a == \"b']",
]

WS_DECOR = ["", "", "", " ", "\n", "\r\n", "\t", "  \n", "\n\n", "\x0b", "\x0c",
            " ", " ", "　", "\x1c", "\x1f", "﻿", "\x00"]

NASTY_STRINGS = [
    "", " ", "a", "b", "x", "abc", "café", "é", "☺", "\U0001f600",
    "\U0001f468‍\U0001f469‍\U0001f467", "é", "\u0000", "\u001f",
    "\u007f", "\u0080", " ", " ", "﻿", "�", "￿",
    "\U0010ffff", "'", '"', "\\", "/", "\n", "\r", "\t", "a b", "a.b", "$", "@",
    "*", "0", "-1", "1e3", "true", "null", "[]", "{}", "абв",
    "中文", "אב", "١٢", "\U0001d7d8", "K", "İ",
    "\udc80" if False else "",
]

NUMBER_SPELLINGS = [
    "0", "-0", "1", "-1", "2", "10", "0.0", "-0.0", "0.5", "1.5", "1e0", "1E0",
    "1e+2", "1e-2", "1.0e3", "1e300", "1e308", "1.7976931348623157e308", "1e309",
    "-1e309", "1e400", "1e-300", "5e-324", "4.9e-324", "1e-400", "-1e-400",
    "9007199254740991", "9007199254740992", "9007199254740993", "-9007199254740993",
    "18446744073709551616", "123456789012345678901234567890", "1" + "0" * 400,
    "0.1", "0.30000000000000004", "3.141592653589793238462643383279",
    "1000000000000000000000.0", "1e22", "1e23", "2.2250738585072014e-308",
    "NaN", "Infinity", "-Infinity",
]


def _json_string(rng: random.Random, s: str) -> str:
    """Spell the string _s_ as a JSON string literal, choosing escape forms at random."""
    out = ['"']
    for ch in s:
        cp = ord(ch)
        r = rng.random()
        if ch == '"':
            out.append('\\"')
        elif ch == "\\":
            out.append("\\\\")
        elif cp < 0x20:
            short = {8: "\\b", 12: "\\f", 10: "\\n", 13: "\\r", 9: "\\t"}
            if cp in short and r < 0.5:
                out.append(short[cp])
            else:
                out.append("\\u%04x" % cp if r < 0.75 else "\\u%04X" % cp)
        elif ch == "/" and r < 0.3:
            out.append("\\/")
        elif cp > 0xFFFF and r < 0.4:
            v = cp - 0x10000
            out.append("\\u%04x\\u%04x" % (0xD800 + (v >> 10), 0xDC00 + (v & 0x3FF)))
        elif cp >= 0x7F and cp <= 0xFFFF and r < 0.3:
            out.append("\\u%04x" % cp)
        else:
            out.append(ch)
    out.append('"')
    return "".join(out)


def _gen_value(rng: random.Random, depth: int) -> str:
    """Return JSON text for a random value."""
    ws = rng.choice(["", "", "", " ", "\n", "\t ", "\r\n"])
    r = rng.random()
    if depth <= 0 or r < 0.35:
        k = rng.random()
        if k < 0.30:
            return rng.choice(NUMBER_SPELLINGS if rng.random() < 0.5 else ["0", "1", "2", "3", "1.5", "-1"])
        if k < 0.65:
            s = rng.choice(NASTY_STRINGS)
            if rng.random() < 0.3:
                s += rng.choice(NASTY_STRINGS)
            if rng.random() < 0.03:
                # a lone surrogate escape: legal for json, round-trips through json.dump
                return '"\\ud800"' if rng.random() < 0.5 else '"a\\udfffb"'
            return _json_string(rng, s)
        return rng.choice(["true", "false", "null", "[]", "{}", "[ ]", "{ }", '""'])
    if r < 0.68:
        n = rng.choice([0, 1, 1, 2, 2, 3, 4, 6])
        items = [_gen_value(rng, depth - 1) for _ in range(n)]
        return "[" + ws + ("," + ws).join(items) + ws + "]"
    n = rng.choice([0, 1, 2, 2, 3, 4])
    members = []
    for _ in range(n):
        key = rng.choice(["a", "a", "b", "c", "x", ""] + NASTY_STRINGS)
        members.append(_json_string(rng, key) + ws + ":" + ws + _gen_value(rng, depth - 1))
    return "{" + ws + ("," + ws).join(members) + ws + "}"


def _deep(rng: random.Random, depth: int) -> str:
    kind = rng.random()
    core = rng.choice(["1", '"a"', "{}", "[]", '{"a":1}', ""])
    if kind < 0.4:
        return "[" * depth + core + "]" * depth
    if kind < 0.8:
        return '{"a":' * depth + (core or "null") + "}" * depth
    half = depth // 2
    return ('[{"a":' * half) + (core or "null") + ("}]" * half)


def _big(rng: random.Random) -> str:
    """A document larger than a couple of read chunks, non-ASCII all the way through."""
    elem = rng.choice([
        '{"a":"café \U0001f600 中","b":[1,2.5,null]}',
        '"ééé\U0001f600"',
        '[1e400,-0,"\\ud83d\\ude00"," "]',
        '{"☺":{"a":[{"a":1},{"a":"x"}]}}',
        "123456789012345678901234567890",
    ])
    target = rng.choice([65530, 65536, 65540, 131072, 200000, 400000])
    n = max(2, target // len(elem.encode("utf-8")))
    pad = " " * rng.randrange(0, 4)
    return "[" + pad + ",".join([elem] * n) + "]"


def _doc_text(rng: random.Random) -> str:
    r = rng.random()
    if r < 0.80:
        return _gen_value(rng, rng.choice([1, 2, 3, 3, 4, 5]))
    if r < 0.90:
        return _deep(rng, rng.choice([1, 2, 50, 99, 100, 101, 102, 150, 300, 500, 900,
                                      960, 970, 980, 985, 990, 995, 1000, 1200, 3000,
                                      20000, 100000]))
    if r < 0.905:
        return _big(rng)
    if r < 0.91:
        return "1" + "0" * rng.choice([4299, 4300, 4301, 5000])  # int digit limit
    return rng.choice(['{"a":1,"a":2}', "[1,2,3]", '{"a":{"b":[1,2,{"a":3}]}}',
                       '[{"a":1,"b":2},{"a":"x","c":null},{"a":[1]},"s",1,null,true]',
                       '"just a string"', "0", "null", "true",
                       '{"a":"ab","b":"a.*"}', '["ab","ba","é\n","\r"]'])


def _break_text(rng: random.Random, text: str) -> str:
    r = rng.random()
    if r < 0.25 and text:
        return text[: rng.randrange(0, len(text))]
    if r < 0.40:
        return text + rng.choice([",", "]", "}", " x", "\x00", "1", "[]", "//c", "﻿"])
    if r < 0.55 and text:
        i = rng.randrange(0, len(text))
        return text[:i] + rng.choice(["'", ",", ":", "\x01", "\\", "]", "{", "tru", "\x7f", "\ud800" if False else "\u0085"]) + text[i + 1:]
    if r < 0.70:
        return rng.choice(["", " ", "\n", "﻿", "﻿﻿[1]", "[1,]", "{'a':1}", "[1 2]",
                           '{"a" 1}', '{"a":}', "[,1]", "nul", "True", "None", "+1", "01",
                           "1.", ".5", "1e", "0x10", '"abc', '"\\x"', '"\\u12"', '"\t"',
                           "[1]//", "/*c*/[1]", "[1]\x00", "\x00", "\\", "-", "--1",
                           "- 1", "[" * 10, "]", "{" , '{"a"', '{"a":1,}', "[1,,2]"])
    return "﻿" + text


def _doc_bytes(rng: random.Random):
    """Return (bytes, description)."""
    text = _doc_text(rng)
    r = rng.random()
    if r < 0.16:
        text = _break_text(rng, text)
    r = rng.random()
    if r < 0.78:
        try:
            data = text.encode("utf-8")
        except UnicodeEncodeError:
            data = text.encode("utf-8", "surrogatepass")
        r2 = rng.random()
        if r2 < 0.04:
            data = b"\xef\xbb\xbf" + data
        elif r2 < 0.10 and data:
            # damage the UTF-8
            i = rng.randrange(0, len(data))
            junk = rng.choice([b"\xff", b"\xfe", b"\xc0\xaf", b"\xed\xa0\x80", b"\xf8\x88\x80\x80\x80",
                               b"\xe2\x82", b"\xf0\x9f\x98", b"\x80", b"\xc3", b"\xf4\x90\x80\x80"])
            where = rng.random()
            if where < 0.3:
                data = data + junk
            elif where < 0.4:
                data = junk + data
            else:
                # inside a string if there is one, else anywhere
                q = data.find(b'"')
                i = q + 1 if q >= 0 and rng.random() < 0.7 else i
                data = data[:i] + junk + data[i:]
        return data
    enc = rng.choice(["utf-16", "utf-16-le", "utf-16-be", "utf-32", "utf-32-le", "utf-32-be",
                      "utf-8-sig", "latin-1", "cp1252", "utf-16-le-bom", "utf-16-be-bom",
                      "utf-32-le-bom", "utf-32-be-bom"])
    try:
        if enc.endswith("-bom"):
            base = enc[:-4]
            return "﻿".encode(base) + text.encode(base, "surrogatepass")
        if enc in ("latin-1", "cp1252"):
            return text.encode(enc, "replace")
        data = text.encode(enc, "surrogatepass")
    except (UnicodeEncodeError, LookupError):
        return text.encode("utf-8", "surrogatepass")
    if rng.random() < 0.15 and data:
        data = data[:-1]  # odd length
    return data


def _compose_query(rng: random.Random) -> str:
    segs = ["." + rng.choice(["a", "b", "c", "x", "*", "é"]),
            "[" + rng.choice(["0", "-1", "1", "*", "'a'", "'b','a'", "0,1", "1:", ":2", "::-1", "-2:", "0:4:2"]) + "]",
            ".." + rng.choice(["a", "b", "*", "[0]", "[*]", "['a']", "[-1]"]),
            "[?" + rng.choice(["@.a", "@.b", "!@.a", "@ == 1", "@ != 1", "@ > 1", "@ <= 'b'", "@.a == @.b",
                               "@.a < 2", "@.a >= 'a'", "length(@) >= 1", "count(@.*) == 1", "count(@..*) > 1",
                               "match(@.a, 'a.')", "search(@, 'b')", "value(@.a) == 1", "@ == $.a", "$.a",
                               "@ == null", "@ == true", "@ == 'a'", "@.*", "@..a", "@[0]",
                               "@.a && @.b", "@.a || @ == 1", "!(@.a == 1)", "@ == -0", "@ == 1e400" if False else "@ == 1e30"]) + "]"]
    q = "$"
    for _ in range(rng.choice([1, 1, 2, 2, 3, 4])):
        q += rng.choice(segs)
    return q


def _mutate_query(rng: random.Random, q: str) -> str:
    if not q:
        return rng.choice(["$", "", "x"])
    i = rng.randrange(0, len(q))
    r = rng.random()
    if r < 0.3:
        return q[:i] + q[i + 1:]
    if r < 0.6:
        return q[:i] + rng.choice(list("$@.[]()?*,:'\"\\ \n!&|=<>-01aeE+\x00é\U0001f600")) + q[i:]
    if r < 0.8:
        return q[:i]
    return q[:i] + rng.choice(list("$@.[]()?*,:'\" \n!&|=<>-0")) + q[i + 1:]


def gen_case(seed: int, index: int) -> dict:
    rng = random.Random((seed << 32) ^ (index * 0x9E3779B1))
    r = rng.random()
    if r < 0.30:
        q = rng.choice(VALID_QUERIES)
    elif r < 0.55:
        q = _compose_query(rng)
    elif r < 0.75:
        q = rng.choice(INVALID_QUERIES)
    else:
        q = _mutate_query(rng, rng.choice(VALID_QUERIES) if rng.random() < 0.5 else _compose_query(rng))
        if rng.random() < 0.3:
            q = _mutate_query(rng, q)

    case = {"i": index, "query": q}
    r = rng.random()
    if r < 0.62:
        case["qmode"] = "q"
    else:
        case["qmode"] = "r"
        text = rng.choice(WS_DECOR) + q + rng.choice(WS_DECOR)
        if rng.random() < 0.1:
            text = text.replace("\n", "\r\n")
        qb = text.encode("utf-8", "surrogatepass")
        if rng.random() < 0.03:
            qb += rng.choice([b"\xff", b"\xc3", b"\xed\xa0\x80"])
        if rng.random() < 0.02:
            qb = b"\xef\xbb\xbf" + qb
        case["qbytes"] = qb
    case["doc"] = _doc_bytes(rng)
    case["dmode"] = rng.choice(["stdin", "stdin", "dash", "file", "file", "file"])
    case["omode"] = rng.choice(["stdout", "stdout", "file"])
    case["pretty"] = rng.random() < 0.35
    case["debug"] = rng.random() < 0.25
    # argument-parser level oddities
    r = rng.random()
    case["odd"] = None
    if r < 0.035:
        case["odd"] = rng.choice(["nofile", "nodir_out", "noquery", "both", "unknown", "help", "version",
                                  "noqfile", "f_is_dir", "r_is_dir", "o_is_dir", "o_dash", "dup_f",
                                  "missing_arg", "abbrev", "eq_form", "r_dash"])
    return case


# --------------------------------------------------------------------------
# running one case in-process
# --------------------------------------------------------------------------

def build_argv(case: dict, tmp: str, tag: str = "") -> list:
    argv = []
    if case["debug"]:
        argv.append("--debug")
    if case["pretty"]:
        argv.append("--pretty")
    odd = case["odd"]
    qpath = os.path.join(tmp, "query%s.txt" % tag)
    dpath = os.path.join(tmp, "doc%s.json" % tag)
    opath = os.path.join(tmp, "out%s.json" % tag)
    for p in (qpath, dpath, opath):
        try:
            os.unlink(p)
        except OSError:
            pass
    if case["qmode"] == "q":
        if odd == "eq_form":
            argv += ["--query=" + case["query"]]
        elif odd == "abbrev":
            argv += ["--que", case["query"]]
        else:
            argv += ["-q", case["query"]]
    else:
        with open(qpath, "wb") as fd:
            fd.write(case["qbytes"])
        argv += ["-r", qpath]
    if odd == "noqfile":
        argv = [a for a in argv if a not in ("-q", "-r", case["query"], qpath)] + ["-r", os.path.join(tmp, "missing-query.txt")]
    if odd == "r_is_dir":
        argv = [a for a in argv if a not in ("-q", "-r", case["query"], qpath)] + ["-r", tmp]
    if odd == "r_dash":
        argv = [a for a in argv if a not in ("-q", "-r", case["query"], qpath)] + ["-r", "-"]
    if odd == "noquery":
        argv = [a for a in argv if a not in ("-q", "-r", case["query"], qpath)]
    if odd == "both":
        argv += ["-r", qpath] if case["qmode"] == "q" else ["-q", "$"]
        if case["qmode"] == "q":
            with open(qpath, "wb") as fd:
                fd.write(b"$")
    if case["dmode"] == "file":
        with open(dpath, "wb") as fd:
            fd.write(case["doc"])
        argv += ["-f", dpath]
        if odd == "dup_f":
            argv += ["--file", dpath]
    elif case["dmode"] == "dash":
        argv += ["-f", "-"]
    if odd == "nofile":
        argv += ["-f", os.path.join(tmp, "missing.json")]
    if odd == "f_is_dir":
        argv += ["-f", tmp]
    if case["omode"] == "file":
        argv += ["-o", opath]
    if odd == "nodir_out":
        argv += ["-o", os.path.join(tmp, "no-such-dir", "out.json")]
    if odd == "o_is_dir":
        argv += ["-o", tmp]
    if odd == "o_dash":
        argv += ["-o", "-"]
    if odd == "unknown":
        argv += ["--frobnicate"]
    if odd == "help":
        argv += ["-h"]
    if odd == "version":
        argv += ["--version"]
    if odd == "missing_arg":
        argv += ["-f"]
    return argv, opath


_LINECOL = re.compile(r", line (\d+), column (\d+)\s*$")


def check_offset(lib, query_text: str, stderr_text: str, exc) -> str:
    """For a rejected query: offset inside the text, printed line/column match."""
    try:
        lib.JSONPathEnvironment().compile(query_text)
    except lib.JSONPathError as err:
        tok = getattr(err, "token", None)
        if tok is None:
            return "no-token"
        if not (0 <= tok.index <= len(query_text)):
            return "OFFSET-OUTSIDE %r %r" % (tok.index, len(query_text))
        line = query_text.count("\n", 0, tok.index) + 1
        col = tok.index - (query_text.rfind("\n", 0, tok.index) + 1)
        shown = stderr_text if exc is None else str(exc)
        m = _LINECOL.search(shown.rstrip("\n"))
        if not m:
            return "NO-LINECOL %r" % shown[-80:]
        if (int(m.group(1)), int(m.group(2))) != (line, col):
            return "LINECOL-MISMATCH %r vs %r" % ((line, col), m.groups())
        return "ok"
    except Exception as err:  # noqa: BLE001
        return "other:" + type(err).__name__
    return "accepted"


def run_inproc(cli, lib, case: dict, tmp: str) -> dict:
    argv, opath = build_argv(case, tmp)
    raw_out = io.BytesIO()
    raw_in = io.BytesIO(case["doc"])
    new_in = io.TextIOWrapper(raw_in, encoding="utf-8", errors="strict")
    new_out = io.TextIOWrapper(raw_out, encoding="utf-8", write_through=True)
    new_err = io.StringIO()
    saved = (sys.argv, sys.stdin, sys.stdout, sys.stderr)
    sys.argv = ["jsonpath-rfc9535"] + argv
    sys.stdin, sys.stdout, sys.stderr = new_in, new_out, new_err
    exc_obj = None
    try:
        try:
            cli.main()
            status = ["return", None]
        except SystemExit as err:
            status = ["exit", err.code if isinstance(err.code, (int, type(None))) else repr(err.code)]
        except BaseException as err:  # noqa: BLE001
            status = ["raise", type(err).__module__ + "." + type(err).__qualname__]
            exc_obj = err
            try:
                status.append(str(err)[:300])
            except Exception as err2:  # noqa: BLE001
                status.append("STR-FAILED " + type(err2).__name__)
            err.__traceback__ = None
    finally:
        sys.argv, sys.stdin, sys.stdout, sys.stderr = saved
    try:
        new_out.flush()
    except ValueError:
        pass
    out = raw_out.getvalue() if not raw_out.closed else b"<closed>"
    errtext = new_err.getvalue()
    outfile = None
    if os.path.exists(opath):
        with open(opath, "rb") as fd:
            outfile = fd.read()
    res = {
        "i": case["i"],
        "status": status,
        "out": _digest(out),
        "outfile": None if outfile is None else _digest(outfile),
        "err": errtext if len(errtext) < 600 else errtext[:300] + "..." + _digest(errtext.encode("utf-8", "replace"))[0],
        "stdin_closed": raw_in.closed,
    }
    # rejected query => offset check
    if case["odd"] is None:
        qtext = case["query"] if case["qmode"] == "q" else None
        if qtext is None:
            try:
                qtext = case["qbytes"].decode("utf-8")
                qtext = io.TextIOWrapper(io.BytesIO(case["qbytes"]), encoding="utf-8").read().strip()
            except UnicodeDecodeError:
                qtext = None
        if qtext is not None:
            first = errtext.split(":", 1)[0]
            rejected = (status[0] == "exit" and status[1] == 1 and first in ("syntax error", "type error", "index error", "error")
                        and "recursion limit" not in errtext) or (
                status[0] == "raise" and status[1].startswith("jsonpath_rfc9535.") and "Recursion" not in status[1])
            if rejected:
                res["offset"] = check_offset(lib, qtext, errtext, exc_obj)
    exc_obj = None
    return res


def _digest(data: bytes):
    if len(data) <= 120:
        return [data.decode("latin-1"), len(data)]
    return [hashlib.sha256(data).hexdigest(), len(data), data[:40].decode("latin-1")]


# --------------------------------------------------------------------------
# worker
# --------------------------------------------------------------------------

def import_pkg(pkgdir: str):
    sys.path.insert(0, pkgdir)
    import jsonpath_rfc9535 as lib  # noqa: PLC0415
    from jsonpath_rfc9535 import cli  # noqa: PLC0415

    assert os.path.dirname(os.path.dirname(os.path.abspath(cli.__file__))) == os.path.abspath(pkgdir), cli.__file__
    return lib, cli


def worker_inproc(pkgdir: str, seed: int, lo: int, hi: int, outpath: str) -> None:
    lib, cli = import_pkg(pkgdir)
    tmp = tempfile.mkdtemp(prefix="g4w-")
    try:
        with open(outpath, "w", encoding="utf-8") as fd:
            for i in range(lo, hi):
                case = gen_case(seed, i)
                res = run_inproc(cli, lib, case, tmp)
                # paths differ between workers: normalise the temp dir
                res["err"] = res["err"].replace(tmp, "<TMP>")
                if len(res["status"]) > 2:
                    res["status"][2] = res["status"][2].replace(tmp, "<TMP>")
                fd.write(json.dumps(res, sort_keys=True) + "\n")
    finally:
        shutil.rmtree(tmp, ignore_errors=True)


def worker_threads(pkgdir: str, seed: int, lo: int, hi: int, outpath: str) -> None:
    """handle_path_command() from 8 threads at once, file in / file out."""
    lib, cli = import_pkg(pkgdir)
    tmp = tempfile.mkdtemp(prefix="g4t-")
    results = {}
    lock = threading.Lock()
    sys.stderr = io.StringIO()  # diagnostics of all threads land here; not compared

    def one(i: int) -> None:
        case = gen_case(seed, i)
        case["odd"] = None
        case["dmode"] = "file"
        case["omode"] = "file"
        case["debug"] = case["debug"] or (i % 3 == 0)
        if len(case["doc"]) > 4000:
            case["doc"] = b'[{"a":1},{"a":[1,2,{"a":"\xc3\xa9"}]},"s"]'
        tag = "-%d" % i
        with lock:
            argv, opath = build_argv(case, tmp, tag)
            try:
                args = cli.setup_parser().parse_args(argv)
            except SystemExit as err:
                results[i] = ["parse-exit", err.code]
                return
        try:
            cli.handle_path_command(args)
            status = ["return"]
        except SystemExit as err:
            status = ["exit", err.code]
        except BaseException as err:  # noqa: BLE001
            status = ["raise", type(err).__qualname__]
        args.output.flush()
        with open(opath, "rb") as fd:
            status.append(_digest(fd.read()))
        args.output.close()
        args.file.close()
        for p in (opath, os.path.join(tmp, "doc%s.json" % tag), os.path.join(tmp, "query%s.txt" % tag)):
            try:
                os.unlink(p)
            except OSError:
                pass
        results[i] = status

    idx = list(range(lo, hi))
    pos = [0]

    def loop() -> None:
        while True:
            with lock:
                if pos[0] >= len(idx):
                    return
                i = idx[pos[0]]
                pos[0] += 1
            try:
                one(i)
            except BaseException as err:  # noqa: BLE001
                results[i] = ["HARNESS-ERROR", repr(err)]

    threads = [threading.Thread(target=loop) for _ in range(8)]
    for t in threads:
        t.start()
    for t in threads:
        t.join()
    sys.stderr = sys.__stderr__
    with open(outpath, "w", encoding="utf-8") as fd:
        for i in idx:
            fd.write(json.dumps({"i": i, "status": results.get(i)}, sort_keys=True) + "\n")
    shutil.rmtree(tmp, ignore_errors=True)


# --------------------------------------------------------------------------
# subprocess layer
# --------------------------------------------------------------------------

def run_subprocess(pkgdir: str, case: dict, tmp: str, slow: bool) -> dict:
    argv, opath = build_argv(case, tmp)
    if any("\x00" in a for a in argv):
        return {"skipped": "NUL in argv"}
    env = dict(os.environ)
    env["PYTHONPATH"] = pkgdir
    env["PYTHONDONTWRITEBYTECODE"] = "1"
    proc = subprocess.Popen([PY, "-m", "jsonpath_rfc9535"] + argv, stdin=subprocess.PIPE,
                            stdout=subprocess.PIPE, stderr=subprocess.PIPE, env=env, cwd=tmp)
    doc = case["doc"]
    if slow:
        def feed() -> None:
            try:
                step = max(1, len(doc) // 7)
                for k in range(0, len(doc), step):
                    proc.stdin.write(doc[k:k + step])
                    proc.stdin.flush()
                    time.sleep(0.01)
                proc.stdin.close()
            except (BrokenPipeError, OSError):
                pass
        t = threading.Thread(target=feed)
        t.start()
        out = proc.stdout.read()
        err = proc.stderr.read()
        t.join()
        rc = proc.wait()
    else:
        try:
            out, err = proc.communicate(doc, timeout=120)
        except subprocess.TimeoutExpired:
            proc.kill()
            out, err = proc.communicate()
        rc = proc.returncode
    errtext = err.decode("utf-8", "replace").replace(pkgdir, "<PKG>").replace(tmp, "<TMP>")
    has_tb = "Traceback (most recent call last)" in errtext
    lines = [ln for ln in errtext.splitlines() if ln.strip()]
    outfile = None
    if os.path.exists(opath):
        with open(opath, "rb") as fd:
            outfile = fd.read()
    return {
        "rc": rc,
        "out": _digest(out),
        "outfile": None if outfile is None else _digest(outfile),
        "traceback": has_tb,
        "err": (lines[-1] if lines else "") if has_tb else errtext,
        "err_lines": None if has_tb else len(lines),
    }


# --------------------------------------------------------------------------
# comparison
# --------------------------------------------------------------------------

def classify(a: dict, b: dict) -> str:
    """'same', an allowed-difference label, or 'DIFF'."""
    if a == b:
        return "same"
    sa, sb = a["status"], b["status"]
    if sa[:2] != sb[:2]:
        return "DIFF"
    if a.get("offset") != b.get("offset"):
        return "DIFF"
    same_out = a["out"] == b["out"] and a["outfile"] == b["outfile"]
    # An exception that is not a JSONPathError escaped (a pre-existing defect, e.g. RecursionError from the json module
    # while encoding): the original may have written part of the array already. We only accept 'less output'.
    if sa[0] == "raise" and not sa[1].startswith("jsonpath_rfc9535."):
        if same_out:
            return "wording-only(escaped non-JSONPath exception: %s)" % sa[1]
        if b["out"][1] <= a["out"][1] and (b["outfile"] is None or b["outfile"][1] <= (a["outfile"] or [0, 0])[1]):
            return "less-partial-output(escaped non-JSONPath exception: %s)" % sa[1]
        return "DIFF"
    if not same_out:
        return "DIFF"
    if a["stdin_closed"] != b["stdin_closed"]:
        return "DIFF"
    # same ending, same output: only diagnostics wording may differ, and it must stay one line with the same label
    ea, eb = a["err"], b["err"]
    if ea.count("\n") != eb.count("\n"):
        return "DIFF"
    if ea.split(":", 1)[0] != eb.split(":", 1)[0]:
        return "DIFF"
    return "wording-only(%s)" % ea.split(":", 1)[0][:40]


def main() -> int:
    ap = argparse.ArgumentParser()
    ap.add_argument("--cases", type=int, default=120000)
    ap.add_argument("--thread-cases", type=int, default=4000)
    ap.add_argument("--sub-cases", type=int, default=400)
    ap.add_argument("--procs", type=int, default=8)
    ap.add_argument("--seed", type=int, default=20261005)
    ap.add_argument("--worker", nargs=6, default=None)
    ns = ap.parse_args()

    if ns.worker:
        kind, pkgdir, seed, lo, hi, outpath = ns.worker
        fn = worker_inproc if kind == "inproc" else worker_threads
        fn(pkgdir, int(seed), int(lo), int(hi), outpath)
        return 0

    work = tempfile.mkdtemp(prefix="g4diff-")
    orig = os.path.join(work, "orig")
    patched = os.path.join(work, "patched")
    shutil.copytree(ORIG_PKG, orig, ignore=shutil.ignore_patterns("__pycache__"))
    shutil.copytree(ORIG_PKG, patched, ignore=shutil.ignore_patterns("__pycache__"))
    subprocess.run(["git", "init", "-q", patched], check=True)
    subprocess.run(["git", "-C", patched, "apply", "--verbose", os.path.join(HERE, PATCH_NAME)], check=True)
    a = open(os.path.join(orig, "jsonpath_rfc9535", "cli.py")).read()
    b = open(os.path.join(patched, "jsonpath_rfc9535", "cli.py")).read()
    assert a != b, "patch did not change cli.py"
    for root, _dirs, files in os.walk(os.path.join(orig, "jsonpath_rfc9535")):
        for f in files:
            if f.endswith(".py") and f != "cli.py":
                p1 = os.path.join(root, f)
                p2 = p1.replace(orig, patched, 1)
                assert open(p1, "rb").read() == open(p2, "rb").read(), p1
    print("patch %s applied to a copy of the original package; only cli.py differs" % PATCH_NAME)

    t0 = time.time()
    jobs = []
    per = (ns.cases + ns.procs - 1) // ns.procs
    for k in range(ns.procs):
        lo, hi = k * per, min(ns.cases, (k + 1) * per)
        if lo >= hi:
            continue
        jobs.append(("inproc", lo, hi))
    tper = (ns.thread_cases + 1) // 2
    for k in range(2):
        lo, hi = 10_000_000 + k * tper, 10_000_000 + min(ns.thread_cases, (k + 1) * tper)
        if lo < hi:
            jobs.append(("threads", lo, hi))

    pending = []
    for kind, lo, hi in jobs:
        for name, pkg in (("orig", orig), ("patched", patched)):
            outpath = os.path.join(work, "%s-%s-%d.jsonl" % (kind, name, lo))
            pending.append((kind, name, lo, hi, pkg, outpath))
    running = []
    maxpar = ns.procs
    env = dict(os.environ)
    env["PYTHONDONTWRITEBYTECODE"] = "1"
    env.pop("PYTHONPATH", None)
    queue = list(pending)
    while queue or running:
        while queue and len(running) < maxpar:
            kind, name, lo, hi, pkg, outpath = queue.pop(0)
            p = subprocess.Popen([PY, os.path.abspath(__file__), "--worker", kind, pkg, str(ns.seed), str(lo), str(hi), outpath], env=env)
            running.append(p)
        for p in list(running):
            if p.poll() is not None:
                if p.returncode != 0:
                    print("WORKER FAILED", p.args)
                    return 2
                running.remove(p)
        time.sleep(0.2)

    tally = {}
    examples = {}
    total = 0
    stats = {"exit0": 0, "exit1": 0, "exit2": 0, "raise": 0, "return": 0, "offset-ok": 0, "offset-bad": 0}
    labels = {}
    for kind, lo, hi in jobs:
        fa = os.path.join(work, "%s-orig-%d.jsonl" % (kind, lo))
        fb = os.path.join(work, "%s-patched-%d.jsonl" % (kind, lo))
        with open(fa, encoding="utf-8") as A, open(fb, encoding="utf-8") as B:
            la, lb = A.readlines(), B.readlines()
        assert len(la) == len(lb) == hi - lo, (kind, lo, len(la), len(lb))
        for xa, xb in zip(la, lb):
            total += 1
            if kind == "threads":
                verdict = "same" if xa == xb and "HARNESS-ERROR" not in xa else "DIFF"
                ra = rb = None
                if verdict == "DIFF" and "HARNESS-ERROR" not in xa + xb:
                    ta, tb = json.loads(xa)["status"], json.loads(xb)["status"]
                    # same allowance as in classify(): a non-JSONPath exception escaped in both (pre-existing
                    # defect), the patched CLI wrote less of the never-finished array than the original did
                    if (ta and tb and ta[:2] == tb[:2] and ta[0] == "raise" and ta[1] == "RecursionError"
                            and tb[2][1] <= ta[2][1]):
                        verdict = "less-partial-output(escaped non-JSONPath exception: RecursionError)"
            else:
                ra, rb = json.loads(xa), json.loads(xb)
                verdict = classify(ra, rb)
                st = ra["status"]
                if st[0] == "return":
                    stats["return"] += 1
                elif st[0] == "exit":
                    stats["exit%s" % st[1]] = stats.get("exit%s" % st[1], 0) + 1
                else:
                    stats["raise"] += 1
                    labels[st[1]] = labels.get(st[1], 0) + 1
                if st[0] == "exit" and st[1] == 1:
                    lab = ra["err"].split(":", 1)[0][:40]
                    labels[lab] = labels.get(lab, 0) + 1
                for r in (ra, rb):
                    off = r.get("offset")
                    if off is not None:
                        if off in ("ok",):
                            stats["offset-ok"] += 1
                        else:
                            stats["offset-bad"] += 1
                            examples.setdefault("offset:" + off[:30], (xa, xb))
            key = kind + ":" + verdict
            tally[key] = tally.get(key, 0) + 1
            if verdict != "same" and key not in examples:
                examples[key] = (xa.strip()[:700], xb.strip()[:700])
    print("in-process + thread cases compared: %d in %.0fs" % (total, time.time() - t0))
    for k in sorted(tally):
        print("  %-90s %d" % (k, tally[k]))
    print("  endings (original):", json.dumps(stats, sort_keys=True))
    print("  diagnostics / escaping exception classes (original):", json.dumps(labels, sort_keys=True))

    # subprocess layer
    tmp_a = tempfile.mkdtemp(prefix="g4s-")
    sub_total = sub_diff = sub_skipped = 0
    t1 = time.time()
    for k in range(ns.sub_cases):
        case = gen_case(ns.seed + 1, 20_000_000 + k)
        if len(case["doc"]) > 300000:
            continue
        slow = k % 10 == 0
        ra = run_subprocess(orig, case, tmp_a, slow)
        rb = run_subprocess(patched, case, tmp_a, slow)
        if "skipped" in ra:
            sub_skipped += 1
            continue
        sub_total += 1
        if ra != rb:
            # allowed: same class of wording-only / less-partial-output differences
            ok = (ra["rc"] == rb["rc"] and ra["traceback"] == rb["traceback"]
                  and ((ra["out"] == rb["out"] and ra["outfile"] == rb["outfile"]
                        and ra["err"].split(":", 1)[0] == rb["err"].split(":", 1)[0] and ra["err_lines"] == rb["err_lines"])
                       or (ra["traceback"] and "JSONPath" not in ra["err"] and rb["out"][1] <= ra["out"][1])))
            key = "subprocess:" + ("allowed-difference" if ok else "DIFF")
            tally[key] = tally.get(key, 0) + 1
            examples.setdefault(key, (json.dumps(ra)[:700], json.dumps(rb)[:700]))
            if not ok:
                sub_diff += 1
    shutil.rmtree(tmp_a, ignore_errors=True)
    print("subprocess cases compared: %d (skipped %d) in %.0fs; differing: %d" % (sub_total, sub_skipped, time.time() - t1, sub_diff))
    for k in sorted(tally):
        if k.startswith("subprocess:"):
            print("  %-90s %d" % (k, tally[k]))

    for key, (xa, xb) in examples.items():
        print("\nEXAMPLE", key)
        print("  orig   :", xa)
        print("  patched:", xb)

    bad = sum(v for k, v in tally.items() if k.endswith("DIFF")) + stats["offset-bad"]
    print("\nTOTAL cases: %d   behavioural differences: %d   offset checks ok/bad: %d/%d" % (
        total + sub_total, bad, stats["offset-ok"], stats["offset-bad"]))
    shutil.rmtree(work, ignore_errors=True)
    return 1 if bad else 0


if __name__ == "__main__":
    sys.exit(main())
