"""Differential test for patch B (filter expression serialisation through
per-kind writers with an explicit precedence table, FloatLiteral.__str__).

Usage:  /venv/bin/python /tmp/out11/G5/diff_B.py [patched_tree] [n_queries] [seed]

Imports the untouched package from /tmp/out11/G5/orig_pkg and the patched one
from the working tree (default /tmp/wt11/G5) side by side and checks that every
observable string / result / error is the same.
"""

from __future__ import annotations

import json
import math
import os
import random
import struct
import subprocess
import sys
import tempfile
import threading
import time
from concurrent.futures import ThreadPoolExecutor
from typing import Any
from typing import List
from typing import Tuple

sys.path.insert(0, os.path.dirname(os.path.abspath(__file__)))

import diffcommon as dc  # noqa: E402

PATCHED = sys.argv[1] if len(sys.argv) > 1 else dc.PATCHED_PATH
N_QUERIES = int(sys.argv[2]) if len(sys.argv) > 2 else 120_000
SEED = int(sys.argv[3]) if len(sys.argv) > 3 else 20261006

orig, new = dc.load_both(PATCHED)
T = dc.Tally()
rng = random.Random(SEED)


def make_envs(lib: Any) -> Tuple[Any, Any]:
    FF = lib.function_extensions_filter_function
    ET = FF.ExpressionType

    class Both(FF.FilterFunction):
        """A LogicalType function of two LogicalType parameters."""

        arg_types = [ET.LOGICAL, ET.LOGICAL]
        return_type = ET.LOGICAL

        def __call__(self, a: object, b: object) -> bool:
            return bool(a) and bool(b)

    class Nodes(FF.FilterFunction):
        """A NodesType function of one NodesType parameter."""

        arg_types = [ET.NODES]
        return_type = ET.NODES

        def __call__(self, nodes: Any) -> Any:
            return nodes

    class Env(lib.pkg.JSONPathEnvironment):
        def setup_function_extensions(self) -> None:
            super().setup_function_extensions()
            self.function_extensions["both"] = Both()
            self.function_extensions["nodes"] = Nodes()

    class ND(Env):
        nondeterministic = True

    return Env(), ND()


ENV_O, ND_O = make_envs(orig)
ENV_N, ND_N = make_envs(new)


# --------------------------------------------------------------------------
# 1. Float literals: every interesting double, random bit patterns, and the
#    spellings a query can use
# --------------------------------------------------------------------------
def part_floats() -> None:
    tok_o = orig.tokens.Token(orig.tokens.TokenType.FLOAT, "", 0, "$")
    tok_n = new.tokens.Token(new.tokens.TokenType.FLOAT, "", 0, "$")
    FO, FN = orig.filter_expressions.FloatLiteral, new.filter_expressions.FloatLiteral

    def cmp(value: Any, kind: str) -> None:
        a = dc.attempt(orig, lambda: str(FO(tok_o, value)))
        b = dc.attempt(new, lambda: str(FN(tok_n, value)))
        T.check(kind, repr(value), a, b)

    special = [
        0.0, -0.0, 1.0, -1.0, 0.1, 1e15, 1e16, 1e17, -1e16, 1e21, 1e22, 1e23, 1.5e22, 1e100,
        1.7976931348623157e308, 2.2250738585072014e-308, 5e-324, -5e-324, 1e-4, 1e-5, 1e-7, 9.999e-5,
        123456789012345680.0, 1.2345678901234567e16, 2.0**53, 2.0**63, 2.0**64, 1 / 3, math.pi, math.e,
        float("inf"), float("-inf"), float("nan"), 1e-300, 1e300, 12345678901234567890.0,
    ]  # fmt: skip
    for v in special:
        cmp(v, "FloatLiteral special")
    T.case("FloatLiteral special values", len(special))

    n = 0
    for _ in range(150_000):
        bits = rng.getrandbits(64)
        (v,) = struct.unpack("<d", struct.pack("<Q", bits))
        cmp(v, "FloatLiteral random bits")
        n += 1
    for _ in range(50_000):
        v = rng.choice([1, -1]) * rng.randrange(1, 10**rng.randrange(1, 18)) * 10.0 ** rng.randrange(-30, 30)
        cmp(v, "FloatLiteral decimal-ish")
        n += 1
    T.case("FloatLiteral random doubles", n)

    # values that are not floats at all (hand-built), and the other literal kinds
    class MyFloat(float):
        pass

    odd = [MyFloat(1e16), MyFloat(2.5), 1, 10**16, True, None, "1e5", "e", "", 1e16 + 0j]
    for v in odd:
        cmp(v, "FloatLiteral odd values")
    for cls in ("IntegerLiteral", "BooleanLiteral", "NullLiteral", "StringLiteral"):
        for v in [0, 1, -1, 10**30, True, False, None, "a'b", "", "E"]:
            a = dc.attempt(orig, lambda: str(getattr(orig.filter_expressions, cls)(tok_o, v)))
            b = dc.attempt(new, lambda: str(getattr(new.filter_expressions, cls)(tok_n, v)))
            T.check("other literals", (cls, v), a, b)
    T.case("literal odd values", len(odd) + 40)

    # spelled in a query
    n = 0
    for _ in range(30_000):
        r = rng.random()
        if r < 0.3:
            lit = rng.choice(dc.NUMBERS)
        else:
            mant = str(rng.randrange(0, 10 ** rng.randrange(1, 20)))
            if rng.random() < 0.5:
                mant += "." + "".join(rng.choice("0123456789") for _ in range(rng.randrange(1, 20)))
            if rng.random() < 0.6:
                mant += rng.choice("eE") + rng.choice(["", "+", "-"]) + str(rng.randrange(0, 330))
            lit = rng.choice(["", "-"]) + mant
        text = f"$[?@.a == {lit}]"
        compare_query(text, [{"k": {"a": 1}}], nondet=False)
        n += 1
    T.case("number spellings in a query", n)


# --------------------------------------------------------------------------
# 2. Hand-built expression trees: every shape the classes allow, including
#    ones the parser never builds.
# --------------------------------------------------------------------------
class TreeGen:
    """Builds the same random tree twice, once from each copy's classes."""

    def __init__(self, r: random.Random) -> None:
        self.r = r

    def recipe(self, depth: int = 0) -> Tuple[Any, ...]:
        r = self.r.random()
        if depth < 5 and r < 0.30:
            op = self.r.choice(["&&", "||", "&&", "||", "&&", "||", "and", "", "==", "&", "!"])
            return ("logical", self.recipe(depth + 1), op, self.recipe(depth + 1))
        if depth < 5 and r < 0.45:
            op = self.r.choice(["!", "!", "!", "!", "-", "not ", ""])
            return ("prefix", op, self.recipe(depth + 1))
        if depth < 5 and r < 0.62:
            op = self.r.choice(["==", "!=", "<", "<=", ">", ">=", "&&", "~"])
            return ("comparison", self.recipe(depth + 2), op, self.recipe(depth + 2))
        if depth < 5 and r < 0.70:
            n = self.r.choice([0, 1, 2, 3])
            name = self.r.choice(["length", "count", "match", "both", "f", ""])
            return ("function", name, tuple(self.recipe(depth + 1) for _ in range(n)))
        if depth < 5 and r < 0.74:
            return ("filter", self.recipe(depth + 1))
        if r < 0.84:
            return ("query", self.r.choice("@$"), self.r.choice(QUERY_TEXTS))
        k = self.r.random()
        if k < 0.25:
            return ("str", dc.rand_string(self.r))
        if k < 0.45:
            return ("int", self.r.choice([0, 1, -1, 2**53, 10**30]))
        if k < 0.7:
            return ("float", self.r.choice([0.0, -0.0, 1e16, 1.5, 1e-7, 1e22, 5e-324, 2.5e300]))
        if k < 0.85:
            return ("bool", self.r.choice([True, False]))
        return ("null",)

    def build(self, lib: Any, env: Any, rec: Tuple[Any, ...]) -> Any:
        F = lib.filter_expressions
        tok = lib.tokens.Token(lib.tokens.TokenType.EOF, "", 0, "$")
        kind = rec[0]
        if kind == "logical":
            return F.LogicalExpression(tok, self.build(lib, env, rec[1]), rec[2], self.build(lib, env, rec[3]))
        if kind == "prefix":
            return F.PrefixExpression(tok, rec[1], self.build(lib, env, rec[2]))
        if kind == "comparison":
            return F.ComparisonExpression(tok, self.build(lib, env, rec[1]), rec[2], self.build(lib, env, rec[3]))
        if kind == "function":
            return F.FunctionExtension(tok, rec[1], [self.build(lib, env, a) for a in rec[2]])
        if kind == "filter":
            return F.FilterExpression(tok, self.build(lib, env, rec[1]))
        if kind == "query":
            q = env.compile(rec[2])
            cls = F.RelativeFilterQuery if rec[1] == "@" else F.RootFilterQuery
            return cls(tok, q)
        if kind == "str":
            return F.StringLiteral(tok, rec[1])
        if kind == "int":
            return F.IntegerLiteral(tok, rec[1])
        if kind == "float":
            return F.FloatLiteral(tok, rec[1])
        if kind == "bool":
            return F.BooleanLiteral(tok, rec[1])
        return F.NullLiteral(tok, None)


QUERY_TEXTS = [
    "$",
    "$.a",
    "$['a b']",
    "$[0]",
    "$[-1]",
    "$.*",
    "$..a",
    "$[1:2]",
    "$[::-1]",
    "$[?@.x]",
    "$[?@.x && !@.y || @.z == 1]",
    "$[?!(@.x == 'it\\'s')]",
    "$.a[?count(@.*) > 1e16]",
    "$['\\u0000', \"\\\"\"]",
]


def all_strings(lib: Any, env: Any, expr: Any) -> Tuple[Any, ...]:
    F = lib.filter_expressions
    tok = lib.tokens.Token(lib.tokens.TokenType.EOF, "", 0, "$")
    fe = F.FilterExpression(tok, expr)
    sel = lib.selectors.FilterSelector(env=env, token=tok, expression=fe)
    seg = lib.segments.JSONPathChildSegment(env=env, token=tok, selectors=(sel,))
    q = lib.query.JSONPathQuery(env=env, segments=(seg,))
    return (
        str(expr),
        str(fe),
        str(sel),
        str(seg),
        str(q),
        hash(sel) == hash(sel),
        fe == fe,
        str(F.RelativeFilterQuery(tok, q)),
        str(F.RootFilterQuery(tok, q)),
        str(F.FunctionExtension(tok, "f", [expr, fe])),
        str(F.PrefixExpression(tok, "!", expr)),
        str(F.FilterExpression(tok, F.PrefixExpression(tok, "!", expr))),
        str(F.FilterExpression(tok, F.LogicalExpression(tok, expr, "&&", expr))),
        str(F.FilterExpression(tok, F.LogicalExpression(tok, expr, "||", expr))),
    )


def part_trees() -> None:
    tg = TreeGen(rng)
    n = 0
    reparsed = 0
    for _ in range(60_000):
        rec = tg.recipe()
        a = dc.attempt(orig, lambda: all_strings(orig, ENV_O, tg.build(orig, ENV_O, rec)))
        b = dc.attempt(new, lambda: all_strings(new, ENV_N, tg.build(new, ENV_N, rec)))
        n += 1
        if not T.check("hand-built tree", rec, a, b):
            continue
        # when the text happens to be a valid query, both copies read it the same
        if a[0] == "ok" and n % 3 == 0:
            text = a[1][4]
            ro = dc.attempt(orig, lambda: str(ENV_O.compile(text)), text)
            rn = dc.attempt(new, lambda: str(ENV_N.compile(text)), text)
            T.check("hand-built tree reparse", text, ro, rn)
            reparsed += ro[0] == "ok"
    T.case("hand-built expression trees", n)
    T.outcome(f"hand-built trees whose text reparses: {reparsed}")

    # subclasses of the expression classes are still recognised
    out = []
    for lib, env in ((orig, ENV_O), (new, ENV_N)):
        F = lib.filter_expressions
        tok = lib.tokens.Token(lib.tokens.TokenType.EOF, "", 0, "$")

        class MyLogical(F.LogicalExpression):  # type: ignore[name-defined,misc]
            pass

        class MyPrefix(F.PrefixExpression):  # type: ignore[name-defined,misc]
            pass

        class MyCmp(F.ComparisonExpression):  # type: ignore[name-defined,misc]
            def __str__(self) -> str:
                return "CMP"

        a_ = F.RelativeFilterQuery(tok, env.compile("$.a"))
        c_ = MyCmp(tok, a_, "==", F.IntegerLiteral(tok, 1))
        t1 = MyLogical(tok, MyLogical(tok, a_, "||", c_), "&&", MyPrefix(tok, "!", MyPrefix(tok, "!", c_)))
        out.append((str(F.FilterExpression(tok, t1)), str(t1), str(F.FilterExpression(tok, MyPrefix(tok, "!", t1)))))
    T.check("subclassed expression classes", "", out[0], out[1])
    T.case("subclassed expression classes")


# --------------------------------------------------------------------------
# 3. Generated queries, filter-heavy
# --------------------------------------------------------------------------
class FilterHeavyGen(dc.QueryGen):
    def selector(self, depth: int) -> str:
        if depth < self.max_depth and self.rng.random() < 0.6:
            return "?" + self.ws() + self.logical(depth + 1)
        return super().selector(depth)

    def logical(self, depth: int, level: int = 0) -> str:
        r = self.rng.random()
        if level < 5 and r < 0.34:
            op = self.rng.choice(["&&", "||"])
            return self.logical(depth, level + 1) + self.ws_pad() + op + self.ws_pad() + self.logical(depth, level + 1)
        if level < 5 and r < 0.48:
            return "(" + self.ws() + self.logical(depth, level + 1) + self.ws() + ")"
        if level < 5 and r < 0.62:
            inner = self.logical(depth, level + 1)
            if self.rng.random() < 0.75:
                return "!" + self.ws() + "(" + inner + ")"
            return "!" + self.ws() + inner
        if level < 6 and r < 0.68:
            a, b = self.logical(depth, level + 2), self.logical(depth, level + 2)
            return f"both({a},{self.ws()}{b})"
        if r < 0.71:
            return f"nodes({self.filter_query(depth)})"
        if r < 0.73:
            return f"count(nodes({self.filter_query(depth)})) > 0"
        return self.basic(depth)


def compare_query(text: str, docs: List[Any], *, nondet: bool) -> None:
    ro = dc.attempt(orig, lambda: ENV_O.compile(text), text)
    rn = dc.attempt(new, lambda: ENV_N.compile(text), text)
    if ro[0] != rn[0]:
        T.diff("compile accept/reject", text, ro, rn)
        return
    if ro[0] == "err":
        T.outcome("query rejected: " + str(ro[1][0]))
        T.check("compile error facts", text, ro[1:], rn[1:])
        if ro[1][1]:
            for facts in (ro[1], rn[1]):
                for f in facts[2:]:
                    if f[0] in ("one-line", "offset-inside") and f[1] is not True:
                        T.diff("error sanity", text, facts, facts)
        for meth in ("find", "find_one", "finditer"):
            eo = dc.attempt(orig, lambda m=meth: getattr(ENV_O, m)(text, docs[0]), text)
            en = dc.attempt(new, lambda m=meth: getattr(ENV_N, m)(text, docs[0]), text)
            T.check("entry point error", (meth, text), eo[:2], en[:2])
        return

    T.outcome("query accepted")
    qo, qn = ro[1], rn[1]
    fo = dc.attempt(orig, lambda: dc.query_facts(qo))
    fn = dc.attempt(new, lambda: dc.query_facts(qn))
    if not T.check("str(query)/segments/selectors/filters", text, fo, fn):
        return
    canon = None
    if fo[0] == "ok":
        canon = fo[1][0]
        r2o = dc.attempt(orig, lambda: dc.query_facts(ENV_O.compile(canon)), canon)
        r2n = dc.attempt(new, lambda: dc.query_facts(ENV_N.compile(canon)), canon)
        T.check("reparse of str(query)", (text, canon), r2o, r2n)
        if r2n[0] != "ok" or r2n[1][0] != canon:
            T.outcome("str() does not round trip, in BOTH copies alike")

    for doc in docs:
        so = dc.attempt(orig, lambda d=doc: dc.nodelist_facts(qo.find(d)))
        sn = dc.attempt(new, lambda d=doc: dc.nodelist_facts(qn.find(d)))
        T.check("find()", (text, repr(doc)[:200]), so, sn)
        if canon is not None:
            # the reparsed canonical text selects the same nodes (patched copy)
            cn = dc.attempt(new, lambda d=doc: dc.nodelist_facts(ENV_N.find(canon, d)), canon)
            if cn != sn:
                co = dc.attempt(orig, lambda d=doc: dc.nodelist_facts(ENV_O.find(canon, d)), canon)
                T.check("find(str(query))", (text, canon), co, cn)
        io_ = dc.attempt(orig, lambda d=doc: dc.node_facts(qo.finditer(d)))
        in_ = dc.attempt(new, lambda d=doc: dc.node_facts(qn.finditer(d)))
        T.check("finditer()", text, io_, in_)
        oo = dc.attempt(orig, lambda d=doc: (lambda n: n and n.path())(qo.find_one(d)))
        on = dc.attempt(new, lambda d=doc: (lambda n: n and n.path())(qn.find_one(d)))
        T.check("find_one()", text, oo, on)

    if nondet:
        doc = docs[0]
        seed = rng.randrange(1 << 30)
        random.seed(seed)
        so = dc.attempt(orig, lambda: dc.nodelist_facts(ND_O.find(text, doc)))
        random.seed(seed)
        sn = dc.attempt(new, lambda: dc.nodelist_facts(ND_N.find(text, doc)))
        T.check("nondeterministic find(), same seed", (text, seed), so, sn)


def part_queries() -> None:
    gen = FilterHeavyGen(rng)
    plain = dc.QueryGen(rng)
    docs_pool = [dc.gen_doc(rng) for _ in range(400)]
    t0 = time.time()
    for i in range(N_QUERIES):
        g = gen if i % 4 else plain
        text = g.query()
        r = rng.random()
        if r < 0.25:
            text = g.mutate(text)
            if rng.random() < 0.3:
                text = g.mutate(text)
        docs = [rng.choice(docs_pool), dc.gen_doc(rng)]
        compare_query(text, docs, nondet=(i % 5 == 0))
        T.case("generated query (valid and invalid)")
        if i and i % 20000 == 0:
            print(f"  ... {i} queries, {time.time() - t0:.0f}s, diffs={len(T.diffs)}", flush=True)


# --------------------------------------------------------------------------
# 4. Exhaustive small trees over !, &&, ||, comparison and test expressions:
#    every tree up to a size, written as a fully parenthesised query, so every
#    parent/child precedence combination is covered (not only the likely ones).
# --------------------------------------------------------------------------
def small_trees(size: int) -> List[str]:
    """Fully parenthesised source text of every tree with _size_ operators."""
    if size == 0:
        return ["@.a", "@.b == 1", "count(@.*) > 1", "match(@.s, 'a')"]
    out = []
    for inner in small_trees(size - 1):
        out.append(f"!({inner})")
    for left_size in range(size):
        for left in small_trees(left_size):
            for right in small_trees(size - 1 - left_size):
                out.append(f"(({left}) && ({right}))")
                out.append(f"(({left}) || ({right}))")
    return out


def part_exhaustive() -> None:
    docs = [
        [{"a": 1, "b": 1, "s": "a"}, {"a": 0, "b": 2}, {"b": 1, "x": [1, 2]}, {"s": "aa", "p": 1, "q": 2}, 5, "a", [], {}],
        {"k": {"a": None}, "l": {"b": 1, "c": 1, "d": 1}, "m": "a"},
    ]
    n = 0
    for size in range(0, 4):
        trees = small_trees(size)
        if size == 3:
            trees = random.Random(SEED).sample(trees, 12_000)
        for t in trees:
            compare_query(f"$[?{t}]", docs, nondet=False)
            n += 1
    T.case("exhaustive small logical trees", n)


# --------------------------------------------------------------------------
# 5. Deep nesting: str() of deeply nested expressions
# --------------------------------------------------------------------------
def part_deep() -> None:
    def max_depth(env: Any, make: Any) -> int:
        best = 0
        for d in range(1, 400):
            try:
                q = env.compile(make(d))
            except RecursionError:
                break
            try:
                str(q)
            except RecursionError:
                break
            best = d
        return best

    shapes = {
        "nested filters": lambda d: "$[?" + "@[?" * d + "@.b" + "]" * d + "]",
        "nested not": lambda d: "$[?" + "!(" * d + "@.a" + ")" * d + "]",
        "nested and (right)": lambda d: "$[?" + "(@.a && " * d + "@.b" + ")" * d + "]",
        "nested or (left)": lambda d: "$[?" + "(" * d + "@.b" + " || @.a)" * d + "]",
        "flat and chain": lambda d: "$[?" + " && ".join(["@.a"] * (d + 1)) + "]",
        "nested both()": lambda d: "$[?" + "both(@.a, " * d + "@.b" + ")" * d + "]",
        "not/and alternating": lambda d: "$[?" + "!(@.a && " * d + "@.b" + ")" * d + "]",
    }
    for name, make in shapes.items():
        mo = max_depth(ENV_O, make)
        mn = max_depth(ENV_N, make)
        print(f"  str() nesting limit [{name}]: orig={mo} patched={mn}")
        if mn < mo:
            T.diff("str() nesting limit lower than before", name, mo, mn)
        for d in range(1, min(mo, mn) + 1, 5):
            T.check("deep str()", (name, d), str(ENV_O.compile(make(d))), str(ENV_N.compile(make(d))))
            T.case("deeply nested str()")

    # deep / cyclic data through a filter
    n = 0
    queries = ["$..[?@.a]", "$..[?!(@.a == 1) && (@.a || @['\\''] > 2)]", "$[?@..a]", "$..[?count(@..*) > 3]"]
    for depth in (1, 50, 100, 101, 150, 1500):
        for kind in ("mixed", "list", "dict"):
            doc = dc.deep_doc(depth, kind)
            for qtext in queries:
                for eo, en in ((ENV_O, ENV_N), (ND_O, ND_N)):
                    random.seed(depth)
                    a = dc.attempt(orig, lambda: dc.nodelist_facts(eo.find(qtext, doc)))
                    random.seed(depth)
                    b = dc.attempt(new, lambda: dc.nodelist_facts(en.find(qtext, doc)))
                    n += 1
                    T.check("deep data", (depth, kind, qtext), a, b)
    for doc in dc.cyclic_docs():
        for qtext in queries:
            for eo, en in ((ENV_O, ENV_N), (ND_O, ND_N)):
                random.seed(3)
                a = dc.attempt(orig, lambda: [(x.location, x.path()) for x in eo.find(qtext, doc)])
                random.seed(3)
                b = dc.attempt(new, lambda: [(x.location, x.path()) for x in en.find(qtext, doc)])
                n += 1
                T.check("cyclic data", qtext, a, b)
    T.case("deep / cyclic documents", n)


# --------------------------------------------------------------------------
# 6. Threads
# --------------------------------------------------------------------------
def part_threads() -> None:
    gen = FilterHeavyGen(random.Random(SEED + 1))
    texts: List[str] = []
    while len(texts) < 300:
        t = gen.query()
        try:
            ENV_O.compile(t)
        except Exception:  # noqa: BLE001
            continue
        texts.append(t)
    docs = [dc.gen_doc(random.Random(SEED + i)) for i in range(20)]
    qo = [ENV_O.compile(t) for t in texts]
    qn = [ENV_N.compile(t) for t in texts]

    def work(qs: List[Any], lib: Any, env: Any, k: int) -> List[Any]:
        r = random.Random(k)
        out = []
        for _ in range(400):
            i = r.randrange(len(qs))
            d = docs[r.randrange(len(docs))]
            res = dc.attempt(
                lib,
                lambda: (
                    str(qs[i]),
                    str(env.compile(texts[i])),
                    [str(s) for seg in qs[i].segments for s in seg.selectors],
                    qs[i].find(d).paths(),
                ),
            )
            out.append((i, res))
        return out

    expected = [work(qo, orig, ENV_O, k) for k in range(8)]
    barrier = threading.Barrier(8)

    def threaded(k: int) -> List[Any]:
        barrier.wait()
        return work(qn, new, ENV_N, k)

    with ThreadPoolExecutor(8) as pool:
        got = list(pool.map(threaded, range(8)))
    for k in range(8):
        T.check("threads: patched concurrent == orig sequential", k, expected[k], got[k])
    T.case("threaded compile()/str()/find() runs", 8 * 400)


# --------------------------------------------------------------------------
# 7. CLI
# --------------------------------------------------------------------------
def run_cli(path: str, args: List[str], stdin: str) -> Tuple[int, str, str]:
    env = dict(os.environ, PYTHONPATH=path, PYTHONIOENCODING="utf-8")
    p = subprocess.run(
        [sys.executable, "-m", "jsonpath_rfc9535", *args],
        input=stdin.encode("utf-8", "surrogatepass"),
        capture_output=True,
        env=env,
        cwd="/tmp",
        check=False,
    )
    return p.returncode, p.stdout.decode("utf-8", "replace"), p.stderr.decode("utf-8", "replace")


def part_cli() -> None:
    gen = dc.QueryGen(random.Random(SEED + 2))  # built-in functions only
    r = random.Random(SEED + 3)
    n = 0
    with tempfile.TemporaryDirectory() as tmp:
        for i in range(40):
            text = gen.query() if i % 4 else gen.mutate(gen.query())
            doc = dc.gen_doc(r)
            try:
                payload = json.dumps(doc)
            except Exception:  # noqa: BLE001
                continue
            qf = os.path.join(tmp, "q.txt")
            with open(qf, "w", encoding="utf-8", newline="") as fd:
                fd.write(text)
            args = ["-r", qf] + (["--pretty"] if i % 2 else [])
            a = run_cli(dc.ORIG_PATH, args, payload)
            b = run_cli(PATCHED, args, payload)
            n += 1
            T.check("cli", (text, args), a, b)
    T.case("CLI runs", n)


def main() -> int:
    print(f"orig:    {orig.pkg.__file__}\npatched: {new.pkg.__file__}\nseed={SEED}", flush=True)
    for part in (part_floats, part_trees, part_exhaustive, part_deep, part_threads, part_cli, part_queries):
        t0 = time.time()
        print(f"== {part.__name__}", flush=True)
        part()
        print(f"   done in {time.time() - t0:.1f}s, diffs so far: {len(T.diffs)}", flush=True)
    return T.report()


if __name__ == "__main__":
    sys.exit(main())
