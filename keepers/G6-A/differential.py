#!/venv/bin/python
"""Differential test for patch A (function signatures and well-typedness tables).

Imports the unmodified package (a copy made before any change, in
/tmp/out11/G6/orig_pkg) and the patched one (the worktree /tmp/wt11/G6) side by
side in one process and compares, on generated queries that are rich in
function calls:

  * compile(): accepted / rejected, the error CLASS (by name), that a rejected
    query reports an offset inside the query text and that the line and column
    printed in the message are those of that offset;
  * str(query) of every accepted query (and that it compiles again);
  * find(): the nodes (location and identity of the value) on several
    documents, or the class of the evaluation error;
  * the arguments every user-registered function was called with (after
    conversion to the declared parameter types);
  * find / finditer / find_one agreement, re-registration of functions between
    compile() and find(), environment isolation, and compile+find from several
    threads on a shared environment.

Usage: diff_A.py [number of generated queries, default 120000] [seed]
"""

from __future__ import annotations

import importlib
import itertools
import random
import sys
import threading
import time
from types import SimpleNamespace

ORIG_PATH = "/tmp/out11/G6/orig_pkg"
NEW_PATH = "/tmp/wt11/G6"
PKG = "jsonpath_rfc9535"


def load(path: str) -> SimpleNamespace:
    """Import the package found under _path_ without leaving it in sys.modules."""
    for name in [n for n in sys.modules if n == PKG or n.startswith(PKG + ".")]:
        del sys.modules[name]
    sys.path.insert(0, path)
    try:
        pkg = importlib.import_module(PKG)
        mods = {
            n: m for n, m in sys.modules.items() if n == PKG or n.startswith(PKG + ".")
        }
    finally:
        sys.path.remove(path)
        for name in [n for n in sys.modules if n == PKG or n.startswith(PKG + ".")]:
            del sys.modules[name]
    assert pkg.__file__.startswith(path), (pkg.__file__, path)
    return SimpleNamespace(
        path=path,
        pkg=pkg,
        mods=mods,
        Env=pkg.JSONPathEnvironment,
        Error=mods[PKG + ".exceptions"].JSONPathError,
        FilterFunction=mods[PKG + ".function_extensions"].FilterFunction,
        ExpressionType=mods[PKG + ".function_extensions"].ExpressionType,
        NodeList=mods[PKG + ".node"].JSONPathNodeList,
        NOTHING=mods[PKG + ".filter_expressions"].NOTHING,
    )


ORIG = load(ORIG_PATH)
NEW = load(NEW_PATH)
assert ORIG.Env is not NEW.Env

# --------------------------------------------------------------------------
# user-registered functions, built separately for each copy of the library

TYPE_LETTERS = {"v": "VALUE", "l": "LOGICAL", "n": "NODES"}
LOG = threading.local()
PLAIN_LIST: list = []  # one object, so that identities compare equal
UNORDERED = False  # set while the nondeterministic environments are compared


def describe(obj: object) -> object:
    name = type(obj).__name__
    if name == "JSONPathNodeList":
        items = [(n.location, id(n.value)) for n in obj]  # type: ignore
        if UNORDERED:
            items.sort(key=repr)
        return ("NL", tuple(items))
    if name == "Nothing":
        return "NOTHING"
    if isinstance(obj, (list, dict)):
        return (name, id(obj))
    return (name, repr(obj))


def record(fname: str, args: tuple) -> None:
    log = getattr(LOG, "calls", None)
    if log is not None:
        log.append((fname, tuple(describe(a) for a in args)))


def make_function(ns: SimpleNamespace, name: str, ret: str, params: str, mode: int):
    ET = ns.ExpressionType
    NodeList = ns.NodeList
    NOTHING = ns.NOTHING

    def call(self, *args):  # noqa: ANN001
        record(name, args)
        if ret == "v":
            if not args:
                return 1
            first = args[0]
            if isinstance(first, NodeList):
                return len(first)
            if mode == 1:
                return NOTHING
            return first
        if ret == "l":
            if mode == 2:
                # declared LogicalType, but hands back what it was given
                return args[0] if args else True
            res = True
            for a in args:
                if isinstance(a, NodeList):
                    res = res and len(a) > 0
                elif a is NOTHING or a is False:
                    res = False
            return res
        for a in args:
            if isinstance(a, NodeList):
                return a
        if mode == 3:
            return PLAIN_LIST  # a plain list where a nodelist is expected
        return NodeList()

    cls = type(
        "F_" + name,
        (ns.FilterFunction,),
        {
            "arg_types": [getattr(ET, TYPE_LETTERS[p]) for p in params],
            "return_type": getattr(ET, TYPE_LETTERS[ret]),
            "__call__": call,
        },
    )
    return cls()


SIGNATURES = []
for ret in "vln":
    for arity in (0, 1, 2):
        for params in itertools.product("vln", repeat=arity):
            SIGNATURES.append((ret, "".join(params)))
    for params in ("vvv", "vln", "nlv", "lll", "nnn"):
        SIGNATURES.append((ret, params))

CUSTOM = {}
for i, (ret, params) in enumerate(SIGNATURES):
    fname = f"f{ret}_{params}" if params else f"f{ret}_"
    CUSTOM[fname] = (ret, params, 0)
CUSTOM["fv_v_nothing"] = ("v", "v", 1)
CUSTOM["fl_n_raw"] = ("l", "n", 2)
CUSTOM["fl_v_raw"] = ("l", "v", 2)
CUSTOM["fn_v_list"] = ("n", "v", 3)
CUSTOM["tuple_sig"] = ("v", "vn", 0)

BUILTIN = {
    "length": ("v", "v"),
    "count": ("v", "n"),
    "value": ("v", "n"),
    "match": ("l", "vv"),
    "search": ("l", "vv"),
}
ALL_FUNCS = {k: (v[0], v[1]) for k, v in CUSTOM.items()}
ALL_FUNCS.update(BUILTIN)
ALL_NAMES = sorted(ALL_FUNCS)
BY_RET = {
    r: sorted(n for n, (ret, _) in ALL_FUNCS.items() if ret == r) for r in "vln"
}
UNKNOWN_NAMES = ["nosuch", "len", "matches", "fv", "f", "true_", "nullx", "count_"]


class Duck:
    """Declares types but is not a FilterFunction."""

    def __init__(self, ns: SimpleNamespace, ret: str, params: str, name: str) -> None:
        ET = ns.ExpressionType
        self.arg_types = [getattr(ET, TYPE_LETTERS[p]) for p in params]
        self.return_type = getattr(ET, TYPE_LETTERS[ret])
        self.name = name

    def __call__(self, *args):  # noqa: ANN002, ANN204
        record(self.name, args)
        return 1


def make_env(ns: SimpleNamespace, *, nondeterministic: bool = False):
    env = ns.Env()
    env.nondeterministic = nondeterministic
    for fname, (ret, params, mode) in CUSTOM.items():
        env.function_extensions[fname] = make_function(ns, fname, ret, params, mode)
    # a tuple instead of a list of parameter types
    env.function_extensions["tuple_sig"].__class__.arg_types = (
        ns.ExpressionType.VALUE,
        ns.ExpressionType.NODES,
    )
    env.function_extensions["duck_v"] = Duck(ns, "v", "v", "duck_v")
    env.function_extensions["duck_l"] = Duck(ns, "l", "n", "duck_l")
    env.function_extensions["plain"] = lambda *a: 1  # no declared types at all
    return env


DUCKS = {"duck_v": ("v", "v"), "duck_l": ("l", "n"), "plain": ("v", "v")}

# --------------------------------------------------------------------------
# query generator

NAMES = ["a", "b", "c", "d", "é", "中", "\U0001f600", "_x"]
STRINGS = [
    "'a'",
    '"b"',
    "'a.*'",
    "'[ab]+'",
    "'\\u0041'",
    "'\\ud83d\\ude00'",
    "''",
    '"\\n"',
    "'\U0001f600'",
    "'.'",
    "'(a|b)c'",
    "'a{2}'",
    "'\\\\d'",
    "'\\\\p{L}+'",
    "'['",
    "'a\\'b'",
]
NUMBERS = [
    "0",
    "1",
    "-1",
    "2",
    "3",
    "1.5",
    "-0",
    "1e2",
    "1E+2",
    "1e-2",
    "9007199254740993",
    "-9007199254740993",
    "1e308",
    "5e-324",
    "123456789012345678901234567890",
    "0.1",
    "-0.0",
    "2.0",
]
BAD_NUMBERS = ["01", "-01", "1.", ".5", "1e400", "0x1", "1e", "+1", "00"]
LITERALS = STRINGS + NUMBERS + ["true", "false", "null"]
CMP_OPS = ["==", "!=", "<", "<=", ">", ">="]


class Gen:
    def __init__(self, rng: random.Random) -> None:
        self.r = rng

    def ws(self) -> str:
        r = self.r.random()
        if r < 0.75:
            return ""
        if r < 0.93:
            return " "
        return self.r.choice(["  ", "\n", "\t", "\r\n", " \n "])

    def name_sel(self) -> str:
        n = self.r.choice(NAMES)
        if self.r.random() < 0.6:
            return "." + n
        q = self.r.choice("'\"")
        return f"[{q}{n}{q}]"

    def singular_segments(self) -> str:
        out = []
        for _ in range(self.r.choice([0, 1, 1, 1, 2, 3])):
            if self.r.random() < 0.7:
                out.append(self.name_sel())
            else:
                out.append(f"[{self.r.choice(['0', '1', '-1', '2', '-2'])}]")
        return "".join(out)

    def plural_segments(self) -> str:
        base = self.singular_segments()
        extra = self.r.choice(
            ["[*]", ".*", "..a", "..*", "[0,1]", "[0:2]", "['a','b']", "[::-1]", "..[0]"]
        )
        if self.r.random() < 0.3:
            extra += self.singular_segments()
        if self.r.random() < 0.08:
            extra += f"[?{self.logical(0)}]"
        return base + extra

    def singular_query(self) -> str:
        return self.r.choice("@@@$") + self.singular_segments()

    def plural_query(self) -> str:
        return self.r.choice("@@@$") + self.plural_segments()

    def literal(self) -> str:
        if self.r.random() < 0.02:
            return self.r.choice(BAD_NUMBERS)
        return self.r.choice(LITERALS)

    def func_name(self, want: str | None) -> str:
        r = self.r.random()
        if r < 0.03:
            return self.r.choice(UNKNOWN_NAMES)
        if r < 0.05:
            return self.r.choice(sorted(DUCKS))
        if want is not None and r < 0.8:
            return self.r.choice(BY_RET[want])
        if r < 0.9:
            return self.r.choice(sorted(BUILTIN))
        return self.r.choice(ALL_NAMES)

    def arg_for(self, ptype: str, depth: int) -> str:
        """An argument that is mostly, but not always, right for _ptype_."""
        r = self.r.random()
        if r < 0.22:
            return self.any_arg(depth)
        if ptype == "v":
            k = self.r.random()
            if k < 0.4:
                return self.literal()
            if k < 0.8:
                return self.singular_query()
            return self.call("v", depth + 1)
        if ptype == "n":
            k = self.r.random()
            if k < 0.45:
                return self.plural_query()
            if k < 0.8:
                return self.singular_query()
            return self.call("n", depth + 1)
        k = self.r.random()
        if k < 0.3:
            return self.logical(depth + 1)
        if k < 0.5:
            return f"({self.ws()}{self.logical(depth + 1)}{self.ws()})"
        if k < 0.7:
            return self.plural_query()
        if k < 0.85:
            return self.call(self.r.choice("ln"), depth + 1)
        return self.comparison(depth + 1)

    def any_arg(self, depth: int) -> str:
        k = self.r.randrange(9)
        if k == 0:
            return self.literal()
        if k == 1:
            return self.singular_query()
        if k == 2:
            return self.plural_query()
        if k == 3:
            return self.logical(depth + 1)
        if k == 4:
            return f"({self.ws()}{self.logical(depth + 1)}{self.ws()})"
        if k == 5:
            return self.call(None, depth + 1)
        if k == 6:
            return self.comparison(depth + 1)
        if k == 7:
            return f"({self.ws()}{self.any_arg(depth + 1)}{self.ws()})"
        return "!" + self.ws() + self.any_arg(depth + 1)

    def call(self, want: str | None, depth: int) -> str:
        name = self.func_name(want)
        sig = ALL_FUNCS.get(name) or DUCKS.get(name)
        params = sig[1] if sig else "v" * self.r.randrange(3)
        r = self.r.random()
        if r < 0.05:
            params = params[:-1]
        elif r < 0.10:
            params = params + self.r.choice("vln")
        if depth > 3:
            args = [
                self.r.choice([self.literal(), self.singular_query(), self.plural_query()])
                for _ in params
            ]
        else:
            args = [self.arg_for(p, depth) for p in params]
        sep = self.ws() + "," + self.ws()
        inner = sep.join(args)
        r = self.r.random()
        if r < 0.01:
            inner += ","
        elif r < 0.02:
            inner = "," + inner
        elif r < 0.03 and len(args) > 1:
            inner = (self.ws() + " " + self.ws()).join(args)
        return f"{name}({self.ws()}{inner}{self.ws()})"

    def comparable(self, depth: int) -> str:
        r = self.r.random()
        if r < 0.3:
            return self.literal()
        if r < 0.55:
            return self.singular_query()
        if r < 0.62:
            return self.plural_query()
        if r < 0.9:
            return self.call("v", depth + 1)
        if r < 0.95:
            return self.call(None, depth + 1)
        if r < 0.97:
            return f"({self.comparable(depth + 1)})"
        return "!" + self.comparable(depth + 1)

    def comparison(self, depth: int) -> str:
        return (
            f"{self.comparable(depth)}{self.ws()}{self.r.choice(CMP_OPS)}"
            f"{self.ws()}{self.comparable(depth)}"
        )

    def test(self, depth: int) -> str:
        r = self.r.random()
        neg = ("!" + self.ws()) if self.r.random() < 0.25 else ""
        if r < 0.3:
            return neg + self.r.choice([self.singular_query, self.plural_query])()
        if r < 0.85:
            return neg + self.call(self.r.choice("lln"), depth + 1)
        if r < 0.95:
            return neg + self.call("v", depth + 1)  # must be compared
        return neg + self.literal()  # must be compared

    def logical(self, depth: int) -> str:
        r = self.r.random()
        if depth > 3:
            r *= 0.7
        if r < 0.35:
            return self.test(depth)
        if r < 0.7:
            return self.comparison(depth)
        if r < 0.8:
            neg = "!" if self.r.random() < 0.4 else ""
            return f"{neg}({self.ws()}{self.logical(depth + 1)}{self.ws()})"
        op = self.r.choice(["&&", "||"])
        return f"{self.logical(depth + 1)}{self.ws()}{op}{self.ws()}{self.logical(depth + 1)}"

    def query(self) -> str:
        head = "$" + self.r.choice(["", "", ".a", "[*]", "..", ".b", "[0]"])
        if head.endswith(".."):
            head = "$.."
        q = f"{head}[?{self.ws()}{self.logical(0)}{self.ws()}]"
        if self.r.random() < 0.15:
            q += self.r.choice([".a", "[0]", "[*]", "..b", f"[?{self.logical(2)}]"])
        return q

    def mutate(self, q: str) -> str:
        chars = list(q)
        for _ in range(self.r.choice([1, 1, 2, 3])):
            if not chars:
                break
            i = self.r.randrange(len(chars))
            k = self.r.random()
            if k < 0.35:
                del chars[i]
            elif k < 0.7:
                chars.insert(
                    i, self.r.choice("()[],!&|=<>@$.'\" \n?*:-0aAZ_\\é\U0001f600\x00")
                )
            elif k < 0.85:
                chars[i] = self.r.choice("()[],!&|=<>@$.'\" \n?*")
            else:
                j = self.r.randrange(len(chars))
                chars[i], chars[j] = chars[j], chars[i]
        return "".join(chars)


# --------------------------------------------------------------------------
# documents


def make_documents(rng: random.Random) -> list:
    scalars = [
        0,
        1,
        -1,
        2,
        3,
        1.5,
        -0.0,
        2.0,
        100,
        0.01,
        9007199254740993,
        -9007199254740993,
        10**30,
        1e308,
        5e-324,
        float("inf"),
        float("nan"),
        True,
        False,
        None,
        "",
        "a",
        "b",
        "ab",
        "aa",
        "abc",
        "A",
        "\n",
        "a\nb",
        "\U0001f600",
        "é",
        "\ud800",
        "\x00",
        "[",
        ".",
        "a.*",
        "[ab]+",
        "1",
    ]

    def value(depth: int) -> object:
        r = rng.random()
        if depth > 2 or r < 0.55:
            return rng.choice(scalars)
        if r < 0.78:
            return [value(depth + 1) for _ in range(rng.choice([0, 1, 2, 3]))]
        return {
            rng.choice(NAMES): value(depth + 1) for _ in range(rng.choice([0, 1, 2, 3]))
        }

    docs: list = []
    for _ in range(36):
        if rng.random() < 0.5:
            docs.append([value(0) for _ in range(rng.choice([0, 1, 3, 5]))])
        else:
            docs.append({n: value(0) for n in rng.sample(NAMES, rng.choice([0, 2, 4, 6]))})
    # scalars, empty containers, a string where an array is expected
    docs += [[], {}, "abc", 7, None, True, {"a": "abc", "b": "a.*"}, [[], {}, "", 0]]
    # deep data (deeper than max_recursion_depth)
    deep: object = {"a": 1}
    for i in range(150):
        deep = {"a": deep, "b": i} if i % 2 else [deep, i]
    docs.append(deep)
    shallow: object = "leaf"
    for i in range(60):
        shallow = {"a": shallow, "b": [i]}
    docs.append(shallow)
    # cyclic data
    cyc: dict = {"a": [1, 2], "b": "x"}
    cyc["c"] = cyc
    docs.append(cyc)
    cyl: list = [{"a": 1}, "s"]
    cyl.append(cyl)
    docs.append(cyl)
    return docs


# --------------------------------------------------------------------------
# comparison


class Stats:
    def __init__(self) -> None:
        self.queries = 0
        self.accepted = 0
        self.rejected = 0
        self.evaluations = 0
        self.eval_errors = 0
        self.function_calls = 0
        self.differences: list = []
        self.error_classes: dict = {}
        self.position_moved = 0
        self.message_changed = 0
        self.offset_outside_both = 0

    def diff(self, what: str, *detail: object) -> None:
        if len(self.differences) < 40:
            self.differences.append((what, detail))
        else:
            self.differences.append((what, ()))


def check_error_position(ns: SimpleNamespace, err: Exception, query: str) -> tuple:
    """Return (inside, problem) for a compile error."""
    token = getattr(err, "token", None)
    text = str(err)
    if "\n" in text.replace(query, "") and "\n" not in query:
        return (False, "message is not one line")
    if token is None:
        return (False, "no token")
    index = token.index
    inside = isinstance(index, int) and 0 <= index <= len(query)
    if not inside:
        return (False, f"offset {index!r} outside the text")
    if token.query != query:
        return (False, "token of another query")
    line = query.count("\n", 0, index) + 1
    col = index - (query.rfind("\n", 0, index) + 1)
    if not text.endswith(f", line {line}, column {col}"):
        return (True, f"line/column do not match offset {index}: {text!r}")
    return (True, None)


def compile_one(ns: SimpleNamespace, env, query: str) -> tuple:
    try:
        return ("ok", env.compile(query))
    except Exception as err:  # noqa: BLE001
        return ("err", err)


def evaluate(ns: SimpleNamespace, compiled, doc: object) -> tuple:
    LOG.calls = []
    try:
        nodes = [(n.location, id(n.value)) for n in compiled.find(doc)]
        if UNORDERED:
            nodes.sort(key=repr)
        res = ("ok", tuple(nodes))
    except Exception as err:  # noqa: BLE001
        res = ("err", type(err).__name__, isinstance(err, ns.Error))
    calls = LOG.calls
    if UNORDERED:
        calls.sort(key=repr)
    LOG.calls = None
    return res, calls


def compare_query(
    query: str, docs: list, env_o, env_n, stats: Stats, rng: random.Random, n_docs: int
) -> bool:
    """Compare one query. Returns True if it was accepted."""
    stats.queries += 1
    ko, ro = compile_one(ORIG, env_o, query)
    kn, rn = compile_one(NEW, env_n, query)
    if ko != kn:
        stats.diff("accept/reject", query, ko, kn, repr(ro), repr(rn))
        return False
    if ko == "err":
        stats.rejected += 1
        co, cn = type(ro).__name__, type(rn).__name__
        stats.error_classes[cn] = stats.error_classes.get(cn, 0) + 1
        if co != cn:
            stats.diff("error class", query, co, cn, str(ro), str(rn))
            return False
        if isinstance(ro, ORIG.Error) != isinstance(rn, NEW.Error):
            stats.diff("JSONPathError-ness", query, co, cn)
            return False
        if isinstance(rn, NEW.Error):
            inside_o, prob_o = check_error_position(ORIG, ro, query)
            inside_n, prob_n = check_error_position(NEW, rn, query)
            if prob_n is not None and prob_o is None:
                stats.diff("error position", query, prob_n, str(ro), str(rn))
            elif prob_n is not None:
                stats.offset_outside_both += 1
            elif ro.token.index != rn.token.index:
                stats.position_moved += 1
            if str(ro) != str(rn):
                stats.message_changed += 1
        return False

    stats.accepted += 1
    so, sn = str(ro), str(rn)
    if so != sn:
        stats.diff("str(query)", query, so, sn)
    else:
        k2, r2 = compile_one(NEW, env_n, sn)
        if k2 != "ok" or str(r2) != sn:
            stats.diff("str(query) does not reparse", query, sn, repr(r2))

    for doc in rng.sample(docs, n_docs):
        stats.evaluations += 1
        eo, calls_o = evaluate(ORIG, ro, doc)
        en, calls_n = evaluate(NEW, rn, doc)
        stats.function_calls += len(calls_n)
        if eo != en:
            stats.diff("find()", query, repr(doc)[:200], eo, en)
        elif calls_o != calls_n and not (UNORDERED and eo[0] == "err"):
            # (in nondeterministic mode the calls made before an evaluation
            # error depend on the random visiting order, in both copies)
            stats.diff("function arguments", query, repr(doc)[:200], calls_o[:5], calls_n[:5])
        if eo[0] == "err":
            stats.eval_errors += 1
    return True


def entry_points(query: str, docs: list, env_o, env_n, stats: Stats) -> None:
    """find / finditer / find_one / compile().apply on the patched copy."""
    try:
        cq = env_n.compile(query)
    except Exception:  # noqa: BLE001
        return
    for doc in docs[:6]:
        try:
            expect = [(n.location, id(n.value)) for n in env_o.find(query, doc)]
        except Exception as err:  # noqa: BLE001
            try:
                env_n.find(query, doc)
            except Exception as err2:  # noqa: BLE001
                if type(err).__name__ != type(err2).__name__:
                    stats.diff("entry points error", query, err, err2)
            else:
                stats.diff("entry points error", query, err, "no error")
            continue
        got = [
            [(n.location, id(n.value)) for n in env_n.find(query, doc)],
            [(n.location, id(n.value)) for n in env_n.finditer(query, doc)],
            [(n.location, id(n.value)) for n in cq.find(doc)],
            [(n.location, id(n.value)) for n in cq.finditer(doc)],
            [(n.location, id(n.value)) for n in cq.apply(doc)],
        ]
        one = env_n.find_one(query, doc)
        first = [(one.location, id(one.value))] if one is not None else []
        if any(g != expect for g in got) or first != expect[:1]:
            stats.diff("entry points", query, repr(doc)[:200])
        stats.evaluations += 6


def registration_cases(docs: list, stats: Stats, rng: random.Random) -> int:
    """Functions registered, replaced and removed between compile and find."""
    n = 0
    queries = [
        "$[?late(@.a) == 1]",
        "$[?late(@.a)]",
        "$[?fl_n(@.*) && late(@.a) == 1]",
        "$[?count(@.*) > 1]",
        "$[?length(@) == 2]",
        "$[?swap(@.a, @.*)]",
    ]
    for ns_pair in range(300):
        results = []
        for ns in (ORIG, NEW):
            trace = []
            env = make_env(ns)
            other = make_env(ns)
            for q in queries:
                trace.append(("before", q, compile_one(ns, env, q)[0]))
            env.function_extensions["late"] = make_function(ns, "late", "v", "v", 0)
            env.function_extensions["swap"] = make_function(ns, "swap", "l", "vn", 0)
            compiled = []
            for q in queries:
                k, r = compile_one(ns, env, q)
                trace.append(("after", q, k, type(r).__name__ if k == "err" else str(r)))
                if k == "ok":
                    compiled.append(r)
                # the other environment must not see the registration
                k2, r2 = compile_one(ns, other, q)
                trace.append(("other", q, k2, type(r2).__name__ if k2 == "err" else ""))
            doc = docs[ns_pair % len(docs)]
            for c in compiled:
                trace.append(("find", str(c), evaluate(ns, c, doc)))
            # replace with another signature of the same arity, then remove
            env.function_extensions["late"] = make_function(ns, "late", "l", "n", 0)
            for c in compiled:
                trace.append(("find replaced", str(c), evaluate(ns, c, doc)))
            del env.function_extensions["late"]
            for c in compiled:
                trace.append(("find removed", str(c), evaluate(ns, c, doc)))
            for q in queries:
                trace.append(("removed", q, compile_one(ns, env, q)[0]))
            results.append(trace)
            n += len(trace)
        if results[0] != results[1]:
            for a, b in zip(results[0], results[1]):
                if a != b:
                    stats.diff("registration", a, b)
                    break
    return n


def threaded_cases(accepted: list, docs: list, stats: Stats, rng: random.Random) -> int:
    """Compile and evaluate from several threads on one shared patched env."""
    env_o = make_env(ORIG)
    env_n = make_env(NEW)
    work = [(q, docs[rng.randrange(len(docs))]) for q in accepted]
    expected = {}
    for i, (q, doc) in enumerate(work):
        expected[i] = evaluate(ORIG, env_o.compile(q), doc)
    problems: list = []
    n_threads = 6
    shared = {i: env_n.compile(q) for i, (q, _) in enumerate(work) if i % 2 == 0}

    def worker(tid: int) -> None:
        order = list(range(len(work)))
        random.Random(tid).shuffle(order)
        for i in order:
            q, doc = work[i]
            got = (("?",), [])
            try:
                cq = shared.get(i) or env_n.compile(q)
                got = evaluate(NEW, cq, doc)
                if tid % 2:
                    # interleave a lazy iterator with another evaluation
                    it = iter(cq.finditer(doc))
                    first = next(it, None)
                    evaluate(NEW, cq, doc)
                    rest = list(it)
                    seq = ([first] if first is not None else []) + rest
                    lazy = ("ok", tuple((n.location, id(n.value)) for n in seq))
                    if got[0][0] == "ok" and lazy != got[0]:
                        problems.append(("lazy", q, lazy, got[0]))
            except Exception as err:  # noqa: BLE001
                if expected[i][0][0] == "ok" or got[0][0] == "ok":
                    problems.append(("raised", q, repr(err)))
                continue
            if got != expected[i]:
                problems.append(("threaded", q, expected[i], got))

    threads = [threading.Thread(target=worker, args=(t,)) for t in range(n_threads)]
    for t in threads:
        t.start()
    for t in threads:
        t.join()
    for p in problems:
        stats.diff(*p)
    return len(work) * n_threads


def main() -> int:
    total = int(sys.argv[1]) if len(sys.argv) > 1 else 120000
    seed = int(sys.argv[2]) if len(sys.argv) > 2 else 20261005
    rng = random.Random(seed)
    gen = Gen(rng)
    docs = make_documents(rng)
    stats = Stats()
    started = time.time()

    env_o, env_n = make_env(ORIG), make_env(NEW)
    nd_o, nd_n = make_env(ORIG, nondeterministic=True), make_env(NEW, nondeterministic=True)
    accepted: list = []
    seen = set()
    dup = 0
    i = 0
    while stats.queries < total:
        i += 1
        q = gen.query()
        r = rng.random()
        if r < 0.25:
            q = gen.mutate(q)
        if q in seen:
            dup += 1
            continue
        seen.add(q)
        if r > 0.97:
            # Nondeterministic environments: both copies draw from the same
            # random stream, so only the multiset of nodes (and of function
            # calls) is compared.
            global UNORDERED
            UNORDERED = True
            try:
                ok = compare_query(q, docs, nd_o, nd_n, stats, rng, 2)
            finally:
                UNORDERED = False
        else:
            ok = compare_query(q, docs, env_o, env_n, stats, rng, 2)
        if ok and len(accepted) < 6000:
            accepted.append(q)
        if ok and stats.accepted % 25 == 0:
            entry_points(q, docs, env_o, env_n, stats)
        if stats.queries % 20000 == 0:
            print(
                f"  ... {stats.queries} queries, {stats.accepted} accepted, "
                f"{len(stats.differences)} differences, {time.time() - started:.0f}s",
                flush=True,
            )

    reg = registration_cases(docs, stats, rng)
    thr = threaded_cases(accepted[:3000], docs, stats, rng)

    print(f"seed {seed}")
    print(f"distinct queries compared      : {stats.queries} ({dup} duplicates skipped)")
    print(f"  accepted by both             : {stats.accepted}")
    print(f"  rejected by both             : {stats.rejected}")
    print(f"  error classes                : {stats.error_classes}")
    print(f"  message wording differs      : {stats.message_changed} (allowed)")
    print(f"  reported offset differs      : {stats.position_moved} (allowed, inside the text)")
    print(f"  offset problem in BOTH copies: {stats.offset_outside_both}")
    print(f"find() evaluations compared    : {stats.evaluations} ({stats.eval_errors} raised in both)")
    print(f"user function calls compared   : {stats.function_calls}")
    print(f"registration / isolation steps : {reg}")
    print(f"threaded evaluations           : {thr}")
    print(f"total cases                    : {stats.queries + stats.evaluations + reg + thr}")
    print(f"elapsed                        : {time.time() - started:.0f}s")
    print(f"DIFFERENCES                    : {len(stats.differences)}")
    for what, detail in stats.differences[:40]:
        print("  *", what, *[str(d)[:300] for d in detail])
    return 1 if stats.differences else 0


if __name__ == "__main__":
    sys.exit(main())
