"""Write meta.json for freshly evaluated seeded changes (from eval.json + one-line descriptions) and print their DESIGN rows.

usage: /venv/bin/python -m harness.seed_meta NEEDS.json STRENGTHENED.json ORIGIN_TEXT [--rows]
"""
from __future__ import annotations

import json
import os
import sys

VERIF = os.path.dirname(os.path.dirname(os.path.abspath(__file__)))


def main() -> None:
    needs = json.load(open(sys.argv[1]))
    strengthened = json.load(open(sys.argv[2]))
    origin = sys.argv[3]
    rows = []
    for sid, need in sorted(needs.items()):
        d = os.path.join(VERIF, "seeded", sid)
        ev = json.load(open(os.path.join(d, "eval.json")))
        prop = ev["property"]
        caught = [p for p, v in ev.get("checks", {}).items() if v.get("caught")]
        meta = {
            "id": sid, "property": prop, "breaks": prop, "needs_to_manifest": need, "origin": origin,
            "confirmed": {"applies_to_HEAD": bool(ev.get("applies")), "repository_tests": ev.get("tests"),
                          "demo_with_patch_exit": ev.get("demo_with_patch_rc"), "demo_without_patch_exit": ev.get("demo_without_patch_rc")},
            "what_i_ran": "python -m harness.seed_eval --dir (scratch worktree of /repo HEAD: git apply patch.diff; pytest; demo.py with and "
                          "without the patch; ./check <property> --tier quick with VERIF_REPO pointing at the patched worktree)",
            "caught_by": caught, "signatures": {p: v.get("signatures", [])[:3] for p, v in ev.get("checks", {}).items()},
            "missed_at_first": sid in strengthened, "expected": "caught",
        }
        if sid in strengthened:
            meta["strengthened"] = strengthened[sid]
        if not (ev.get("confirmed") and caught == [prop]):
            print(f"WARNING {sid}: confirmed={ev.get('confirmed')} caught={caught}", file=sys.stderr)
        with open(os.path.join(d, "meta.json"), "w") as fh:
            json.dump(meta, fh, indent=1, ensure_ascii=False)
            fh.write("\n")
        rows.append(f"| {sid} | {need.replace('|', '/')} | {', '.join(caught)} | {strengthened.get(sid, '').replace('|', '/')} |")
    if "--rows" in sys.argv:
        print("\n".join(rows))


if __name__ == "__main__":
    main()
