"""./check setup: verify the toolchain and parse every specification module."""
import glob
import os
import subprocess

from . import core


def run() -> int:
    mods = sorted(glob.glob(os.path.join(core.SPEC, "*.tla")))
    from concurrent.futures import ThreadPoolExecutor  # noqa: PLC0415

    def sany(m):
        p = subprocess.run(
            ["java", "-cp", core.TLA_CP, "tla2sany.SANY", os.path.basename(m)],
            cwd=core.SPEC, capture_output=True, text=True,
        )
        out = p.stdout + p.stderr
        ok = not (p.returncode != 0 or "*** Errors" in out or "Fatal errors" in out or "Could not parse" in out)
        return m, ok, out

    bad = 0
    with ThreadPoolExecutor(max_workers=core.NCPU) as ex:
        for m, ok, out in ex.map(sany, mods):
            if not ok:
                print(f"SANY failed on {m}:\n{out[-1500:]}")
                bad += 1
    core.import_repo()
    os.makedirs(core.EVIDENCE, exist_ok=True)
    print(f"setup: {len(mods)} modules parsed, {bad} failures")
    if bad:
        return 2
    # the specification must agree with the RFC example tables before it judges anything
    from . import selftest  # noqa: PLC0415

    return selftest.run("quick")
