"""./check selftest: is the machinery itself trustworthy?

1. ANCHORS  the specification is evaluated against data whose expectations come
   from the RFCs, not from this implementation: the RFC 9535 example tables
   (tests/test_ietf_examples.py, test_goessner.py), the 16 rows of the
   well-typedness table, the comparison table rows, the valid / invalid I-Regexp
   lists, and Python's unicodedata for the category table of IRegexp.tla.  A
   specification that disagrees with a normative example does not get to judge
   the code.
2. BINDING  corrupting one recorded field of an accepted trace must make the
   validator reject exactly that record (location, truth value, error class,
   path, position).
3. SEEDED   every change kept under /verif/seeded/<id>/ is applied to a scratch
   worktree and the owning property's quick check must exit 1 with a VIOLATION
   line (only with --tier thorough: it takes minutes).
"""
from __future__ import annotations

import copy
import glob
import importlib
import json
import os
import shutil
import subprocess
import sys
import tempfile
import unicodedata

from . import core, impl, probes


def anchors(jp):
    if core.REPO not in sys.path:
        sys.path.insert(0, core.REPO)
    recs = []
    ex = importlib.import_module("tests.test_ietf_examples")
    go = importlib.import_module("tests.test_goessner")
    for c in list(ex.TEST_CASES) + list(go.TEST_CASES):
        recs.append({"op": "anchor_find", "q": core.enc_text(c.query), "doc": core.enc_value(c.data),
                     "want": [core.enc_value(v) for v in c.want]})
    wt = importlib.import_module("tests.test_ietf_well_typedness")
    reg = probes.reg_records([("foo", ["N"], "N"), ("bar", ["V"], "L"), ("bn", ["N"], "L"), ("bl", ["L"], "L")])
    for c in wt.TEST_CASES:
        recs.append({"op": "anchor_valid", "q": core.enc_text(c.query), "reg": reg, "valid": bool(c.valid)})
    cm = importlib.import_module("tests.test_ietf_comparison")

    def operand(x):
        if x is jp.NOTHING or (isinstance(x, jp.JSONPathNodeList) and len(x) == 0):
            return {"k": "nothing"}
        if isinstance(x, jp.JSONPathNodeList):
            return core.enc_value(x[0].value)
        return core.enc_value(x)

    for c in cm.TEST_CASES:
        try:
            recs.append({"op": "anchor_cmp", "q": [], "left": operand(c.left), "cmp": c.op, "right": operand(c.right), "want": bool(c.want)})
        except core.Unrepresentable:
            pass
    ir = importlib.import_module("tests.test_iregexp")
    for c in ir.VALID_TEST_CASES:
        recs.append({"op": "anchor_re", "q": [], "pattern": core.enc_text(c.pattern), "valid": True})
    for c in ir.INVALID_TEST_CASES:
        recs.append({"op": "anchor_re", "q": [], "pattern": core.enc_text(c.pattern), "valid": False})
    # category table of IRegexp.tla vs unicodedata
    table = open(os.path.join(core.SPEC, "IRegexp.tla")).read()
    import re  # noqa: PLC0415
    body = table[table.index("CatTable == <<"):table.index("CatRow(c) ==")]
    for m in re.finditer(r"<<(\d+), (\d+), (\d+)>>", body):
        cp = int(m.group(1))
        cat = unicodedata.category(chr(cp))
        recs.append({"op": "anchor_cat", "q": [], "cp": cp, "cat": [ord(cat[0]), ord(cat[1])]})
    return recs


def corruptions(jp):
    """(record, mutator, description) triples: the good record must be accepted, the corrupted one rejected."""
    doc = {"a": [1, {"b": 2}], "c": 3, "d": [0, False, ""]}
    good_find = impl.rec_find(jp, "$..*", doc, paths=True)
    good_filter = impl.rec_find(jp, "$.d[?@]", doc, paths=True)
    good_compile_bad = impl.rec_compile(jp, "$.a[?@.b ==]")
    good_compile_ok = impl.rec_compile(jp, "$.a[?@.b == 1]")
    good_pos = impl.rec_errpos(jp, "$.a\n [?@.b ==]")
    good_str = impl.rec_str(jp, "$[?!(@.a == 1)]", [core.enc_value([{"a": 1}, {"a": 2}])])
    out = []

    def swap_locs(r):
        r["locs"][1], r["locs"][2] = r["locs"][2], r["locs"][1]

    def drop_loc(r):
        r["locs"].pop()

    def bad_path(r):
        r["paths"][0] = core.enc_text('$["a"]')

    def flip_out(r):
        r["out"] = "ok"

    def flip_out2(r):
        r["out"], r["jp"], r["cls"] = "raise", True, "JSONPathSyntaxError"

    def not_jp(r):
        r["jp"], r["cls"] = False, "ValueError"

    def bad_line(r):
        r["line"] = 1

    def bad_index(r):
        r["index"] = 999

    def bad_s2(r):
        r["s2"] = r["s2"] + [32]

    def bad_vok(r):
        r["vok"] = False

    out.append((good_find, swap_locs, "two locations swapped"))
    out.append((good_find, drop_loc, "one node dropped"))
    out.append((good_find, bad_path, "a normalized path in double quotes"))
    out.append((good_find, bad_vok, "value not at its location"))
    out.append((good_filter, drop_loc, "a falsy child dropped by a filter"))
    out.append((good_compile_bad, flip_out, "an invalid query reported as accepted"))
    out.append((good_compile_bad, not_jp, "a non-JSONPathError class"))
    out.append((good_compile_ok, flip_out2, "a valid query reported as rejected"))
    out.append((good_pos, bad_line, "error line forced to 1"))
    out.append((good_pos, bad_index, "error offset outside the text"))
    out.append((good_str, bad_s2, "second serialisation differs"))
    # the lexer hook: one recorded field corrupted, one step removed
    from .props import extra  # noqa: PLC0415
    good_lex = extra.record_lexer(["$.a[?@.b == 'x' && count(@.*) > 1]"])[0]

    def bad_pos(r):
        r["events"][3]["pos"] += 1

    def bad_stack(r):
        for e in r["events"]:
            if e["fs"]:
                e["fs"] = []
                break

    def drop_step(r):
        del r["events"][2]

    def bad_token(r):
        r["tokens"][2]["t"] = "WILD"

    out.append((good_lex, bad_pos, "lexer: position of one step shifted"))
    out.append((good_lex, bad_stack, "lexer: function call stack emptied in one step"))
    out.append((good_lex, drop_step, "lexer: one hook event removed"))
    out.append((good_lex, bad_token, "lexer: a token type changed"))
    # the parser model: outcome, error class, one node of the query built
    good_p = extra.pcompile_record(jp, "$.a[?@.b == 'x' && count(@.*) > 1 || @[1:2]]")
    good_pe = extra.pcompile_record(jp, "$[?count(@.a, 1) == 1]")

    def p_op(r):
        r["ast"][1]["sels"][0]["e"]["t"] = "and"

    def p_kind(r):
        r["kind"] = "syntax"

    def p_out(r):
        r["out"], r["kind"], r["ast"] = "raise", "syntax", []

    out.append((good_p, p_op, "parser: the top operator of the filter changed"))
    out.append((good_pe, p_kind, "parser: a typing error reported as a syntax error"))
    out.append((good_p, p_out, "parser: an accepted query reported as rejected"))
    # the helper API
    cq = jp.compile("$.a[0]")
    doc = {"a": [5]}
    nl = cq.find(doc)
    good_api = {"op": "api", "q": core.enc_text("$.a[0]"), "doc": core.enc_value(doc), "singular": cq.singular_query(), "qempty": cq.empty(),
                "out": "ok", "lempty": nl.empty(), "paths": [core.enc_text(p) for p in nl.paths()], "helpers_ok": True}

    def api_sing(r):
        r["singular"] = False

    def api_path(r):
        r["paths"][0][-2] = 49

    out.append((good_api, api_sing, "api: singular_query() flipped"))
    out.append((good_api, api_path, "api: a digit of a normalized path changed"))
    return out


def run(tier: str) -> int:
    jp = core.import_repo()
    failures = 0
    # 1. anchors
    recs = anchors(jp)
    rej, st = core.validate_records("Trace", recs, name="selftest_anchors")
    kinds = {}
    for r in recs:
        kinds[r["op"]] = kinds.get(r["op"], 0) + 1
    print(f"selftest anchors: {len(recs)} records {kinds}; rejected: {len(rej)}")
    for r in rej:
        rec = recs[r["id"]]
        print("  ANCHOR FAILURE:", r["clause"], r["detail"], core.dec_text(rec.get("q", [])) or rec.get("pattern") or rec.get("cp"))
        failures += 1
    # 2. binding: corrupted traces are rejected exactly where corrupted
    trip = corruptions(jp)
    batch = []
    for k, (rec, mut, _what) in enumerate(trip):
        good = copy.deepcopy(rec)
        bad = copy.deepcopy(rec)
        mut(bad)
        good["id"], bad["id"] = 2 * k, 2 * k + 1
        batch += [good, bad]
    rej, _ = core.validate_records("Trace", batch, name="selftest_binding")
    rejected = {r["id"]: r["clause"] for r in rej}
    for k, (_rec, _mut, what) in enumerate(trip):
        if 2 * k in rejected:
            print(f"  BINDING FAILURE: the uncorrupted record was rejected ({what}): {rejected[2 * k]}")
            failures += 1
        if 2 * k + 1 not in rejected:
            print(f"  BINDING FAILURE: corruption not detected: {what}")
            failures += 1
    print(f"selftest binding: {len(trip)} corruptions, {sum(1 for k in range(len(trip)) if 2 * k + 1 in rejected)} rejected at the corrupted record")
    # 3. seeded changes
    if tier == "thorough":
        failures += seeded()
        # 4. the converse: behaviour-preserving changes must stay quiet
        failures += keepers()
    print("selftest:", "OK" if failures == 0 else f"{failures} failure(s)")
    return 0 if failures == 0 else 2


def keepers(only=None) -> int:
    """Apply each behaviour-PRESERVING change (keepers/<id>/patch.diff) to a scratch worktree and run the checks
    recorded in its meta.json: none may raise an alarm."""
    from concurrent.futures import ThreadPoolExecutor  # noqa: PLC0415

    metas = sorted(glob.glob(os.path.join(core.VERIF, "keepers", "*", "meta.json")))
    jobs = int(os.environ.get("VERIF_SELFTEST_JOBS", "3") or 3)
    with ThreadPoolExecutor(max_workers=jobs) as pool:
        return sum(pool.map(lambda mp: _keeper_one(mp, only), metas))


def _keeper_one(mp, only) -> int:
    failures = 0
    for mp in [mp]:
        d = os.path.dirname(mp)
        meta = json.load(open(mp))
        kid = os.path.basename(d)
        if only and kid not in only:
            continue
        wt = tempfile.mkdtemp(prefix=f"verif-keeper-{kid}-")
        try:
            subprocess.run(["git", "-C", core.REPO, "worktree", "add", "-q", "--detach", wt, "HEAD"], check=True, capture_output=True)
            ap = subprocess.run(["git", "-C", wt, "apply", os.path.join(d, "patch.diff")], capture_output=True, text=True)
            if ap.returncode != 0:
                print(f"  KEEPER {kid}: patch does not apply: {ap.stderr.strip()[:200]}")
                failures += 1
                continue
            for prop in meta["checks_run"]:
                env = dict(os.environ, VERIF_REPO=wt, VERIF_EVIDENCE_DIR=os.path.join(wt, "_evidence"))
                p = subprocess.run([os.path.join(core.VERIF, "check"), prop, "--tier", "quick"], capture_output=True, text=True, env=env,
                                   cwd=core.VERIF)
                print(f"  KEEPER {kid} [{prop}]: {'quiet' if p.returncode == 0 else 'ALARM (rc=%d)' % p.returncode}")
                if p.returncode != 0:
                    failures += 1
        finally:
            subprocess.run(["git", "-C", core.REPO, "worktree", "remove", "--force", wt], capture_output=True)
            shutil.rmtree(wt, ignore_errors=True)
    return failures


def seeded(only=None, all_checks: bool = False) -> int:
    """Apply each seeded change to a scratch worktree and run the owning check (VERIF_SELFTEST_JOBS at a time, default 3)."""
    from concurrent.futures import ThreadPoolExecutor  # noqa: PLC0415

    metas = sorted(glob.glob(os.path.join(core.VERIF, "seeded", "*", "meta.json")))
    jobs = int(os.environ.get("VERIF_SELFTEST_JOBS", "3") or 3)
    with ThreadPoolExecutor(max_workers=jobs) as pool:
        return sum(pool.map(lambda mp: _seeded_one(mp, only, all_checks), metas))


def _seeded_one(mp, only, all_checks) -> int:
    failures = 0
    for mp in [mp]:
        d = os.path.dirname(mp)
        meta = json.load(open(mp))
        sid = os.path.basename(d)
        if only and sid not in only:
            continue
        wt = tempfile.mkdtemp(prefix=f"verif-seeded-{sid}-")
        try:
            subprocess.run(["git", "-C", core.REPO, "worktree", "add", "-q", "--detach", wt, "HEAD"], check=True, capture_output=True)
            ap = subprocess.run(["git", "-C", wt, "apply", os.path.join(d, "patch.diff")], capture_output=True, text=True)
            if ap.returncode != 0:
                print(f"  SEEDED {sid}: patch does not apply: {ap.stderr.strip()[:200]}")
                failures += 1
                continue
            props = [meta["property"]] + ([p for p in meta.get("also_run", [])] if all_checks else [])
            for prop in props:
                env = dict(os.environ, VERIF_REPO=wt, VERIF_EVIDENCE_DIR=os.path.join(wt, "_evidence"))
                p = subprocess.run([os.path.join(core.VERIF, "check"), prop, "--tier", "quick"], capture_output=True, text=True, env=env,
                                   cwd=core.VERIF)
                caught = p.returncode == 1 and "VIOLATION property=" in p.stdout
                print(f"  SEEDED {sid} [{prop}]: {'caught' if caught else 'MISSED (rc=%d)' % p.returncode}")
                if not caught and prop == meta["property"] and meta.get("expected", "caught") == "caught":
                    failures += 1
        finally:
            subprocess.run(["git", "-C", core.REPO, "worktree", "remove", "--force", wt], capture_output=True)
            shutil.rmtree(wt, ignore_errors=True)
    return failures
