"""Evaluate a seeded change delivered by a sub-agent and file it under /verif/seeded/<id>/.

usage: /venv/bin/python -m harness.seed_eval C09 [A|B] [--also C13,C03]
For each patch: confirm (in a scratch worktree, never in /repo) that it applies to HEAD, that
the repository's tests still pass (352 passed), that the demonstration fails with it and
passes without it; then run the owning property's quick check against the patched tree.
"""
from __future__ import annotations

import json
import os
import re
import shutil
import subprocess
import sys
import tempfile

VERIF = os.path.dirname(os.path.dirname(os.path.abspath(__file__)))
REPO = "/repo"
OUT = os.environ.get("SEED_OUT", "/tmp/wt-out")
ROUND = os.environ.get("SEED_ROUND", "")


def sh(cmd, **kw):
    kw.setdefault("timeout", 1800)
    try:
        return subprocess.run(cmd, capture_output=True, text=True, **kw)
    except subprocess.TimeoutExpired:
        return subprocess.CompletedProcess(cmd, 124, "", "timed out")


def evaluate(prop: str, letter: str, also, srcdir=None, sid=None):
    src = srcdir or os.path.join(OUT, prop)
    patch = os.path.join(src, f"patch_{letter}.diff")
    demo = os.path.join(src, f"demo_{letter}.py")
    if not os.path.exists(patch):
        print(f"{prop}-{letter}: no patch")
        return None
    wt = tempfile.mkdtemp(prefix=f"seed-{prop}{letter}-")
    ev = tempfile.mkdtemp(prefix=f"seed-ev-{prop}{letter}-")
    res = {"property": prop, "id": sid or f"{prop}-{ROUND}{letter}"}
    try:
        sh(["git", "-C", REPO, "worktree", "add", "-q", "--detach", wt, "HEAD"], check=True)
        # demo on the unmodified tree
        d0 = sh(["/venv/bin/python", demo], cwd=wt)
        res["demo_without_patch_rc"] = d0.returncode
        ap = sh(["git", "-C", wt, "apply", patch])
        res["applies"] = ap.returncode == 0
        if ap.returncode != 0:
            res["apply_error"] = ap.stderr[:300]
            return res
        t = sh(["/venv/bin/python", "-m", "pytest", "-q", "-p", "no:cacheprovider", "--timeout=900", "--continue-on-collection-errors"], cwd=wt)
        m = re.search(r"(\d+) passed", t.stdout)
        res["tests"] = (t.stdout.strip().splitlines() or ["?"])[-1]
        res["tests_ok"] = bool(m and int(m.group(1)) == 352 and "failed" not in res["tests"])
        d1 = sh(["/venv/bin/python", demo], cwd=wt)
        res["demo_with_patch_rc"] = d1.returncode
        res["demo_with_patch_tail"] = (d1.stdout + d1.stderr)[-400:]
        res["checks"] = {}
        for p in [prop] + [a for a in also if a != prop]:
            env = dict(os.environ, VERIF_REPO=wt, VERIF_EVIDENCE_DIR=ev)
            c = sh([os.path.join(VERIF, "check"), p, "--tier", "quick"], cwd=VERIF, env=env)
            sigs = re.findall(r"signature: (\{.*\})", c.stdout)
            res["checks"][p] = {"rc": c.returncode, "caught": c.returncode == 1 and "VIOLATION property=" in c.stdout,
                                "signatures": sigs[:4], "tail": (c.stdout + c.stderr)[-300:] if c.returncode not in (0, 1) else ""}
    finally:
        sh(["git", "-C", REPO, "worktree", "remove", "--force", wt])
        shutil.rmtree(wt, ignore_errors=True)
        shutil.rmtree(ev, ignore_errors=True)
    return res


def main_by_dir():
    """usage: python -m harness.seed_eval --dir /tmp/wt-out7/K05 [A|B] [--also C13]: the property is read from property_<letter>.txt"""
    srcdir = sys.argv[sys.argv.index("--dir") + 1]
    key = os.path.basename(srcdir.rstrip("/"))
    letters = [a for a in sys.argv[1:] if a in ("A", "B")] or ["A", "B"]
    also = sys.argv[sys.argv.index("--also") + 1].split(",") if "--also" in sys.argv else []
    for letter in letters:
        pf = os.path.join(srcdir, f"property_{letter}.txt")
        if not os.path.exists(pf):
            print(f"{key}-{letter}: no property file")
            continue
        prop = re.search(r"C\d\d", open(pf).read()).group(0)
        sid = f"{prop}-{ROUND}{key}{letter}"
        r = evaluate(prop, letter, also, srcdir=srcdir, sid=sid)
        if r is None:
            continue
        dst = os.path.join(VERIF, "seeded", sid)
        os.makedirs(dst, exist_ok=True)
        shutil.copy(os.path.join(srcdir, f"patch_{letter}.diff"), os.path.join(dst, "patch.diff"))
        shutil.copy(os.path.join(srcdir, f"demo_{letter}.py"), os.path.join(dst, "demo.py"))
        if os.path.exists(os.path.join(srcdir, "notes.md")):
            shutil.copy(os.path.join(srcdir, "notes.md"), os.path.join(dst, "notes_from_author.md"))
        valid = bool(r.get("applies") and r.get("tests_ok") and r.get("demo_with_patch_rc") not in (0, None)
                     and r.get("demo_without_patch_rc") == 0)
        r["confirmed"] = valid
        with open(os.path.join(dst, "eval.json"), "w") as fh:
            json.dump(r, fh, indent=1)
        caught = {p: v["caught"] for p, v in r.get("checks", {}).items()}
        print(f"{sid}: confirmed={valid} tests={r.get('tests')} demo(with)={r.get('demo_with_patch_rc')} "
              f"demo(without)={r.get('demo_without_patch_rc')} caught={caught}")
        for p, v in r.get("checks", {}).items():
            for sg in v["signatures"][:2]:
                print("    ", p, sg[:200])
            if v["tail"]:
                print("    ", p, "rc", v["rc"], v["tail"][-200:])


def main():
    if "--dir" in sys.argv:
        return main_by_dir()
    prop = sys.argv[1]
    letters = [a for a in sys.argv[2:] if a in ("A", "B")] or ["A", "B"]
    also = []
    if "--also" in sys.argv:
        also = sys.argv[sys.argv.index("--also") + 1].split(",")
    for letter in letters:
        r = evaluate(prop, letter, also)
        if r is None:
            continue
        dst = os.path.join(VERIF, "seeded", r["id"])
        os.makedirs(dst, exist_ok=True)
        shutil.copy(os.path.join(OUT, prop, f"patch_{letter}.diff"), os.path.join(dst, "patch.diff"))
        shutil.copy(os.path.join(OUT, prop, f"demo_{letter}.py"), os.path.join(dst, "demo.py"))
        notes = os.path.join(OUT, prop, "notes.md")
        if os.path.exists(notes):
            shutil.copy(notes, os.path.join(dst, "notes_from_author.md"))
        valid = bool(r.get("applies") and r.get("tests_ok") and r.get("demo_with_patch_rc") not in (0, None)
                     and r.get("demo_without_patch_rc") == 0)
        r["confirmed"] = valid
        with open(os.path.join(dst, "eval.json"), "w") as fh:
            json.dump(r, fh, indent=1)
        caught = {p: v["caught"] for p, v in r.get("checks", {}).items()}
        print(f"{r['id']}: confirmed={valid} tests={r.get('tests')} demo(with)={r.get('demo_with_patch_rc')} "
              f"demo(without)={r.get('demo_without_patch_rc')} caught={caught}")
        for p, v in r.get("checks", {}).items():
            for s in v["signatures"][:2]:
                print("    ", p, s[:200])
            if v["tail"]:
                print("    ", p, "rc", v["rc"], v["tail"][-200:])


if __name__ == "__main__":
    main()
