"""Reader for TLA+ values as printed by TLC (-dump, -simulate file=, PrintT).

Values map to Python as: integers -> int, strings -> str, TRUE/FALSE -> bool,
<<..>> -> list, {..} -> frozenset-like list tagged ("set", [...]), records
[a |-> 1] -> dict, functions (k :> v @@ ...) -> dict with parsed keys (int or
str keys only), model values / identifiers -> ("id", name).
"""
from __future__ import annotations

import re
from typing import Any, Iterator, List, Tuple

_TOKEN = re.compile(
    r"\s*(?:(<<|>>|\|->|:>|@@|[\[\]{}(),])|(-?\d+)|\"((?:[^\"\\]|\\.)*)\"|([A-Za-z_][A-Za-z_0-9!]*))"
)


class TlaParseError(Exception):
    pass


def _tokens(text: str) -> List[Tuple[str, Any]]:
    out: List[Tuple[str, Any]] = []
    pos = 0
    n = len(text)
    while pos < n:
        m = _TOKEN.match(text, pos)
        if not m:
            if text[pos:].strip() == "":
                break
            raise TlaParseError(f"bad token at {pos}: {text[pos:pos+40]!r}")
        pos = m.end()
        if m.group(1) is not None:
            out.append(("p", m.group(1)))
        elif m.group(2) is not None:
            out.append(("i", int(m.group(2))))
        elif m.group(3) is not None:
            s = m.group(3)
            s = s.replace('\\"', '"').replace("\\\\", "\\")
            out.append(("s", s))
        else:
            out.append(("w", m.group(4)))
    return out


class _P:
    def __init__(self, toks: List[Tuple[str, Any]]):
        self.t = toks
        self.i = 0

    def peek(self) -> Tuple[str, Any]:
        return self.t[self.i] if self.i < len(self.t) else ("eof", None)

    def take(self) -> Tuple[str, Any]:
        tok = self.peek()
        self.i += 1
        return tok

    def expect(self, p: str) -> None:
        tok = self.take()
        if tok != ("p", p):
            raise TlaParseError(f"expected {p!r}, got {tok!r}")

    def value(self) -> Any:
        kind, val = self.take()
        if kind == "i":
            return val
        if kind == "s":
            return val
        if kind == "w":
            if val == "TRUE":
                return True
            if val == "FALSE":
                return False
            return ("id", val)
        if kind == "p":
            if val == "<<":
                items = []
                while self.peek() != ("p", ">>"):
                    items.append(self.value())
                    if self.peek() == ("p", ","):
                        self.take()
                self.take()
                return items
            if val == "{":
                items = []
                while self.peek() != ("p", "}"):
                    items.append(self.value())
                    if self.peek() == ("p", ","):
                        self.take()
                self.take()
                return ("set", items)
            if val == "[":
                rec = {}
                while self.peek() != ("p", "]"):
                    k = self.take()
                    if k[0] != "w":
                        raise TlaParseError(f"record field expected, got {k!r}")
                    self.expect("|->")
                    rec[k[1]] = self.value()
                    if self.peek() == ("p", ","):
                        self.take()
                self.take()
                return rec
            if val == "(":
                fn = {}
                while True:
                    k = self.value()
                    self.expect(":>")
                    v = self.value()
                    fn[k if not isinstance(k, list) else tuple(k)] = v
                    if self.peek() == ("p", "@@"):
                        self.take()
                        continue
                    break
                self.expect(")")
                return fn
        raise TlaParseError(f"unexpected token {kind} {val!r}")


def parse_value(text: str) -> Any:
    p = _P(_tokens(text))
    v = p.value()
    if p.peek()[0] != "eof":
        raise TlaParseError(f"trailing tokens: {p.peek()!r}")
    return v


_CONJ = re.compile(r"^/\\ ([A-Za-z_][A-Za-z_0-9]*) = ", re.M)


def parse_state(block: str) -> dict:
    """Parse '/\\ v1 = ...\\n/\\ v2 = ...' into {var: value}."""
    parts = _CONJ.split(block)
    # parts = [pre, name1, val1, name2, val2, ...]
    out = {}
    for k in range(1, len(parts), 2):
        out[parts[k]] = parse_value(parts[k + 1])
    return out


def iter_dump_states(lines: Iterator[str], must_contain: str | None = None) -> Iterator[dict]:
    """Iterate states of a TLC -dump file ('State N:' blocks)."""
    buf: List[str] = []
    for line in lines:
        if line.startswith("State "):
            if buf:
                blk = "".join(buf)
                if must_contain is None or must_contain in blk:
                    yield parse_state(blk)
            buf = []
        elif line.strip():
            buf.append(line)
    if buf:
        blk = "".join(buf)
        if must_contain is None or must_contain in blk:
            yield parse_state(blk)


_SIM_STATE = re.compile(r"^STATE_(\d+) ==\s*$", re.M)
_SIM_ACTION = re.compile(r"^\\\* <(\w+)", re.M)


def parse_sim_file(text: str) -> List[Tuple[str, dict]]:
    """Parse one file written by `tlc -simulate file=...`: [(action, state)]."""
    out: List[Tuple[str, dict]] = []
    # split on STATE_n == headers; the action comment precedes each header
    pieces = re.split(r"(?m)^(?=\\\* <|STATE_\d+ ==)", text)
    action = "Init"
    for pc in pieces:
        m = _SIM_ACTION.match(pc)
        if m:
            action = m.group(1)
            continue
        m = _SIM_STATE.match(pc)
        if m:
            body = pc[m.end():]
            body = body.split("\n\n")[0]
            out.append((action, parse_state(body)))
    return out
