"""Regenerates /verif/MANIFEST.json from the table below (run: python3 -m harness.manifest_gen)."""
import json
import os

VERIF = os.path.dirname(os.path.dirname(os.path.abspath(__file__)))

CLAIMED = {
    "C07": dict(
        technique="TLA+ PlusCal transcription of the RFC slice procedure model-checked by TLC (termination, closed form, clamping lemma); every Done state replayed into find(); text-level records trace-validated by TLC",
        text="TLC exhaustively explores the RFC's normalise/bounds/loop procedure (Slice.tla) for len 0..6(9) x all (start,end,step) in {omitted} u -8..8(-11..11) u {+-(2^53-1) via the clamping lemma}; each terminal state is replayed into the implementation (spec->code) and index/slice records of the implementation (selector lists, blank space, nested/descendant positions, objects, scalars, 2^53-1 literals) are validated against Eval.tla by TLC (code->spec). Exhaustive within the stated grid; beyond it only the clamping lemma's argument.",
        note="Trusted: TLC/SANY, the transcription of RFC 9535 2.3.3/2.3.4.2.2, the Python<->spec codecs; 32-bit TLC integers (2^30-1 stands for 2^53-1 by lemma T4c).",
        design_ref="4 (C07), 3.6",
    ),
}

_TRACE_NOTE = ("Trusted: TLC/SANY, the transcription of RFC 9535 (and RFC 9485) in /verif/spec, anchored by the RFC example "
               "tables (./check selftest); the Python<->spec codecs and the input generators (which only propose inputs: the "
               "expected outcome is always computed by TLC). Coverage is small-scope enumeration plus seeded sampling, not proof.")


def _trace(technique, text, ref):
    return dict(technique=technique, text=text, note=_TRACE_NOTE, design_ref=ref)


CLAIMED.update({
    "C01": _trace("TLA+ semantics of segments/selectors (Eval.tla) evaluated by TLC on recorded find() calls (trace validation)",
                  "Every recorded find() of a filter-free query is re-computed by TLC from the query TEXT (Syntax.tla parser) and the document (Eval.tla) and must be equal node by node (location, order, duplicates), value-at-location and normalized path included. Inputs: all trees of height<=2/width<=2 x a fixed battery, plus seeded random queries/documents (nasty names, all spellings).", "4 (C01)"),
    "C02": _trace("TLA+ filter semantics (Eval!Test) evaluated by TLC on recorded find() calls (trace validation)",
                  "Filter queries built from ~55 atoms (existence tests on '@'/'$' queries, comparisons, calls, nested filters to depth 3) under ! && || and parentheses, on arrays/objects with 18 child kinds (0,false,'',null,[],{},...) and on scalars, plus seeded random filter queries; every result validated by TLC.", "4 (C02)"),
    "C03": _trace("TLA+ recursive-descent transcription of the RFC 9535 ABNF + typing (Syntax/Typing.tla); compile() outcomes trace-validated by TLC",
                  "TLC parses every candidate text itself and decides Valid; a valid text that compile() rejects is a violation. Candidates: seeds, repository test queries, seeded generator output with every optional lexical form (blank space at every S, both quotes, every escape form, shorthand/bracket, number spellings, non-BMP names).", "4 (C03)"),
    "C04": _trace("TLA+ parser (Syntax.tla) as the membership oracle; compile() outcomes on enumerated short strings, lexeme sequences and single-edit neighbours trace-validated by TLC",
                  "All strings '$'+w over a 27-symbol alphabet (|w|<=3 quick / 4 thorough), seeded lexeme sequences, single-edit neighbours of valid queries; a text outside the grammar that compile() accepts is a violation.", "4 (C04)"),
    "C05": _trace("TLA+ well-typedness and integer-range judgement (Typing.tla); compile() on fresh environments with probe functions of every signature, trace-validated by TLC",
                  "All 39 signatures over {V,L,N}^n->type (n<=2) x argument shapes x syntactic positions, unknown names, wrong arity, integers at lo-1..hi+1 for five configured ranges; compile() must agree with Typing.tla and no function body may run during compile().", "4 (C05)"),
    "C06": _trace("TLA+ comparison table (JsonVal!Cmp) model-checked for its algebraic shape (T5) and used by TLC to validate recorded comparisons",
                  "Ordered pairs over 50 comparands of every kind (incl. bool-vs-number leaves at depth, permuted members, non-BMP strings, nothing) x 6 operators x every producer of each side; T5 (equivalence, strict order, derived operators) checked exhaustively on the spec's universe.", "4 (C06)"),
    "C10": _trace("TLA+ function-call semantics (Eval!ArgFor/Builtin); probe functions log received arguments; records trace-validated by TLC",
                  "Built-ins over 20 child kinds; probes of all 39 signatures log what they receive per declared parameter type; TLC compares logged argument lists (as sets) with Eval!ArgFor and the selection with the declared result type's use.", "4 (C10)"),
    "C11": _trace("TLA+ I-Regexp grammar and set-of-end-positions matcher (IRegexp.tla), T13 model-checked; match()/search() records trace-validated by TLC",
                  "Patterns from the RFC 9485 constructs (classes with dialect-special characters, category escapes on the model alphabet, quantifier forms), invalid patterns, non-string arguments x subjects over the special alphabet; both functions, pattern as literal and as query.", "4 (C11)"),
    "C12": _trace("TLA+ parser + normal form (Canon.tla); str() round-trip records trace-validated by TLC",
                  "For each compiled query: str() text must be Valid, have the same normal form as the original (or select the same nodes on a witness pool), be a fixpoint of str(compile(.)), with canonical string literals.", "4 (C12)"),
    "C13": _trace("outcome-class validation of compile()/find() records by TLC (totality clause), inputs from the syntax corpora plus long/deep inputs",
                  "Valid, almost valid and garbage texts incl. random Unicode and 1,024-character / nesting-32 inputs; every compiled query evaluated on every JSON kind; outcome must be return or a JSONPathError, error string producible, within a wall-clock guard.", "4 (C13)"),
    "C19": _trace("TLA+ Position/Offset (ErrorPos.tla, T14 model-checked); recorded (text, offset, printed line/column) trace-validated by TLC",
                  "Every rejection over multi-line corpora (LF/CR/CRLF injected at blank-space positions): offset within the text and printed line/column equal to Position(text, offset).", "4 (C19)"),
})

NOT_YET = {}


def main() -> None:
    props = [json.loads(l) for l in open(os.path.join(VERIF, "properties.jsonl"))]
    checks = []
    na = []
    for p in props:
        pid = p["id"]
        if pid in CLAIMED:
            c = CLAIMED[pid]
            checks.append({
                "property_id": pid,
                "quick_cmd": f"./check {pid} --tier quick",
                "thorough_cmd": f"./check {pid} --tier thorough",
                "evidence_file": f"/verif/evidence/{pid}.json",
                "replay_cmd_template": f"./check {pid} --replay {{path}}",
                "engine": "tlc",
                "level_claimed": {"category": "model_checking", "text": c["text"], "design_ref": c["design_ref"]},
                "level_note": c["note"],
                "technique": c["technique"],
            })
        else:
            na.append({"property_id": pid, "reason": NOT_YET.get(pid, "check not built yet (work in progress; the specification modules exist, the binding harness for this property is pending)")})
    manifest = {
        "version": 1,
        "setup_cmd": "./check setup",
        "hooks": {
            "guard": "JSONPATH_RFC9535_VERIF",
            "enable": "no hooks are needed: every observable is reached through the public API and the patchable `random` name; the guard name is reserved",
            "baseline_off_cmd": "cd /repo && /venv/bin/python -m pytest -ra -q -p no:cacheprovider --timeout=900 --continue-on-collection-errors",
            "source_commits": [],
            "add_only": True,
        },
        "engines": [
            {"name": "tlc", "path": "/usr/local/bin/tlc", "serves_properties": sorted(CLAIMED),
             "kind_free_text": "TLC 1.8 explicit-state model checker on /verif/spec/*.tla (MC: internal theorems; GEN: exported states replayed into the code; TRACE: ndjson records of real executions validated step by step)"},
        ],
        "checks": checks,
        "notes": "One TLA+ specification (/verif/spec) used in three TLC modes: MC, GEN (spec->code), TRACE (code->spec). See DESIGN.md.",
        "not_applicable": na,
    }
    with open(os.path.join(VERIF, "MANIFEST.json"), "w") as fh:
        json.dump(manifest, fh, indent=1)
        fh.write("\n")


if __name__ == "__main__":
    main()
