"""Regenerates /verif/MANIFEST.json from the table below (run: python3 -m harness.manifest_gen)."""
import json
import os

VERIF = os.path.dirname(os.path.dirname(os.path.abspath(__file__)))

CLAIMED = {
    "C07": dict(
        technique="TLA+ PlusCal transcription of the RFC slice procedure model-checked by TLC (termination, closed form, clamping lemma); every Done state replayed into find(); text-level records trace-validated by TLC",
        text="TLC exhaustively explores the RFC's normalise/bounds/loop procedure (Slice.tla) for len 0..6(9) x all (start,end,step) in {omitted} u -8..8(-11..11) u {+-(2^53-1) via the clamping lemma}; each terminal state is replayed into the implementation (spec->code) and index/slice records of the implementation (selector lists, blank space, nested/descendant positions, objects, scalars, 2^53-1 literals) are validated against Eval.tla by TLC (code->spec). Exhaustive within the stated grid; beyond it only the clamping lemma's argument.",
        note="Trusted: TLC/SANY, the transcription of RFC 9535 2.3.3/2.3.4.2.2, the Python<->spec codecs; 32-bit TLC integers (2^30-1 stands for 2^53-1 by lemma T4c).",
        design_ref="4 (C07), 3.6",
    ),
}

NOT_YET = {}


def main() -> None:
    props = [json.loads(l) for l in open(os.path.join(VERIF, "properties.jsonl"))]
    checks = []
    na = []
    for p in props:
        pid = p["id"]
        if pid in CLAIMED:
            c = CLAIMED[pid]
            checks.append({
                "property_id": pid,
                "quick_cmd": f"./check {pid} --tier quick",
                "thorough_cmd": f"./check {pid} --tier thorough",
                "evidence_file": f"/verif/evidence/{pid}.json",
                "replay_cmd_template": f"./check {pid} --replay {{path}}",
                "engine": "tlc",
                "level_claimed": {"category": "model_checking", "text": c["text"], "design_ref": c["design_ref"]},
                "level_note": c["note"],
                "technique": c["technique"],
            })
        else:
            na.append({"property_id": pid, "reason": NOT_YET.get(pid, "check not built yet (work in progress; the specification modules exist, the binding harness for this property is pending)")})
    manifest = {
        "version": 1,
        "setup_cmd": "./check setup",
        "hooks": {
            "guard": "JSONPATH_RFC9535_VERIF",
            "enable": "no hooks are needed: every observable is reached through the public API and the patchable `random` name; the guard name is reserved",
            "baseline_off_cmd": "cd /repo && /venv/bin/python -m pytest -ra -q -p no:cacheprovider --timeout=900 --continue-on-collection-errors",
            "source_commits": [],
            "add_only": True,
        },
        "engines": [
            {"name": "tlc", "path": "/usr/local/bin/tlc", "serves_properties": sorted(CLAIMED),
             "kind_free_text": "TLC 1.8 explicit-state model checker on /verif/spec/*.tla (MC: internal theorems; GEN: exported states replayed into the code; TRACE: ndjson records of real executions validated step by step)"},
        ],
        "checks": checks,
        "notes": "One TLA+ specification (/verif/spec) used in three TLC modes: MC, GEN (spec->code), TRACE (code->spec). See DESIGN.md.",
        "not_applicable": na,
    }
    with open(os.path.join(VERIF, "MANIFEST.json"), "w") as fh:
        json.dump(manifest, fh, indent=1)
        fh.write("\n")


if __name__ == "__main__":
    main()
