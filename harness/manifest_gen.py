"""Regenerates /verif/MANIFEST.json from the table below (run: python3 -m harness.manifest_gen)."""
import json
import os

VERIF = os.path.dirname(os.path.dirname(os.path.abspath(__file__)))

CLAIMED = {
    "C07": dict(
        technique="TLA+ PlusCal transcription of the RFC slice procedure model-checked by TLC (termination, closed form, clamping lemma) and, for unbounded integers, an inductive invariant of the same procedure discharged by Apalache (SliceInd.tla) together with the unbounded clamping lemma (ClampInd.tla); every Done state replayed into find(); text-level records trace-validated by TLC",
        text="TLC exhaustively explores the RFC's normalise/bounds/loop procedure (Slice.tla) for len 0..6(9) x all (start,end,step) in {omitted} u -8..8(-11..11) u {+-(2^53-1) via the clamping lemma}; each terminal state is replayed into the implementation (spec->code) and index/slice records of the implementation (selector lists, blank space, nested/descendant positions, objects, scalars, 2^53-1 literals) are validated against Eval.tla by TLC (code->spec). Exhaustive within the stated grid; beyond it the spec-level statements are unbounded (Apalache: SliceInd inductive invariant, ClampInd clamping lemma over arbitrary integers) while the implementation is sampled.",
        note="Trusted: TLC/SANY, the transcription of RFC 9535 2.3.3/2.3.4.2.2, the Python<->spec codecs; 32-bit TLC integers (2^30-1 stands for 2^53-1 by lemma T4c).",
        design_ref="4 (C07), 3.6",
    ),
}

_TRACE_NOTE = ("Trusted: TLC/SANY, the transcription of RFC 9535 (and RFC 9485) in /verif/spec, anchored by the RFC example "
               "tables (./check selftest); the Python<->spec codecs and the input generators (which only propose inputs: the "
               "expected outcome is always computed by TLC). Coverage is small-scope enumeration plus seeded sampling, not proof.")


def _trace(technique, text, ref):
    return dict(technique=technique, text=text, note=_TRACE_NOTE, design_ref=ref)


CLAIMED.update({
    "C01": _trace("TLA+ semantics of segments/selectors (Eval.tla) evaluated by TLC on recorded find() calls (trace validation)",
                  "Every recorded find() of a filter-free query is re-computed by TLC from the query TEXT (Syntax.tla parser) and the document (Eval.tla) and must be equal node by node (location, order, duplicates), value-at-location and normalized path included. Inputs: all trees of height<=2/width<=2 x a fixed battery, plus seeded random queries/documents (nasty names, all spellings), plus a wrong-kind battery (index / slice selectors on objects whose names read like indices, digit names on arrays, every selector on strings).", "4 (C01)"),
    "C02": _trace("TLA+ filter semantics (Eval!Test) evaluated by TLC on recorded find() calls (trace validation)",
                  "Filter queries built from ~64 atoms (existence tests on '@'/'$' queries, comparisons, calls, nested filters to depth 3) under ! && || and parentheses, on arrays/objects with 21 child kinds (0,false,'',null,[],{},...) and on scalars, plus seeded random filter queries; every result validated by TLC.", "4 (C02)"),
    "C03": _trace("TLA+ recursive-descent transcription of the RFC 9535 ABNF + typing (Syntax/Typing.tla); compile() outcomes trace-validated by TLC",
                  "TLC parses every candidate text itself and decides Valid; a valid text that compile() rejects is a violation. Candidates: seeds, repository test queries, seeded generator output with every optional lexical form (blank space at every S, both quotes, every escape form, shorthand/bracket, number spellings, non-BMP names); every sentence of the ABNF derivation machine (Deriv.tla, T3); the valid ones among all unit texts enumerated by MC_Parser.tla, where TLC also checks T15 (the implementation-shaped lexer/stream/parser model accepts them and builds the query RFC 9535 assigns). Every code point from U+0080 stands as the first and as a later character of a member-name shorthand (six query shapes), range-compressed and judged by TLC with a quantifier (Trace!VShRange).", "4 (C03)"),
    "C04": _trace("TLA+ parser (Syntax.tla) as the membership oracle; compile() outcomes on enumerated short strings, lexeme sequences and single-edit neighbours trace-validated by TLC",
                  "All strings '$'+w over a 27-symbol alphabet (|w|<=3 quick / 4 thorough), seeded lexeme sequences, single-edit neighbours of valid queries, every text prefix u1..un suffix over six families of token-like units enumerated by TLC (MC_Parser.tla, n<=3 quick / 5 thorough; T15 checked on the way); a text outside the grammar that compile() accepts is a violation.", "4 (C04)"),
    "C05": _trace("TLA+ well-typedness and integer-range judgement (Typing.tla); compile() on fresh environments with probe functions of every signature, trace-validated by TLC",
                  "All 39 signatures over {V,L,N}^n->type (n<=2) x argument shapes x syntactic positions, unknown names, wrong arity, integers at lo-1..hi+1 for five configured ranges, registries installed by mutation and by assignment, the built-in functions over all unit texts of the 'calls' family of MC_Parser.tla; compile() must agree with Typing.tla and no function body may run during compile().", "4 (C05)"),
    "C06": _trace("TLA+ comparison table (JsonVal!Cmp) model-checked for its algebraic shape (T5) and used by TLC to validate recorded comparisons",
                  "Ordered pairs over 50 comparands of every kind (incl. bool-vs-number leaves at depth, permuted members, non-BMP strings, nothing) x 6 operators x every producer of each side, and all comparands as siblings under one container with the child itself as a comparand; T5 (equivalence, strict order, derived operators) checked exhaustively on the spec's universe. A literal against the document number a JSON decoder makes of the SAME text (20 spellings x 2 signs x 6 operators, Trace!VSameText): pinned also beyond 15 digits, where the value model abstains.", "4 (C06)"),
    "C10": _trace("TLA+ function-call semantics (Eval!ArgFor/Builtin); probe functions log received arguments; records trace-validated by TLC",
                  "Built-ins over 20 child kinds; probes of all 39 signatures log what they receive per declared parameter type; TLC compares logged argument lists (as sets) with Eval!ArgFor and the selection with the declared result type's use.", "4 (C10)"),
    "C11": _trace("TLA+ I-Regexp grammar and set-of-end-positions matcher (IRegexp.tla), T13 model-checked; match()/search() records trace-validated by TLC",
                  "Patterns from the RFC 9485 constructs (classes with dialect-special characters, category escapes on the model alphabet, quantifier forms), invalid patterns, non-string arguments x subjects over the special alphabet; both functions, pattern as literal and as query.", "4 (C11)"),
    "C12": _trace("TLA+ parser + normal form (Canon.tla); str() round-trip records trace-validated by TLC",
                  "For each compiled query: str() text must be Valid, have the same normal form as the original (or select the same nodes on a witness pool), be a fixpoint of str(compile(.)), with canonical string literals, and the compiled serialisation must behave like the compiled original on the witness documents.", "4 (C12)"),
    "C13": _trace("outcome-class validation of compile()/find() records by TLC (totality clause), inputs from the syntax corpora plus long/deep inputs",
                  "Valid, almost valid and garbage texts incl. random Unicode and 1,024-character / nesting-32 inputs; every query that compiles (ill-typed ones that should not have included) evaluated on every JSON kind; outcome must be return or a JSONPathError, error string producible, within a wall-clock guard. Long inputs (malformed literals after long runs among them) are compiled in a child process that can be killed; user functions with every arity; integer ranges of +-2^70; literals with huge exponents; strings with unpaired surrogates from a JSON decoder.", "4 (C13)"),
    "C19": _trace("TLA+ Position/Offset (ErrorPos.tla, T14 model-checked); recorded (text, offset, printed line/column) trace-validated by TLC",
                  "Every rejection over multi-line corpora (LF/CR/CRLF injected at blank-space positions): offset within the text and printed line/column equal to Position(text, offset).", "4 (C19)"),
})

CLAIMED.update({
    "C08": _trace("TLA+ normalized-path grammar (NormPath.tla) and Locate; re-query records and range-compressed per-code-point records trace-validated by TLC",
                  "Nodes from seeded queries on documents with nasty member names: location walked from the root (same object), path() = NormalizedPath(location), path re-queried to exactly that node, values()/paths()/items() agree; every code point U+0000..U+10FFFF as a member name (sampled in quick, all in thorough), grouped into uniform ranges that TLC checks with a quantifier over the range. Systematic floors: every nasty name once; normalised / clamped indices and slices on every small length; compiled descendant queries with a past; every code point alone, embedded, last and first in a name; nodes 1,200 / 3,000 levels down asked first.", "4 (C08)"),
    "C09": _trace("TLA+ string-literal decoder as a character-stepping state machine (StringLit.tla) model-checked against the functional decoder (T7a-c); every machine state replayed into compile(); per-code-point ranges and surrogate boundary literals trace-validated by TLC",
                  "TLC explores the decoder machine over a 29-symbol alphabet (length 3/4), a 13-symbol escape alphabet (length 4/6) and by simulation over the hex/surrogate alphabet (length 13); each state (body, expected decoded string or reject) is replayed: accept/reject and the decoded name, observed through name selection and string comparison. Every code point raw / \\uXXXX lower / upper / surrogate pair in both quote styles, range-compressed.", "4 (C09)"),
    "C14": dict(technique="TLA+ state machine of the public API (System.tla): TLC enumerates all histories to a depth (abstract state + last operation) and random walks; each history replayed step by step on the real objects",
                text="Every history of {compile, apply, find via environment / module, register a function, create an environment subclass} over 3 environments x 6 queries x 3 documents up to 3 (quick) / 4 (thorough) operations, plus random walks of 25 operations, carries the expected response of each operation computed by Eval.tla; the real objects are stepped along each: response, deep snapshots of all documents and every environment's registry compared after every operation. History independence is also recorded directly: the same (query, document) on a fresh environment and inside long histories on long-lived ones (declared don't-care patterns included) and a stream of short-lived documents through one compiled query, validated by TLC (all outcomes coincide, and equal Eval!Find where the value is pinned).",
                note=_TRACE_NOTE + " Hidden state is only detectable if it changes a response, a document or a registry within the explored histories.", design_ref="3.8, 4 (C14)"),
    "C15": _trace("entry-point agreement records (7-14 public call paths per query/document) trace-validated by TLC against Eval!Find",
                  "For valid queries every path must realise Eval!Find's (items, tail): find = apply = list(finditer), find_one = first-or-None; for invalid queries every path raises the same JSONPathError class; recursion-limit environments included, also reconfigured after a query was compiled.", "4 (C15)"),
    "C16": dict(technique="TLA+ state machine of k live iterators (Iters.tla): TLC enumerates every interleaving of next()/abandon (schedule kept in the state); each complete schedule replayed into real iterators; threaded runs - under CPython's own scheduling and under a line-granularity pre-emptive scheduler (harness/sched.py) - trace-validated by TLC",
                text="All interleavings over configurations with 2-3 live iterators (same compiled query, same environment, different environments; filters, nested filters, descendant segments) are replayed item by item; IterIndependence is also a TLC invariant. Threaded runs (2/4/8 threads, switch interval 1e-6, hand-over of one iterator between two threads) are validated as per-iterator sequences, so any merge order is accepted. Under the line-granularity scheduler every single pre-emption point of 16 scenarios (a shared compiled query on documents of different lengths / roots, a shared environment compiling two texts) is taken once, plus seeded schedules with two and three pre-emptions; each thread's result is judged by TLC.",
                note=_TRACE_NOTE + " Pre-emptive schedules are enumerated for one pre-emption per run (at line granularity) and sampled beyond.", design_ref="4 (C16)"),
    "C17": dict(technique="TLA+ definition of the permitted orderings (DescentDefs!AllowedResults) and of the randomised visitor as a state machine (Descent.tla, T8a-c model-checked); the implementation's own random-choice tree explored exhaustively by an enumerating chooser and its result sets trace-validated by TLC for validity and exhaustiveness",
                text="For each (query, document) the set of distinct results over ALL outcomes of the implementation's shuffles/samples is compared by TLC with AllowedResults: subset (only permitted orderings) and, when the choice tree was explored completely, equality (every permitted ordering is produced). Documents include the witness shapes (root with three container children) that size-bounded enumeration does not reach; the model's own visitor is checked against LinExts on the same shapes (T8b on all branches, T8c set equality). Wide documents (a queue of 40 and more) are judged through the container-only formulation AllowedResultsC (theorem T8e: the same set), with the first merge explored exhaustively.",
                note=_TRACE_NOTE + " The chooser rebinds the name `random` in segments/selectors; any other source of randomness is reported as a machinery failure.", design_ref="3.7, 4 (C17)"),
    "C18": dict(technique="TLA+ traversal machines over graph-shaped data (Descent.tla): outcome, progress, bound and termination model-checked on all 2-node graphs incl. every cycle; T8d_Linear (on cyclic graphs the error comes after O(limit) machine steps in both modes; the randomised machine has the depth probe of the code as its first phase); every terminal state materialised as real cyclic objects and run in both modes (all random outcomes); cyclic graphs under realistic limits with the executed lines of the traversal counted against the model's step bound; chains around the limit trace-validated",
                text="T8d_Outcome (raised iff the unfolding's container nesting exceeds the limit, identically in both modes), T8d_Progress/T8d_Bounded (bounded time) and T8d_Terminates (liveness under fairness) are checked by TLC; each (graph, limit, mode) is then run for real with three queries, the nondeterministic mode under every outcome of the random choices; the limit is also changed on the environment after a query was compiled, the module-level functions and a plain environment are run on data nested 99..3000 deep and on cyclic data; chains of depth limit-1/limit/limit+1 for limits up to 120 and limits beyond the interpreter's recursion limit are validated by TLC against JsonVal!Nesting.",
                note=_TRACE_NOTE + " Bounded time/memory of the Python code is observed (step bound from the model, wall-clock guard), not proved.", design_ref="3.7, 4 (C18)"),
    "C20": dict(technique="TLA+ phase machine of the CLI (Cli.tla, T12 model-checked over all 960 configurations); every terminal state run for real (in-process main() and subprocess)",
                text="All 6 query classes x 5 document classes x inline/file query x file/stdin document x stdout/file output x --pretty x --debug: exit status, output (must decode to exactly find(q, doc).values()), stderr shape (empty / one line / traceback iff --debug), no partial result. Query files spanning several lines, inline queries with blank space around them, invalid queries that quote line breaks or contain % / {}, empty containers and scalars as documents, every (valid query, ascii document) pair; the module-level default environment is compared before and after the runs.",
                note=_TRACE_NOTE + " Operating-system I/O faults and argparse's own errors are out of scope.", design_ref="3.9, 4 (C20)"),
})

NOT_YET = {}


def main() -> None:
    props = [json.loads(l) for l in open(os.path.join(VERIF, "properties.jsonl"))]
    checks = []
    na = []
    for p in props:
        pid = p["id"]
        if pid in CLAIMED:
            c = CLAIMED[pid]
            checks.append({
                "property_id": pid,
                "quick_cmd": f"./check {pid} --tier quick",
                "thorough_cmd": f"./check {pid} --tier thorough",
                "evidence_file": f"/verif/evidence/{pid}.json",
                "replay_cmd_template": f"./check {pid} --replay {{path}}",
                "engine": "tlc",
                "level_claimed": {"category": "model_checking", "text": c["text"], "design_ref": c["design_ref"]},
                "level_note": c["note"],
                "technique": c["technique"],
            })
        else:
            na.append({"property_id": pid, "reason": NOT_YET.get(pid, "check not built yet (work in progress; the specification modules exist, the binding harness for this property is pending)")})
    manifest = {
        "version": 1,
        "setup_cmd": "./check setup",
        "hooks": {
            "guard": "JSONPATH_RFC9535_VERIF",
            "enable": "no build step: the hook in jsonpath_rfc9535/lex.py is active only when the environment variable JSONPATH_RFC9535_VERIF=1 is set at import time AND a harness has installed lex._verif_sink; only ./check EXTRA (the lexer trace validation, coverage beyond the listed properties) uses it - no check of a listed property reads hook output, so removing the hook cannot silence one",
            "baseline_off_cmd": "cd /repo && /venv/bin/python -m pytest -ra -q -p no:cacheprovider --timeout=900 --continue-on-collection-errors",
            "source_commits": ["2be371d"],
            "add_only": True,
        },
        "engines": [
            {"name": "tlc", "path": "/usr/local/bin/tlc", "serves_properties": sorted(CLAIMED),
             "kind_free_text": "TLC 1.8 explicit-state model checker on /verif/spec/*.tla (MC: internal theorems; GEN: exported states replayed into the code; TRACE: ndjson records of real executions validated step by step)"},
            {"name": "apalache", "path": "/usr/local/bin/apalache-mc", "serves_properties": ["C07"],
             "kind_free_text": "Apalache 0.58 symbolic model checker: discharges the inductive invariant of the RFC slice procedure (spec/SliceInd.tla) and the clamping lemma T4c (spec/ClampInd.tla) for unbounded integers; TLC checks the same procedure on small constants and exports its states"},
        ],
        "checks": checks,
        "notes": "One TLA+ specification (/verif/spec) used in three TLC modes: MC, GEN (spec->code), TRACE (code->spec). See DESIGN.md. `./check EXTRA` (not a listed property) holds coverage beyond the list: TokenStream.tla replayed into tokens.TokenStream, the repository's own test suite trace-validated at the API boundary, and Lexer.tla bound to Lexer.run step by step through the env-guarded hook. `./check selftest` holds the RFC anchors, the corrupted-trace self-test and (thorough) the 356 seeded changes (each must be caught) and the 36 behaviour-preserving changes (each must stay quiet). Also beyond the list, in ./check EXTRA: Parser.tla / Evaluator.tla / Unparse.tla (the implementation-shaped parser and evaluator, refinement theorems T15 / T16 / T2) bound to the code by exported unit texts and pcompile records. Apalache discharges the unbounded slice invariant (SliceInd.tla) and the unbounded clamping lemma (ClampInd.tla) inside C07.",
        "not_applicable": na,
    }
    with open(os.path.join(VERIF, "MANIFEST.json"), "w") as fh:
        json.dump(manifest, fh, indent=1)
        fh.write("\n")


if __name__ == "__main__":
    main()
