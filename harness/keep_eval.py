"""Evaluate behaviour-preserving changes delivered by sub-agents: none of the checks may raise an alarm.

usage: /venv/bin/python -m harness.keep_eval F3 [A B C]
"""
from __future__ import annotations

import json
import os
import re
import shutil
import subprocess
import sys
import tempfile

VERIF = os.path.dirname(os.path.dirname(os.path.abspath(__file__)))
REPO = "/repo"
OUT = os.environ.get("KEEP_OUT", "/tmp/wt-out4")
AREAS = {
    "F1": ["C03", "C04", "C09", "C13", "C19", "C12"],
    "F2": ["C03", "C04", "C05", "C09", "C12", "C13", "C19", "C15"],
    "F3": ["C02", "C06", "C10", "C11", "C13", "C14", "C16"],
    "F4": ["C01", "C07", "C08", "C14", "C16", "C17", "C18", "C15"],
    "F5": ["C17", "C18", "C13", "C02", "C08"],
    "F6": ["C14", "C15", "C16", "C05", "C03", "C10"],
    "F7": ["C10", "C11", "C13", "C16"],
    "F8": ["C20", "C12", "C08"],
    # second converse campaign (round G): the areas this session's machinery touches
    "G1": ["C03", "C04", "C05", "C06", "C12", "C13", "C19"],
    "G2": ["C17", "C18", "C13", "C01", "C08", "C14", "C16"],
    "G3": ["C01", "C07", "C08", "C16", "C02", "C17"],
    "G4": ["C20", "C14"],
    "G5": ["C08", "C12", "C20", "C19", "C13"],
    "G6": ["C05", "C10", "C11", "C13", "C16", "C03", "C14"],
}


def sh(cmd, **kw):
    return subprocess.run(cmd, capture_output=True, text=True, **kw)


def main():
    area = sys.argv[1]
    letters = [a for a in sys.argv[2:] if a in ("A", "B", "C")] or ["A", "B", "C"]
    for letter in letters:
        patch = os.path.join(OUT, area, f"patch_{letter}.diff")
        if not os.path.exists(patch):
            print(f"{area}-{letter}: no patch")
            continue
        wt = tempfile.mkdtemp(prefix=f"keep-{area}{letter}-")
        ev = tempfile.mkdtemp(prefix=f"keep-ev-{area}{letter}-")
        res = {"id": f"{area}-{letter}", "checks": {}}
        todo = list(dict.fromkeys(AREAS[area] + (os.environ.get("KEEP_ALSO", "").split(",") if os.environ.get("KEEP_ALSO") else [])))
        try:
            sh(["git", "-C", REPO, "worktree", "add", "-q", "--detach", wt, "HEAD"], check=True)
            ap = sh(["git", "-C", wt, "apply", patch])
            if ap.returncode != 0:
                print(f"{area}-{letter}: patch does not apply: {ap.stderr[:200]}")
                continue
            t = sh(["/venv/bin/python", "-m", "pytest", "-q", "-p", "no:cacheprovider", "--timeout=900", "--continue-on-collection-errors"], cwd=wt)
            res["tests"] = (t.stdout.strip().splitlines() or ["?"])[-1]
            for p in todo:
                env = dict(os.environ, VERIF_REPO=wt, VERIF_EVIDENCE_DIR=ev)
                c = sh([os.path.join(VERIF, "check"), p, "--tier", "quick"], cwd=VERIF, env=env)
                sigs = re.findall(r"signature: (\{.*\})", c.stdout)
                res["checks"][p] = {"rc": c.returncode, "signatures": sigs[:5], "tail": (c.stdout + c.stderr)[-600:] if c.returncode != 0 else ""}
                # keep the replay files of alarms for inspection
                if c.returncode == 1:
                    dst = os.path.join(OUT, area, f"alarm_{letter}_{p}")
                    shutil.rmtree(dst, ignore_errors=True)
                    if os.path.isdir(os.path.join(ev, "replays")):
                        shutil.copytree(os.path.join(ev, "replays"), dst)
        finally:
            sh(["git", "-C", REPO, "worktree", "remove", "--force", wt])
            shutil.rmtree(wt, ignore_errors=True)
            shutil.rmtree(ev, ignore_errors=True)
        with open(os.path.join(OUT, area, f"keep_eval_{letter}.json"), "w") as fh:
            json.dump(res, fh, indent=1)
        alarms = {p: v["rc"] for p, v in res["checks"].items() if v["rc"] != 0}
        print(f"{area}-{letter}: tests={res.get('tests')} alarms={alarms or 'none'}")
        for p, v in res["checks"].items():
            for s in v["signatures"][:3]:
                print("    ", p, s[:220])
            if v["rc"] == 2:
                print("    ", p, "MACHINERY", v["tail"][-300:])


if __name__ == "__main__":
    main()
