"""Seeded generators of JSON documents, query texts (with spelling variation),
single-edit neighbours and short strings.  Generators only propose inputs: the
expected outcome always comes from the TLA+ specification."""
from __future__ import annotations

import itertools
import random
from typing import Any, Dict, Iterator, List, Optional, Sequence, Tuple

# ---------------------------------------------------------------------------
# documents
# ---------------------------------------------------------------------------
PLAIN_NAMES = ["a", "b", "c", "d"]
NASTY_NAMES = ["", "0", "1", "-1", "a b", "'", '"', "\\", "a'b", "/", "\n", "\t", "\u0001", "\u001f",
               "\u007f", "é", "￿", "😀", "$", "@", "*", "a.b", "[0]", "true", "null", "_x", "A", "ab", "😀x", "a😀b", "😀😀", "😀\n", "\u0080", "\u009f", "a\x7fb",
               # names whose CONTENT looks like quoting or escaping: backslash next to either quote, text that reads like an escape
               '\\"', '"\\', "\\'", "'\\", 'a\\"b', "\\\\", '\\"\\', "'\"", "\"'", "\\n", "\\u0041", "\\/", "\"\"", "''", "\\\"'",
               # plain names whose LAST or FIRST character alone needs an escape (anchored fast paths)
               "a\n", "total\n", "x y\r", "\nab", "ab'", "ab\\", "a\u0000", "\tb",
               # a backslash in the NAME followed by a letter that starts an escape in a literal: the escaped backslash of the normalized
               # path must not be read together with what follows it (C:\users, \n as two characters, \u without hex digits, ...)
               "C:\\users\\ada", "\\u", "\\ux", "a\\u12", "\\b\\f\\n\\r\\t", "\\\\u0041", "\\'", "\\usepackage"]
# documents that are STRINGS whose content happens to be JSON text: they are strings, never decoded
JSON_TEXT_STRINGS = ["1", "true", "null", "[1, 2]", '{"a": 1}', '"q"', "[1,", " 1", "1.5", "[]", "{}", "[[1]]", '{"a": {"a": [0]}}']
SCALARS: List[Any] = [0, 1, -1, 2, 10, 1.5, -0.0, 1.0, 0.1, "", "a", "b", "ab", "0", "é", "😀", True, False, None,
                      9007199254740993, -(10**30)]


def rand_scalar(rng: random.Random) -> Any:
    return rng.choice(SCALARS)


def rand_doc(rng: random.Random, depth: int = 3, width: int = 3, names: Sequence[str] = PLAIN_NAMES,
             p_container: float = 0.6) -> Any:
    if depth <= 0 or rng.random() > p_container:
        return rand_scalar(rng)
    n = rng.randint(0, width)
    if rng.random() < 0.5:
        return [rand_doc(rng, depth - 1, width, names, p_container) for _ in range(n)]
    keys = rng.sample(list(names), min(n, len(names)))
    return {k: rand_doc(rng, depth - 1, width, names, p_container) for k in keys}


def all_docs(h: int, w: int, scalars: Sequence[Any], names: Sequence[str]) -> List[Any]:
    """Every value of height <= h and width <= w (objects: every ordered choice of distinct names)."""
    level: List[Any] = list(scalars)
    for _ in range(h):
        nxt: List[Any] = list(scalars)
        for n in range(0, w + 1):
            for xs in itertools.product(level, repeat=n):
                nxt.append(list(xs))
            for ns in itertools.permutations(names, n):
                for xs in itertools.product(level, repeat=n):
                    nxt.append(dict(zip(ns, xs)))
        level = nxt
    return level


def names_in(doc: Any, acc: Optional[set] = None) -> set:
    acc = set() if acc is None else acc
    if isinstance(doc, dict):
        for k, v in doc.items():
            acc.add(k)
            names_in(v, acc)
    elif isinstance(doc, list):
        for v in doc:
            names_in(v, acc)
    return acc


# ---------------------------------------------------------------------------
# spelling
# ---------------------------------------------------------------------------
BLANKS = ["", "", "", " ", "  ", "\n", "\t", "\r", " \n"]


class Speller:
    """Lexical choices.  level 0: canonical-ish, no optional forms; 1: mild; 2: wild."""

    def __init__(self, rng: random.Random, level: int = 1):
        self.rng = rng
        self.level = level

    def S(self) -> str:
        if self.level == 0:
            return ""
        if self.level == 1:
            return self.rng.choice(["", "", "", " "])
        return self.rng.choice(BLANKS)

    def escape_char(self, ch: str, quote: str) -> str:
        r = self.rng
        cp = ord(ch)
        forced = None
        if ch == quote:
            forced = ["\\" + quote]
        elif ch == "\\":
            forced = ["\\\\"]
        elif cp < 0x20:
            short = {8: "\\b", 9: "\\t", 10: "\\n", 12: "\\f", 13: "\\r"}
            forced = [f"\\u{cp:04x}", f"\\u{cp:04X}"] + ([short[cp]] if cp in short else [])
        if forced is not None:
            alts = list(forced)
            if ch in (quote, "\\"):
                alts += [f"\\u{cp:04x}"] if self.level >= 2 else []
            return r.choice(alts)
        if self.level == 0 or r.random() < (0.8 if self.level == 1 else 0.5):
            return ch
        alts = []
        if cp <= 0xFFFF:
            alts += [f"\\u{cp:04x}", f"\\u{cp:04X}"]
        else:
            v = cp - 0x10000
            hi, lo = 0xD800 + (v >> 10), 0xDC00 + (v & 0x3FF)
            alts += [f"\\u{hi:04x}\\u{lo:04X}", f"\\u{hi:04X}\\u{lo:04x}"]
        if ch == "/":
            alts.append("\\/")
        return r.choice(alts)

    def string(self, s: str) -> str:
        q = "'" if (self.level == 0 or self.rng.random() < 0.5) else '"'
        return q + "".join(self.escape_char(c, q) for c in s) + q

    def number(self, x) -> str:
        r = self.rng
        if isinstance(x, int):
            forms = [str(x)]
            if self.level >= 1:
                forms += [f"{x}.0", f"{x}e0", f"{x}E+0", f"{x}.0e-0"]
                if x % 10 == 0 and x != 0:
                    forms += [f"{x // 10}e1", f"{x // 10}E+1", f"{x // 10}.0e1"]
                if x == 0:
                    forms += ["-0", "-0.0", "0e5", "0E-5", "0.0e+1"]
                forms += [f"{x}0e-1", f"{x}00.0E-2"] if x != 0 else []
            return r.choice(forms)
        s = repr(x)
        forms = [s]
        if self.level >= 1 and "e" not in s and "." in s:
            ip, fp = s.split(".")
            forms += [f"{s}0", f"{s}e0", f"{ip}{fp}e-{len(fp)}", f"{ip}{fp}.0E-{len(fp)}"]
        return r.choice(forms)


def is_shorthand(name: str) -> bool:
    if not name:
        return False

    def first(c):
        cp = ord(c)
        return c.isascii() and (c.isalpha() or c == "_") or (0x80 <= cp <= 0xD7FF) or (0xE000 <= cp <= 0x10FFFF)

    return first(name[0]) and all(first(c) or (c.isascii() and c.isdigit()) for c in name[1:])


# ---------------------------------------------------------------------------
# query generation (text)
# ---------------------------------------------------------------------------
class QueryGen:
    def __init__(self, rng: random.Random, names: Sequence[str], level: int = 1, max_index: int = 3,
                 functions: Optional[List[Tuple[str, List[str], str]]] = None):
        self.rng = rng
        self.names = list(names) or ["a"]
        self.sp = Speller(rng, level)
        self.max_index = max_index
        # (name, params, ret)
        self.functions = functions if functions is not None else [
            ("length", ["V"], "V"), ("count", ["N"], "V"), ("value", ["N"], "V"),
            ("match", ["V", "V"], "L"), ("search", ["V", "V"], "L")]

    # -- selectors ---------------------------------------------------------
    def int_(self) -> int:
        r = self.rng
        return r.choice([0, 1, -1, 2, -2, self.max_index, -self.max_index, r.randint(-6, 6)])

    def name(self) -> str:
        return self.rng.choice(self.names)

    def slice_(self) -> str:
        r, S = self.rng, self.sp.S
        s = "" if r.random() < 0.4 else str(self.int_())
        e = "" if r.random() < 0.4 else str(self.int_())
        t = S() + ":" + S() + e
        if s:
            t = s + S() + t
        else:
            t = t.lstrip() if False else t
        if r.random() < 0.6:
            st = "" if r.random() < 0.3 else str(r.choice([1, 2, -1, -2, 3, 0, -3]))
            t += (S() if e else "") + ":" + (S() + st if st else "")
        return t

    def selector(self, depth: int, allow_filter: bool) -> str:
        r = self.rng
        k = r.random()
        if k < 0.30:
            return self.sp.string(self.name())
        if k < 0.50:
            return str(self.int_())
        if k < 0.65:
            return self.slice_()
        if k < 0.80 or not allow_filter or depth <= 0:
            return "*"
        return "?" + self.sp.S() + self.logical(depth - 1, top=True)

    def segment(self, depth: int, allow_filter: bool, singular: bool = False) -> str:
        r, S = self.rng, self.sp.S
        if singular:
            if r.random() < 0.5:
                nm = self.name()
                if is_shorthand(nm) and r.random() < 0.6:
                    return "." + nm
                return "[" + self.sp.string(nm) + "]"
            return "[" + str(self.int_()) + "]"
        desc = r.random() < 0.2
        k = r.random()
        if k < 0.3:
            nm = self.name()
            if is_shorthand(nm):
                return (".." if desc else ".") + nm
        if k < 0.4:
            return (".." if desc else ".") + "*"
        n = 1 if r.random() < 0.7 else r.randint(2, 3)
        sels = [self.selector(depth, allow_filter) for _ in range(n)]
        body = S() + (S() + "," + S()).join(sels) + S()
        return (".." if desc else "") + "[" + body + "]"

    def segments(self, depth: int, allow_filter: bool, n: Optional[int] = None, singular: bool = False) -> str:
        n = self.rng.randint(0, 3) if n is None else n
        out = ""
        for _ in range(n):
            out += self.sp.S() + self.segment(depth, allow_filter, singular)
        return out

    def query(self, depth: int = 2, allow_filter: bool = True, n: Optional[int] = None) -> str:
        n = self.rng.randint(1, 4) if n is None else n
        return "$" + self.segments(depth, allow_filter, n)

    # -- filter expressions ------------------------------------------------
    def literal(self) -> str:
        r = self.rng
        v = r.choice(SCALARS + [2, 3, "k", "x"])
        if v is None:
            return "null"
        if v is True:
            return "true"
        if v is False:
            return "false"
        if isinstance(v, str):
            return self.sp.string(v)
        if isinstance(v, float) and v == 0.0:
            return r.choice(["0", "-0", "0.0", "-0.0"])
        return self.sp.number(v)

    def sub_query(self, depth: int, singular: bool) -> str:
        r = self.rng
        head = "@" if r.random() < 0.7 else "$"
        n = r.choice([0, 1, 1, 1, 2]) if singular else r.choice([0, 1, 1, 2, 2])
        return head + self.segments(depth, depth > 0, n, singular)

    def call(self, depth: int, want: str) -> Optional[str]:
        """A call whose declared result type is in `want` (string of type letters)."""
        r, S = self.rng, self.sp.S
        cands = [f for f in self.functions if f[2] in want]
        if not cands:
            return None
        name, params, _ret = r.choice(cands)
        args = [self.argument(depth, p) for p in params]
        return name + "(" + S() + (S() + "," + S()).join(args) + S() + ")"

    def argument(self, depth: int, p: str) -> str:
        r = self.rng
        if p == "V":
            k = r.random()
            if k < 0.4:
                return self.literal()
            if k < 0.85 or depth <= 0:
                return self.sub_query(depth - 1, True)
            return self.call(depth - 1, "V") or self.literal()
        if p == "N":
            if r.random() < 0.85 or depth <= 0:
                return self.sub_query(depth - 1, r.random() < 0.3)
            return self.call(depth - 1, "N") or self.sub_query(depth - 1, False)
        # LogicalType
        k = r.random()
        if k < 0.5 or depth <= 0:
            return self.logical(max(depth - 1, 0), top=True)
        if k < 0.8:
            return self.sub_query(depth - 1, False)
        return self.call(depth - 1, "LN") or self.sub_query(depth - 1, False)

    def comparable(self, depth: int) -> str:
        r = self.rng
        k = r.random()
        if k < 0.45:
            return self.literal()
        if k < 0.85 or depth <= 0:
            return self.sub_query(0, True)
        return self.call(depth - 1, "V") or self.literal()

    def basic(self, depth: int) -> str:
        r, S = self.rng, self.sp.S
        k = r.random()
        if k < 0.40:
            op = r.choice(["==", "!=", "<", "<=", ">", ">="])
            return self.comparable(depth) + S() + op + S() + self.comparable(depth)
        if k < 0.65:
            neg = "!" + S() if r.random() < 0.3 else ""
            return neg + self.sub_query(depth - 1, r.random() < 0.5)
        if k < 0.78:
            c = self.call(depth, "LN")
            if c:
                return ("!" + S() if r.random() < 0.3 else "") + c
        if depth > 0:
            neg = "!" + S() if r.random() < 0.4 else ""
            return neg + "(" + S() + self.logical(depth - 1, top=True) + S() + ")"
        return self.sub_query(0, True)

    def logical(self, depth: int, top: bool = False) -> str:
        r, S = self.rng, self.sp.S
        n = r.choice([1, 1, 1, 2, 2, 3])
        parts = [self.basic(depth) for _ in range(n)]
        out = parts[0]
        for p in parts[1:]:
            out += S() + r.choice(["&&", "||"]) + S() + p
        return out

    def filter_query(self, depth: int = 2, prefix: Optional[str] = None) -> str:
        pre = "$" + self.segments(0, False, self.rng.choice([0, 0, 1])) if prefix is None else prefix
        return pre + "[" + self.sp.S() + "?" + self.sp.S() + self.logical(depth, top=True) + self.sp.S() + "]"


# ---------------------------------------------------------------------------
# mutation: single-edit neighbours
# ---------------------------------------------------------------------------
SIGMA = list("$@.[](),:?*!=<>&|'\"\\/-+_019eEabflnrstuAFDC ") + ["\n", "\t", "\r", "\u0001", "\u007f", "é", "퟿",
                                                               "", "😀", "x", "8", "#", "%", "{", "}", ";", "~", "^", "`", "\x0c", "\x0b", "\xa0", "\u2003", "\x1f", "\x85", "\u2028", "\ufeff", "\x00"]


def neighbours(text: str, rng: random.Random, k: int) -> List[str]:
    out = []
    n = len(text)
    for _ in range(k):
        kind = rng.randint(0, 3)
        if kind == 0 and n > 0:
            i = rng.randrange(n)
            out.append(text[:i] + text[i + 1:])
        elif kind == 1:
            i = rng.randint(0, n)
            out.append(text[:i] + rng.choice(SIGMA) + text[i:])
        elif kind == 2 and n > 0:
            i = rng.randrange(n)
            out.append(text[:i] + rng.choice(SIGMA) + text[i + 1:])
        elif n > 1:
            i = rng.randrange(n - 1)
            out.append(text[:i] + text[i + 1] + text[i] + text[i + 2:])
    return out


def all_neighbours(text: str, alphabet: Sequence[str]) -> Iterator[str]:
    n = len(text)
    for i in range(n):
        yield text[:i] + text[i + 1:]
    for i in range(n + 1):
        for c in alphabet:
            yield text[:i] + c + text[i:]
    for i in range(n):
        for c in alphabet:
            if c != text[i]:
                yield text[:i] + c + text[i + 1:]
    for i in range(n - 1):
        if text[i] != text[i + 1]:
            yield text[:i] + text[i + 1] + text[i] + text[i + 2:]


def short_strings(alphabet: Sequence[str], n: int, prefix: str = "$") -> Iterator[str]:
    for k in range(0, n + 1):
        for tup in itertools.product(alphabet, repeat=k):
            yield prefix + "".join(tup)
