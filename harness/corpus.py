"""Query corpora shared by the syntax-side checks (C03, C04, C05, C12, C13, C19)."""
from __future__ import annotations

import random
from typing import List

from . import gen

SEEDS = [
    "$", "$.a", "$['a']", '$["a"]', "$[0]", "$[-1]", "$[1:2]", "$[::2]", "$[1:5:2]", "$[:]", "$[::-1]", "$.*", "$[*]", "$..a", "$..*",
    "$..[0]", "$.a.b[0]", "$[0,1]", "$['a','b']", "$[0, 'a', *, 1:2]", "$.a[?@.b]", "$[?@.a == 1]", "$[?@.a != 'x']", "$[?@ < 1.5e1]",
    "$[?@.a >= -0]", "$[?!@.a]", "$[?@.a && @.b]", "$[?@.a || @.b && @.c]", "$[?(@.a || @.b) && @.c]", "$[?!(@.a == 1)]",
    "$[?count(@.*) == 1]", "$[?length(@.a) > 2]", "$[?match(@.a, 'x.*')]", "$[?search(@, \"a\")]", "$[?value(@..a) == null]",
    "$[?@[?@.a]]", "$[?$.a == @.b]", "$[?@['a'] == true]", "$[?@[0] == false]", "$[?1 == 1]", "$[?'a' == \"a\"]", "$ .a", "$\n[0]",
    "$[ 0 , 1 ]", "$[? @.a == 1 ]", "$[?@.a==1e2]", "$[?@.a==1.5E-2]", "$['\\n\\t\\\\\\'']", "$['\\u0041\\ud83d\\ude00']", "$.é.😀",
    "$[?length(@)==count(@.*)]", "$[?match(@.a, $.p) || !search(@.b, 'c')]", "$..[?@.a]", "$[?@.a == 1, ?@.b]", "$[?@..a]", "$[?@.*]",
]


def repo_test_queries() -> List[str]:
    """Query strings of the repository's own tests (read as data; nothing is executed)."""
    import importlib  # noqa: PLC0415
    import sys  # noqa: PLC0415

    from . import core  # noqa: PLC0415

    out: List[str] = []
    if core.REPO not in sys.path:
        sys.path.insert(0, core.REPO)
    for mod in ("test_ietf_examples", "test_goessner", "test_parse", "test_lex", "test_ietf_well_typedness", "test_errors",
                "test_nondeterminism", "test_normalized_path"):
        try:
            m = importlib.import_module(f"tests.{mod}")
        except Exception:  # noqa: BLE001, S112
            continue
        for c in getattr(m, "TEST_CASES", []):
            q = getattr(c, "query", None)
            if isinstance(q, str):
                out.append(q)
    return out


def valid_candidates(rng: random.Random, n: int) -> List[str]:
    """Queries that are meant to be valid (the specification decides)."""
    out: List[str] = []
    for k in range(n):
        names = gen.NASTY_NAMES if k % 4 == 0 else gen.PLAIN_NAMES
        qg = gen.QueryGen(rng, list(names), level=rng.choice([0, 1, 2, 2]))
        if k % 2:
            out.append(qg.query(depth=rng.choice([0, 1, 2]), allow_filter=True))
        else:
            q = qg.filter_query(depth=rng.choice([1, 2, 3]))
            if rng.random() < 0.4:
                q += qg.segments(1, True, rng.choice([1, 2]))
            out.append(q)
    return out


LITERAL_BODIES = ["", "a", "\\b\\f\\n\\r\\t\\/\\\\", "\\'", '\\"', "\\a", "\\x41", "\\0", "\\u", "\\u0", "\\u00", "\\u004", "\\u004g", "\\U0041",
                  "\\u 041", "\\", "\\\\\\", "a\\", "\t", "\n", "\x00", "\x1f", "\x7f", "'", '"', "a'b", 'a"b', "é😀", "\\u00e9\\ud83d\\uDE00",
                  "\\ud83d", "\\uD83D", "\\uDBFF", "\\ude00", "\\ud83d\\ud83d\\ude00", "x\\u0000y", "\\u0000", "\\u001F", "\\ud83d\\", "\\ud83d\\u",
                  "\\ud83d\\ude0", "\\ud83d\\ude00", "\\ud83dx", "\\uD800\\uDC00", "\\uDBFF\\uDFFF", "\\uD83D\\uDE00\\uD83D\\uDE00", "\\u+041", "\\u0_41",
                  "\\u0x41", "\\u００４１", "\\u041 ", "a\\ud83d", "\\udc00\\ud800", "\\ud800\\ud800", "\\e", "\\N", "\\ "]



# many raw quotes of the other kind before a malformed escape (offsets computed on a rewritten copy drift)
LITERAL_BODIES += ['"' * 5 + "\\u", '"' * 6 + "\\u12", '"' * 7 + "\\ud800", '"' * 8 + "\\x", "'" * 5 + "\\u", "'" * 6 + "\\ud800\\u12",
                   '"' * 10 + "\\udc00", 'a"b"c"d"e"f"' + "\\q", "'" * 8 + "\\ud83d\\ud83d"]


# raw quotes of the other kind or escaped own quotes, then a \\u escape or pair ending near the end of the literal
LITERAL_BODIES += ['"' + "\\u0041", '""' + "\\u0041", "a" + '"' + "\\ud83d\\ude00", '"""' + "\\u004", "\\'" + "\\u0041", "\\'" + "\\u041",
                   "\\'" * 6 + "\\ud83d", "\\'\\'" + "\\ud83d\\ude00", '\\"' + "\\u0041", '\\"' * 3 + "\\u00e9x", "'" + "\\u0041", "''" + "\\uD83D\\uDE00"]


def literal_queries():
    """Queries exercising string literals at the very end of the text and in every position."""
    out = []
    for body in LITERAL_BODIES:
        for q in "'\"":
            if q in body.replace("\\" + q, "") and len(body) > 4:
                continue          # raw quotes of the OTHER kind only
            lit = q + body + q
            out += [f"$[{lit}]", f"$[?@ == {lit}]", f"$[?@.a == {lit} && @.b]", f"$[{lit}, 0]", f"$[?match(@, {lit})]", f"$[{lit}", f"$[?@ == {lit}"]
    return out


def skeletons(rng, per_slot: int = 1):
    """Typed skeletons of filter expressions: every operand category (literal, singular /
    non-singular query, ValueType / LogicalType call - plain, parenthesised, negated, doubly
    so) in every syntactic slot (test, either comparand, under '!', in parentheses, operand of
    && / ||, function argument, comparison chains).  Most of them are NOT valid; the
    specification decides which.  Near-misses that need several coordinated edits of a valid
    query are reached here systematically."""
    base = {
        "LIT": ["1", "'a'", "true", "null", "-0", "1.5e1", '"b"', "false"],
        "SQ": ["@.a", "$.b[0]", "@", "$", "@['a'][1]"],
        "NQ": ["@.*", "@..a", "@[0,1]", "$[1:]", "@[?@.a]"],
        "CV": ["length(@.a)", "count(@.*)", "value(@.*)"],
        "CL": ["match(@.a, 'b')", "search(@, 'b')"],
    }
    forms = []
    for cat, exs in base.items():
        for wrap in ("{x}", "({x})", "!{x}", "(({x}))", "!({x})", "( {x} )", "!(!{x})", "(!{x})"):
            forms.append((cat, wrap, exs))

    def pick():
        cat, wrap, exs = rng.choice(forms)
        return wrap.format(x=rng.choice(exs))

    def all_forms():
        for cat, wrap, exs in forms:
            for ex in (exs if per_slot > 1 else [rng.choice(exs)]):
                yield wrap.format(x=ex)

    one = ["{X}", "!{X}", "({X})", "!({X})", "{X} == 1", "1 == {X}", "{X} < 'a'", "{X} != {X}", "{X} && @.b", "@.b || {X}",
           "count({X}) == 1", "length({X}) == 1", "value({X}) == 1", "match({X}, 'a')", "match(@.a, {X})", "{X} == 1 == 1",
           "@.b && {X} == 1", "!{X} == 1", "{X}, 0", "0, ?{X}", "@[?{X}]", "$[?{X}] == 1", "({X}) && ({X})", "{X} == {X} || {X}"]
    out = []
    for t in one:
        for x in all_forms():
            out.append("$[?" + t.replace("{X}", x) + "]")
    two = ["{X} == {Y}", "{X} && {Y}", "{X} || {Y} && {X}", "({X} == {Y})", "!({X} == {Y})", "({X}) == {Y}", "{X} == ({Y})",
           "match({X}, {Y})", "{X} <= {Y} || {Y}", "({X} || {Y}) == 1"]
    for t in two:
        for _ in range(120):
            out.append("$[?" + t.replace("{X}", pick()).replace("{Y}", pick()) + "]")
    return list(dict.fromkeys(out))


def logical_param_skeletons(rng):
    """Texts around a user-registered function bl: LogicalType -> LogicalType (no built-in has a LogicalType
    parameter): every operand shape as its argument, alone, compared, parenthesised, negated."""
    sk = skeletons(rng)
    inner = [t[3:-1] for t in rng.sample(sk, 500)]
    out = []
    for x in inner:
        out.append(f"$[?bl({x})]")
        if rng.random() < 0.3:
            out.append(f"$[?bl({x}) && @.a]")
            out.append(f"$[?count(@[?bl({x})]) > 0]")
            out.append(f"$[?!bl({x})]")
    return list(dict.fromkeys(out))


# built-in functions with every operand shape as argument, in every position (well-typed or not: a text that should
# not compile but does is still evaluated by C13)
TYPED_SHAPES = ["1", "'s'", "null", "@.a", "$.x[0]", "@", "@.*", "@..a", "@[0,1]", "$[*]", "@[0:1]", "@[1:2]", "$[0:1:1]", "@[-1:]", "length(@)", "count(@.*)", "value(@.*)",
                "match(@.a, 'b')", "search(@, 'a')", "@.a == 1", "1 == 1", "@.a && @.b", "!@.a", "(@.a)", "(@.a == 1)", "@[?@.a]"]
TYPED_POSITIONS = ["$[?{c}]", "$[?{c} == 1]", "$[?1 != {c}]", "$[?length({c}) == 1]", "$[?count({c}) == 1]", "$[?value({c}) == 1]",
                   "$[?match({c}, 'a')]", "$[?search('a', {c})]", "$[?!{c}]", "$[?{c} && @.a]", "$[?({c})]", "$[?@[?{c}]]",
                   "$[?{c} == {c}]", "$[?@.a || ({c} && @.b)]"]


def typed_builtin_texts():
    out = []
    for fn in ("length", "count", "value", "match", "search"):
        for sh in TYPED_SHAPES:
            args = sh if fn in ("length", "count", "value") else f"{sh}, 'a'"
            for pos in TYPED_POSITIONS:
                out.append(pos.format(c=f"{fn}({args})"))
            if fn in ("match", "search"):
                out.append(f"$[?{fn}('a', {sh})]")
        # wrong arity, with plain and parenthesised surplus / missing arguments
        base = "@.a" if fn in ("length", "count", "value") else "@.a, 'a'"
        for extra in ("(@.b)", "@.b", "1", "(@.b == 1)", "(@.b), (@.c)", "@.b, (@.c)", "(1)", "!@.b"):
            out += [f"$[?{fn}({base}, {extra}) == 1]", f"$[?{fn}({base}, {extra})]", f"$[?{fn}({extra}, {base}) > 1]"]
        out += [f"$[?{fn}()]", f"$[?{fn}() == 1]", f"$[?{fn}((@.a))]", f"$[?{fn}((@.a)) == 1]", f"$[?{fn}((@.a), 'a')]", f"$[?{fn}('a', (@.a))]",
                f"$[?{fn}(((@.a)))]", f"$[?{fn}(@.a,) == 1]", f"$[?{fn}(,@.a)]"]
    return list(dict.fromkeys(out))


# number spellings where the grammar wants an int (index, slice bounds), in every position
SEEDS_INVALID_INTS = ["$[1e2]", "$[1E2]", "$[1e+2]", "$[-1e1]", "$[0:1e1]", "$[::2e0]", "$..[1e1]", "$[?@.c[1e0] == 2]", "$[1.0]", "$[1.5:2]", "$[0,1e0]",
                      "$[1e-1]", "$[:1.0]", "$[?@[1e1:] ]", "$[+1]", "$[0x1]", "$[1_0]", "$[\u0661]", "$[１]", "$[1:２]"]


# selector lists that continue after a nested filter, inside function arguments and nested brackets
SEEDS += ["$[?count(@[?@.x, 0]) > 1]", "$[?count(@[?@.x, ?@ == 2]) == 2]", "$[?count(@[?@.a, *]) > 0]", "$[?value(@[?@.a, 1:2]) == 1]",
          "$[?count(@[?@, 'a', 0, ::2]) >= 1 && @[?@, 0]]", "$[?match(@.s, 'a') || count(@[?@.b, 0]) == 1]", "$[?@[?@.a, 0], 0]",
          "$[?count(@[0, ?@.x]) > 1]", "$[?length(@[?count(@[?@, 0]) > 0, 0]) > 0 || @]" if False else "$[?count(@[?count(@[?@, 0]) > 0, 0]) > 0]"]
