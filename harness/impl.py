"""Drivers that execute the real implementation and project what it did into
trace records (the observation side of the conformance binding)."""
from __future__ import annotations

from typing import Any, Dict, List, Optional

from . import core


def _err(rec: Dict[str, Any], err: BaseException, jp_base) -> None:
    rec["out"] = "raise"
    rec["jp"] = isinstance(err, jp_base)
    rec["cls"] = type(err).__name__
    try:
        rec["msg"] = _stem(str(err.args[0]) if err.args else "")
    except Exception:  # noqa: BLE001
        rec["msg"] = ""
    try:
        str(err)
        repr(err)
        rec["strok"] = True
    except Exception:  # noqa: BLE001
        rec["strok"] = False


class _Timeout(BaseException):     # not an Exception: neither the code under test nor a harness `except Exception` may swallow the guard
    pass


def with_timeout(seconds: float, fn, *args, **kw):
    """Run fn under a wall-clock guard (SIGALRM); returns (timed_out, result)."""
    import signal  # noqa: PLC0415

    def handler(signum, frame):  # noqa: ARG001
        raise _Timeout()

    old = signal.signal(signal.SIGALRM, handler)
    signal.setitimer(signal.ITIMER_REAL, seconds)
    try:
        return False, fn(*args, **kw)
    except _Timeout:
        return True, None
    finally:
        signal.setitimer(signal.ITIMER_REAL, 0)
        signal.signal(signal.SIGALRM, old)


_GUARD_HITS = [0]


def _guarded(fn, *args, **kw):
    """Call fn under a 30 s wall-clock guard when possible (main thread only); a call that does not come back is
    reported as a TimeoutError, which no JSONPathError is."""
    import threading  # noqa: PLC0415

    if threading.current_thread() is not threading.main_thread():
        return fn(*args, **kw)
    # after five calls that did not come back the guard shortens: a check on a tree that loops stays bounded
    timed_out, res = with_timeout(30.0 if _GUARD_HITS[0] < 5 else 2.0, fn, *args, **kw)
    if timed_out:
        _GUARD_HITS[0] += 1
        raise TimeoutError("the call did not return within the time limit")
    return res


def _stem(msg: str) -> str:
    """Message with the variable parts (quoted text, numbers) removed."""
    import re  # noqa: PLC0415

    msg = re.sub(r"'[^']*'|\"[^\"]*\"", "'_'", msg)
    msg = re.sub(r"\d+", "N", msg)
    return msg[:80]


def walk(root, location):
    """Follow a location from the root; returns (found, object)."""
    cur = root
    for key in location:
        if isinstance(key, bool):
            return False, None
        if isinstance(key, int) and isinstance(cur, list):
            if not (0 <= key < len(cur)):
                return False, None
            cur = cur[key]
        elif isinstance(key, str) and isinstance(cur, dict):
            if key not in cur:
                return False, None
            cur = cur[key]
        else:
            return False, None
    return True, cur


def same_object(a, b) -> bool:
    """Containers must be the very same object; immutable scalars are compared
    by JSON kind and value (identity of an immutable scalar is unobservable)."""
    if isinstance(a, (list, dict)) or isinstance(b, (list, dict)):
        return a is b
    return type(a) is type(b) and (a == b or (a != a and b != b))


_CALLS = [0]
_COMPILED: Dict[Any, Any] = {}
_KEEP: List[Any] = []      # keeps environments alive so that id(env) stays unique


_SIBLINGS: Dict[Any, Any] = {}


def _sibling_first(jp, env, q: str) -> None:
    """Another environment INSTANCE of the same class, configured differently on the instance (other mode, other
    limits, other integer range, another registry), sees the text first.  Environments are independent: nothing
    it did (compiling, failing, evaluating) may change what the environment under observation does."""
    target = env if env is not None else getattr(jp, "DEFAULT_ENV", None)
    if target is None:
        return
    cls = type(target)
    sib = _SIBLINGS.get(cls)
    if sib is None:
        try:
            sib = cls()
            sib.nondeterministic = not getattr(target, "nondeterministic", False)
            sib.max_recursion_depth = 2
            sib.min_int_index, sib.max_int_index = -4, 4
            sib.function_extensions.pop("search", None)
            sib.function_extensions["zzsib"] = sib.function_extensions.get("count")
        except Exception:  # noqa: BLE001
            sib = False
        _SIBLINGS[cls] = sib
    if sib is False:
        return
    try:
        c = sib.compile(q)
        c.find_one([{"a": [1, {"a": 2}], "b": "ab"}, 1])
    except Exception:  # noqa: BLE001, S110
        pass
    # (through the environment's own entry points too: what they keep between calls belongs to that instance)
    for call in (sib.find, sib.find_one, lambda q_, d_: list(sib.finditer(q_, d_))):
        try:
            call(q, [{"a": [1, {"a": 2}], "b": "ab"}, 1])
        except Exception:  # noqa: BLE001, S110
            pass
    # ... and an environment built on the documented extension point `parser_class`, with a parser subclass that is MORE PERMISSIVE
    # than the stock one (surrogate escapes are ordinary code points, any index is in range): what it accepted is its own business
    perm = _SIBLINGS.get("permissive")
    if perm is None:
        try:
            from jsonpath_rfc9535.parse import Parser  # noqa: PLC0415

            class PermissiveParser(Parser):
                def _is_high_surrogate(self, codepoint):  # noqa: ARG002
                    return False

                def _is_low_surrogate(self, codepoint):  # noqa: ARG002
                    return False

            class PermissiveEnv(jp.JSONPathEnvironment):
                parser_class = PermissiveParser
                max_int_index = 2 ** 80
                min_int_index = -(2 ** 80)

            perm = PermissiveEnv()
        except Exception:  # noqa: BLE001
            perm = False
        _SIBLINGS["permissive"] = perm
    if perm is not False and not isinstance(target, type(perm)):
        try:
            perm.compile(q).find_one([{"a": [1, {"a": 2}], "b": "ab"}, 1])
        except Exception:  # noqa: BLE001, S110
            pass


def rec_compile(jp, q: str, env=None, extra: Optional[Dict[str, Any]] = None) -> Dict[str, Any]:
    rec: Dict[str, Any] = {"op": "compile", "q": core.enc_text(q)}
    if extra:
        rec.update(extra)
    if len(q) < 300:
        _sibling_first(jp, env, q)
    try:
        _guarded((env or jp).compile, q)
        rec["out"] = "ok"
        rec["jp"] = True
        rec["cls"] = ""
    except RecursionError as err:  # noqa: PERF203
        _err(rec, err, jp.JSONPathError)
    except Exception as err:  # noqa: BLE001
        _err(rec, err, jp.JSONPathError)
    return rec


def rec_find(jp, q: str, doc, env=None, extra: Optional[Dict[str, Any]] = None,
             paths: bool = False, edoc=None) -> Dict[str, Any]:
    rec: Dict[str, Any] = {"op": "find", "q": core.enc_text(q),
                           "doc": edoc if edoc is not None else core.enc_value(doc)}
    if extra:
        rec.update(extra)
    # a query is compiled once per (environment, text) and re-applied to every later document:
    # state leaking from one application into the next shows up as a wrong result
    key = (id(env) if env is not None else 0, q)
    compiled = _COMPILED.get(key)
    if compiled is None:
        if len(q) < 300:
            _sibling_first(jp, env, q)
        try:
            compiled = _guarded((env or jp).compile, q)
        except Exception as err:  # noqa: BLE001
            _err(rec, err, jp.JSONPathError)
            rec["stage"] = "compile"
            rec["locs"] = []
            return rec
        if len(_COMPILED) > 50000:
            _COMPILED.clear()
        _COMPILED[key] = compiled
        _KEEP.append(env)
    rec["stage"] = "find"
    deterministic = not getattr(getattr(compiled, "env", None), "nondeterministic", False)
    _CALLS[0] += 1
    if _CALLS[0] % 3 == 0:
        # an earlier evaluation of this compiled query that was NOT run to its end (abandoned after the
        # first item, or find_one) must leave nothing behind for the evaluation recorded below
        try:
            if _CALLS[0] % 2:
                compiled.find_one(doc)
            else:
                it = iter(compiled.finditer(doc))
                next(it, None)
                del it
        except Exception:  # noqa: BLE001, S110
            pass
    try:
        nodes = _guarded(compiled.find, doc)
        rec["out"] = "ok"
        rec["jp"] = True
        rec["cls"] = ""
        rec["locs"] = [core.enc_loc(n.location) for n in nodes]
        vok = True
        for n in nodes:
            found, obj = walk(doc, n.location)
            if not found or not same_object(obj, n.value):
                vok = False
        rec["vok"] = vok
        if deterministic:
            # the other entry points of the same compiled query agree with find()
            try:
                one = compiled.find_one(doc)
                rec["one_ok"] = (one is None and not nodes) or (
                    one is not None and bool(nodes) and one.location == nodes[0].location and same_object(one.value, nodes[0].value))
            except Exception:  # noqa: BLE001
                rec["one_ok"] = False
            try:
                rec["iter_ok"] = [(n.location) for n in compiled.finditer(doc)] == [n.location for n in nodes]
            except Exception:  # noqa: BLE001
                rec["iter_ok"] = False
        if paths:
            rec["paths"] = [core.enc_text(n.path()) for n in nodes]
    except Exception as err:  # noqa: BLE001
        _err(rec, err, jp.JSONPathError)
        rec["locs"] = []
    return rec


import re as _re

_POS = _re.compile(r", line (\d+), column (\d+)$")


def rec_errpos(jp, q: str, env=None):
    """For a rejected query: the offset the error identifies and the printed line/column.
    Returns None if the query compiles."""
    try:
        (env or jp).compile(q)
        return None
    except jp.JSONPathError as err:
        rec: Dict[str, Any] = {"op": "errpos", "q": core.enc_text(q), "cls": type(err).__name__}
        tok = getattr(err, "token", None)
        rec["index"] = tok.index if tok is not None and isinstance(getattr(tok, "index", None), int) else -1
        try:
            msg = str(err)
        except Exception:  # noqa: BLE001
            msg = ""
        m = _POS.search(msg)
        rec["line"], rec["col"] = (int(m.group(1)), int(m.group(2))) if m else (-1, -1)
        return rec
    except Exception:  # noqa: BLE001
        return None


def rec_str(jp, q: str, docs_enc, env=None, extra=None, docs=None):
    """str() round trip of a compiled query.  Returns None if q does not compile."""
    e = env or jp
    try:
        c = e.compile(q)
    except Exception:  # noqa: BLE001
        return None
    rec: Dict[str, Any] = {"op": "str", "q": core.enc_text(q), "docs": docs_enc}
    if extra:
        rec.update(extra)
    try:
        s = str(c)
    except Exception as err:  # noqa: BLE001
        s = f"<str raised {type(err).__name__}>"
    rec["s"] = core.enc_text(s)
    try:
        c2 = e.compile(s)
        rec["recompiles"] = True
        rec["s2"] = core.enc_text(str(c2))
    except Exception:  # noqa: BLE001
        rec["recompiles"] = False
        rec["s2"] = []
        return rec
    # "the same query": the compiled original and the compiled serialisation behave alike on the witness documents
    if docs is not None and not getattr(e if env else getattr(jp, "DEFAULT_ENV", None), "nondeterministic", False):
        def res(cq, d):
            try:
                return ("ok", [tuple(n.location) for n in cq.find(d)])
            except Exception as err:  # noqa: BLE001
                return ("raise", type(err).__name__)

        rec["same"] = all(res(c, d) == res(c2, d) for d in docs)
    return rec


def rec_total(jp, q: str, doc, env=None, paths: bool = False):
    """Outcome class only, for C13: compile then evaluate, under a time limit."""
    rec: Dict[str, Any] = {"op": "total", "q": core.enc_text(q)}

    def go():
        c = (env or jp).compile(q)
        for node in c.finditer(doc):
            if paths:
                node.path()
        str(c)

    try:
        timed_out, _ = with_timeout(20.0, go)
        rec["timeout"] = timed_out
        rec["out"] = "ok"
        rec["jp"] = True
        rec["cls"] = ""
    except Exception as err:  # noqa: BLE001
        rec["timeout"] = False
        _err(rec, err, jp.JSONPathError)
    return rec


# --------------------------------------------------------------------------
# compile() in a child process that can be KILLED (a regular expression that
# backtracks exponentially never returns to the interpreter: no signal handler
# runs, no in-process guard fires)
# --------------------------------------------------------------------------
_CHILD = r'''
import json, sys
sys.dont_write_bytecode = True
sys.path.insert(0, sys.argv[1])
sys.path.insert(0, sys.argv[2])
from harness import core, impl
jp = core.import_repo()
for line in open(sys.argv[3]):
    q = "".join(chr(c) for c in json.loads(line))
    rec = {"op": "compile", "q": [ord(c) for c in q]}
    try:
        c = jp.compile(q)
        rec.update(out="ok", jp=True, cls="")
        try:
            str(c)
        except Exception as err:
            rec.update(out="raise", jp=False, cls="str(query) raised " + type(err).__name__, msg="", strok=True)
    except BaseException as err:
        impl._err(rec, err, jp.JSONPathError)
    sys.stdout.write(json.dumps(rec) + "\n")
    sys.stdout.flush()
'''


def isolated_compile_records(texts, per_text: float = 10.0, max_timeouts: int = 4):
    """compile() (and str() of the result) for every text, in a child process that is killed when one call does not come back
    within per_text seconds.  Returns (records, timeouts); after max_timeouts the remaining texts are not run."""
    import json  # noqa: PLC0415
    import os  # noqa: PLC0415
    import select  # noqa: PLC0415
    import subprocess  # noqa: PLC0415
    import sys  # noqa: PLC0415
    import time  # noqa: PLC0415

    verif = os.path.dirname(os.path.dirname(os.path.abspath(__file__)))
    recs: List[Dict[str, Any]] = []
    timeouts = 0
    todo = list(texts)
    env = dict(os.environ, PYTHONDONTWRITEBYTECODE="1", VERIF_REPO=core.REPO)
    while todo and timeouts < max_timeouts:
        inp = os.path.join(core.scratch(), f"isolated-{os.getpid()}-{len(todo)}.ndjson")
        with open(inp, "w") as fh:
            fh.write("".join(json.dumps([ord(c) for c in q]) + "\n" for q in todo))
        p = subprocess.Popen([sys.executable, "-c", _CHILD, core.REPO, verif, inp], stdin=subprocess.DEVNULL, stdout=subprocess.PIPE,
                             stderr=subprocess.DEVNULL, env=env, cwd=verif)
        buf = b""
        done = 0
        deadline = time.time() + per_text + 5.0          # the first answer includes the child's start-up
        killed = False
        while done < len(todo):
            nl = buf.find(b"\n")
            if nl >= 0:
                recs.append(json.loads(buf[:nl]))
                buf = buf[nl + 1:]
                done += 1
                deadline = time.time() + per_text
                continue
            left = deadline - time.time()
            ready = select.select([p.stdout], [], [], max(left, 0))[0] if left > 0 else []
            if not ready:
                p.kill()
                killed = True
                break
            chunk = os.read(p.stdout.fileno(), 1 << 16)
            if not chunk:
                break
            buf += chunk
        p.wait()
        if done < len(todo):
            q = todo[done]
            if killed:
                timeouts += 1
                recs.append({"op": "compile", "q": core.enc_text(q), "out": "raise", "jp": True, "cls": "timeout", "timeout": True})
            else:
                recs.append({"op": "compile", "q": core.enc_text(q), "out": "raise", "jp": False, "cls": "the interpreter died", "msg": "", "strok": True})
            done += 1
        todo = todo[done:]
    return recs, timeouts
