"""Drivers that execute the real implementation and project what it did into
trace records (the observation side of the conformance binding)."""
from __future__ import annotations

from typing import Any, Dict, List, Optional

from . import core


def _err(rec: Dict[str, Any], err: BaseException, jp_base) -> None:
    rec["out"] = "raise"
    rec["jp"] = isinstance(err, jp_base)
    rec["cls"] = type(err).__name__


def walk(root, location):
    """Follow a location from the root; returns (found, object)."""
    cur = root
    for key in location:
        if isinstance(key, bool):
            return False, None
        if isinstance(key, int) and isinstance(cur, list):
            if not (0 <= key < len(cur)):
                return False, None
            cur = cur[key]
        elif isinstance(key, str) and isinstance(cur, dict):
            if key not in cur:
                return False, None
            cur = cur[key]
        else:
            return False, None
    return True, cur


def same_object(a, b) -> bool:
    """Containers must be the very same object; immutable scalars are compared
    by JSON kind and value (identity of an immutable scalar is unobservable)."""
    if isinstance(a, (list, dict)) or isinstance(b, (list, dict)):
        return a is b
    return type(a) is type(b) and (a == b or (a != a and b != b))


def rec_compile(jp, q: str, env=None, extra: Optional[Dict[str, Any]] = None) -> Dict[str, Any]:
    rec: Dict[str, Any] = {"op": "compile", "q": core.enc_text(q)}
    if extra:
        rec.update(extra)
    try:
        (env or jp).compile(q)
        rec["out"] = "ok"
        rec["jp"] = True
        rec["cls"] = ""
    except RecursionError as err:  # noqa: PERF203
        _err(rec, err, jp.JSONPathError)
    except Exception as err:  # noqa: BLE001
        _err(rec, err, jp.JSONPathError)
    return rec


def rec_find(jp, q: str, doc, env=None, extra: Optional[Dict[str, Any]] = None,
             paths: bool = False, edoc=None) -> Dict[str, Any]:
    rec: Dict[str, Any] = {"op": "find", "q": core.enc_text(q),
                           "doc": edoc if edoc is not None else core.enc_value(doc)}
    if extra:
        rec.update(extra)
    try:
        compiled = (env or jp).compile(q)
    except Exception as err:  # noqa: BLE001
        _err(rec, err, jp.JSONPathError)
        rec["stage"] = "compile"
        rec["locs"] = []
        return rec
    rec["stage"] = "find"
    try:
        nodes = compiled.find(doc)
        rec["out"] = "ok"
        rec["jp"] = True
        rec["cls"] = ""
        rec["locs"] = [core.enc_loc(n.location) for n in nodes]
        vok = True
        for n in nodes:
            found, obj = walk(doc, n.location)
            if not found or not same_object(obj, n.value):
                vok = False
        rec["vok"] = vok
        if paths:
            rec["paths"] = [core.enc_text(n.path()) for n in nodes]
    except Exception as err:  # noqa: BLE001
        _err(rec, err, jp.JSONPathError)
        rec["locs"] = []
    return rec
