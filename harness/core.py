"""Shared machinery: paths, codecs between Python values and the spec's value
model, the TLC runner, batch trace validation, evidence and known findings."""
from __future__ import annotations

import hashlib
import json
import os
import re
import shutil
import subprocess
import sys
import tempfile
import time
from concurrent.futures import ThreadPoolExecutor
from decimal import Decimal
from typing import Any, Dict, Iterable, List, Optional, Sequence, Tuple

VERIF = os.path.dirname(os.path.dirname(os.path.abspath(__file__)))
SPEC = os.path.join(VERIF, "spec")
REPO = os.environ.get("VERIF_REPO", "/repo")
EVIDENCE = os.environ.get("VERIF_EVIDENCE_DIR") or os.path.join(VERIF, "evidence")
REPLAYS = os.path.join(EVIDENCE, "replays")
TLA_JAR = "/opt/veriftools/tla/tla2tools.jar"
TLA_CP = TLA_JAR + ":/opt/veriftools/tla/CommunityModules-deps.jar"
NCPU = min(16, os.cpu_count() or 4)


class MachineryError(Exception):
    """Something in the verification machinery failed (exit 2, never a verdict)."""


# --------------------------------------------------------------------------
# importing the implementation from the working tree
# --------------------------------------------------------------------------
def import_repo():
    os.environ.setdefault("PYTHONDONTWRITEBYTECODE", "1")
    sys.dont_write_bytecode = True
    if REPO not in sys.path:
        sys.path.insert(0, REPO)
    import jsonpath_rfc9535  # noqa: PLC0415

    path = os.path.dirname(os.path.abspath(jsonpath_rfc9535.__file__))
    if not path.startswith(os.path.abspath(REPO)):
        raise MachineryError(f"imported jsonpath_rfc9535 from {path}, not {REPO}")
    return jsonpath_rfc9535


# --------------------------------------------------------------------------
# codecs
# --------------------------------------------------------------------------
def enc_text(s: str) -> List[int]:
    return [ord(c) for c in s]


def dec_text(cps: Sequence[int]) -> str:
    return "".join(chr(c) for c in cps)


UNREPRESENTABLE = [0]


class Unrepresentable(Exception):
    """A Python value outside the spec's value model (big / inexact numbers...)."""

    def __init__(self, *args):
        super().__init__(*args)
        UNREPRESENTABLE[0] += 1       # reported in the evidence: inputs dropped for this reason must stay a small minority


def enc_num(x) -> Dict[str, Any]:
    """Python number -> the spec's decimal [neg, ds, e].  Integers of any size are exact.  A float is in
    the model iff its shortest repr has at most 15 significant digits and its magnitude is below 10^15
    (there decimal order and binary64 order coincide and integral values are exact)."""
    if isinstance(x, bool):
        raise Unrepresentable("bool is not a number")
    if isinstance(x, int):
        neg = x < 0
        txt = str(abs(x))
        sig = txt.rstrip("0")
        if sig == "":
            return {"k": "num", "neg": False, "ds": [], "e": 0}
        return {"k": "num", "neg": neg, "ds": [int(c) for c in sig], "e": len(txt) - len(sig)}
    if isinstance(x, float):
        if x != x or x in (float("inf"), float("-inf")):
            raise Unrepresentable("non-finite float")
        d = Decimal(repr(x))
    else:
        raise Unrepresentable(type(x).__name__)
    sign, digits, exp = d.as_tuple()
    ds = list(digits)
    e = int(exp)
    while ds and ds[0] == 0:
        ds.pop(0)
    while ds and ds[-1] == 0:
        ds.pop()
        e += 1
    if not ds:
        return {"k": "num", "neg": False, "ds": [], "e": 0}
    if len(ds) > 15 or len(ds) + e > 15 or e < -60:
        raise Unrepresentable(f"float {x!r} outside the model's exact range")
    return {"k": "num", "neg": bool(sign), "ds": ds, "e": e}


def enc_value(v) -> Dict[str, Any]:
    """Python JSON-like value -> tagged record (JSON-serialisable)."""
    if v is None:
        return {"k": "null"}
    if isinstance(v, bool):
        return {"k": "bool", "b": v}
    if isinstance(v, (int, float)):
        return enc_num(v)
    if isinstance(v, str):
        for c in v:
            if 0xD800 <= ord(c) <= 0xDFFF:
                raise Unrepresentable("lone surrogate")
        return {"k": "str", "s": enc_text(v)}
    if isinstance(v, list):
        return {"k": "arr", "xs": [enc_value(x) for x in v]}
    if isinstance(v, dict):
        ms = []
        for name, val in v.items():
            if not isinstance(name, str):
                raise Unrepresentable("non-string member name")
            ms.append({"n": enc_text(name), "v": enc_value(val)})
        return {"k": "obj", "ms": ms}
    raise Unrepresentable(type(v).__name__)


def dec_num(t: Dict[str, Any], floaty: bool = False):
    m = int("".join(map(str, t["ds"])) or "0")
    if t["neg"]:
        m = -m
    e = t["e"]
    if e >= 0:
        val = m * 10**e
        return float(val) if floaty else val
    return float(f"{m}e{e}")


def dec_value(t: Dict[str, Any], floaty: bool = False):
    k = t["k"]
    if k == "null":
        return None
    if k == "bool":
        return bool(t["b"])
    if k == "num":
        return dec_num(t, floaty)
    if k == "str":
        return dec_text(t["s"])
    if k == "arr":
        return [dec_value(x, floaty) for x in t["xs"]]
    if k == "obj":
        return {dec_text(m["n"]): dec_value(m["v"], floaty) for m in t["ms"]}
    raise ValueError(f"bad tag {k}")


def enc_loc(location: Sequence[Any]) -> List[Dict[str, Any]]:
    out = []
    for key in location:
        if isinstance(key, bool) or not isinstance(key, (int, str)):
            out.append({"x": repr(key)})
        elif isinstance(key, int):
            out.append({"i": key})
        else:
            out.append({"n": enc_text(key)})
    return out


def kind_strict_equal(a, b) -> bool:
    """JSON equality that never identifies bool with number."""
    if isinstance(a, bool) or isinstance(b, bool):
        return isinstance(a, bool) and isinstance(b, bool) and a == b
    if a is None or b is None:
        return a is None and b is None
    if isinstance(a, (int, float)) and isinstance(b, (int, float)):
        return a == b
    if isinstance(a, str) and isinstance(b, str):
        return a == b
    if isinstance(a, list) and isinstance(b, list):
        return len(a) == len(b) and all(kind_strict_equal(x, y) for x, y in zip(a, b))
    if isinstance(a, dict) and isinstance(b, dict):
        return a.keys() == b.keys() and all(kind_strict_equal(a[k], b[k]) for k in a)
    return False


# --------------------------------------------------------------------------
# TLA+ literal rendering (for generated cfg / MC modules)
# --------------------------------------------------------------------------
def tla_lit(v) -> str:
    if isinstance(v, bool):
        return "TRUE" if v else "FALSE"
    if isinstance(v, int):
        return str(v) if v >= 0 else f"({v})"
    if isinstance(v, str):
        return json.dumps(v)
    if isinstance(v, (list, tuple)):
        return "<<" + ", ".join(tla_lit(x) for x in v) + ">>"
    if isinstance(v, dict):
        return "[" + ", ".join(f"{k} |-> {tla_lit(x)}" for k, x in v.items()) + "]"
    if isinstance(v, (set, frozenset)):
        return "{" + ", ".join(tla_lit(x) for x in v) + "}"
    raise TypeError(type(v))


# --------------------------------------------------------------------------
# scratch space
# --------------------------------------------------------------------------
_SCRATCH: Optional[str] = None


def scratch() -> str:
    global _SCRATCH
    if _SCRATCH is None:
        _SCRATCH = tempfile.mkdtemp(prefix="verif-run-")
    return _SCRATCH


def cleanup_scratch() -> None:
    global _SCRATCH
    if _SCRATCH and os.path.isdir(_SCRATCH):
        shutil.rmtree(_SCRATCH, ignore_errors=True)
    _SCRATCH = None


# --------------------------------------------------------------------------
# TLC
# --------------------------------------------------------------------------
_STATS = re.compile(r"(\d+) states generated, (\d+) distinct states found, (\d+) states left")


class TlcResult:
    def __init__(self, rc: int, out: str, wall: float):
        self.rc = rc
        self.out = out
        self.wall = wall
        m = None
        for m in _STATS.finditer(out):
            pass
        self.generated = int(m.group(1)) if m else 0
        self.distinct = int(m.group(2)) if m else 0
        self.ok = rc == 0 and "Model checking completed. No error has been found." in out or (
            rc == 0 and "Finished in" in out and "Error:" not in out
        )

    def printed(self) -> List[str]:
        """Lines printed by PrintT (they are not prefixed)."""
        return self.out.splitlines()


def run_tlc(
    module: str,
    cfg: str,
    *,
    name: str,
    workers: int = NCPU,
    env: Optional[Dict[str, str]] = None,
    timeout: int = 1800,
    heap: str = "8g",
    extra: Sequence[str] = (),
    simulate: Optional[str] = None,
    dump: Optional[str] = None,
    depth: Optional[int] = None,
    seed: Optional[int] = None,
    coverage: bool = False,
    dfs_queue: bool = False,
    to_file: bool = False,
) -> TlcResult:
    """Run TLC on SPEC/<module>.tla with the given cfg text."""
    sdir = os.path.join(scratch(), name)
    os.makedirs(sdir, exist_ok=True)
    cfg_path = os.path.join(sdir, f"{module}.cfg")
    with open(cfg_path, "w") as fh:
        fh.write(cfg)
    cmd = ["java", "-XX:+UseParallelGC", f"-Xmx{heap}", "-Xss64m", f"-Djava.io.tmpdir={sdir}"]   # TLC leaves tlc-* directories there
    if dfs_queue:
        cmd.append("-Dtlc2.tool.queue.IStateQueue=StateDeque")
    cmd += ["-cp", TLA_CP, "tlc2.TLC", "-workers", str(workers), "-metadir",
            os.path.join(sdir, "meta"), "-noGenerateSpecTE", "-config", cfg_path]
    if simulate:
        cmd += ["-simulate", simulate]
    if depth is not None:
        cmd += ["-depth", str(depth)]
    if seed is not None:
        cmd += ["-seed", str(seed)]
    if dump:
        cmd += ["-dump", dump]
    if coverage:
        cmd += ["-coverage", "1"]
    cmd += list(extra)
    cmd.append(os.path.join(SPEC, f"{module}.tla"))
    e = dict(os.environ)
    if env:
        e.update(env)
    t0 = time.time()
    if to_file:
        # very large exports (millions of PrintT lines): the output goes to a file, the result carries the lines
        # that are not exports plus the path; the caller streams the file
        opath = os.path.join(sdir, "tlc.out")
        try:
            with open(opath, "w") as fh:
                p = subprocess.run(cmd, cwd=SPEC, env=e, stdout=fh, stderr=subprocess.STDOUT, text=True, timeout=timeout)
        except subprocess.TimeoutExpired as err:
            raise MachineryError(f"TLC timed out after {timeout}s on {module} ({name})") from err
        wall = time.time() - t0
        keep = []
        with open(opath) as fh:
            for line in fh:
                if not line.startswith('"GEN '):
                    keep.append(line)
        res = TlcResult(p.returncode, "".join(keep), wall)
        res.path = opath
        return res
    try:
        p = subprocess.run(cmd, cwd=SPEC, env=e, capture_output=True, text=True, timeout=timeout)
    except subprocess.TimeoutExpired as err:
        raise MachineryError(f"TLC timed out after {timeout}s on {module} ({name})") from err
    wall = time.time() - t0
    out = p.stdout + p.stderr
    with open(os.path.join(sdir, "tlc.out"), "w") as fh:
        fh.write(out)
    return TlcResult(p.returncode, out, wall)


def run_apalache(module: str, args: Sequence[str], *, name: str, timeout: int = 900) -> Tuple[bool, str, float]:
    """apalache-mc check <args> SPEC/<module>.tla; returns (ok, output tail, wall)."""
    sdir = os.path.join(scratch(), name)
    os.makedirs(sdir, exist_ok=True)
    cmd = ["apalache-mc", "check", f"--out-dir={sdir}", *args, os.path.join(SPEC, f"{module}.tla")]
    e = dict(os.environ, JVM_ARGS=f"-Djava.io.tmpdir={sdir} -Xmx4g")
    t0 = time.time()
    try:
        p = subprocess.run(cmd, cwd=sdir, env=e, capture_output=True, text=True, timeout=timeout)
    except (subprocess.TimeoutExpired, FileNotFoundError) as err:
        raise MachineryError(f"apalache-mc failed to run on {module} ({name}): {err}") from err
    out = p.stdout + p.stderr
    return ("EXITCODE: OK" in out and "The outcome is: NoError" in out), out[-1500:], time.time() - t0


def require_ok(res: TlcResult, what: str) -> TlcResult:
    if not res.ok:
        tail = "\n".join(res.out.splitlines()[-40:])
        raise MachineryError(f"TLC failed on {what} (rc={res.rc}):\n{tail}")
    return res


# --------------------------------------------------------------------------
# batch trace validation: records -> K ndjson chunks -> K single-worker TLCs
# --------------------------------------------------------------------------
_REJ = re.compile(r'^"REJ (\{.*\})"$')


def validate_records(
    module: str,
    records: List[Dict[str, Any]],
    *,
    name: str,
    constants: str = "",
    nproc: int = NCPU,
    timeout: int = 3000,
    heap: str = "3g",
) -> Tuple[List[Dict[str, Any]], Dict[str, int]]:
    """Validate trace records against SPEC/<module>.tla.

    The module must define TraceSpec/TraceDone over `IOEnv.TRACE_FILE` and print
    one `"REJ {json}"` line per rejected record.  Returns the
    list of rejections [{id, clause, detail}] and TLC statistics.  Every record
    gets a verdict: accepted unless listed.
    """
    from . import tlaval  # noqa: PLC0415

    if not records:
        return [], {"states": 0, "transitions": 0, "jvms": 0}
    for k, r in enumerate(records):
        r.setdefault("id", k)
    nproc = max(1, min(nproc, (len(records) + 199) // 200))
    sdir = os.path.join(scratch(), name)
    os.makedirs(sdir, exist_ok=True)
    chunks = [records[k::nproc] for k in range(nproc)]
    cfg = (
        "SPECIFICATION TraceSpec\nCHECK_DEADLOCK FALSE\nPOSTCONDITION TraceDone\n" + constants
    )

    def one(k: int) -> TlcResult:
        path = os.path.join(sdir, f"trace{k}.ndjson")
        with open(path, "w") as fh:
            for r in chunks[k]:
                fh.write(json.dumps(r, separators=(",", ":")))
                fh.write("\n")
        return run_tlc(
            module, cfg, name=f"{name}/jvm{k}", workers=1, env={"TRACE_FILE": path},
            timeout=timeout, heap=heap,
        )

    with ThreadPoolExecutor(max_workers=nproc) as ex:
        results = list(ex.map(one, range(nproc)))
    rejections: List[Dict[str, Any]] = []
    states = trans = 0
    for k, res in enumerate(results):
        if not res.ok:
            tail = "\n".join(res.out.splitlines()[-40:])
            raise MachineryError(f"trace validator {module} chunk {k} failed (rc={res.rc}):\n{tail}")
        if res.distinct != len(chunks[k]) + 1:
            raise MachineryError(
                f"trace validator {module} chunk {k}: consumed {res.distinct - 1} of {len(chunks[k])} records"
            )
        states += res.distinct
        trans += res.generated
        for line in res.out.splitlines():
            line = line.strip()
            if _REJ.match(line):
                obj = json.loads(json.loads(line)[4:])
                rejections.append({"id": obj["id"], "clause": obj["clause"], "detail": obj.get("detail")})
    return rejections, {"states": states, "transitions": trans, "jvms": nproc}


# --------------------------------------------------------------------------
# known findings
# --------------------------------------------------------------------------
def load_known(prop: str) -> List[Dict[str, Any]]:
    path = os.path.join(VERIF, "known_findings.json")
    if not os.path.exists(path):
        return []
    with open(path) as fh:
        data = json.load(fh)
    return [f for f in data.get("findings", []) if f.get("property") == prop]


# --------------------------------------------------------------------------
# evidence / verdict
# --------------------------------------------------------------------------
class Check:
    """Accumulates what a check run covered and its verdict."""

    def __init__(self, prop: str, tier: str, seed: int):
        self.prop = prop
        self.tier = tier
        self.seed = seed
        self.t0 = time.time()
        self.states = 0
        self.transitions = 0
        self.traces = 0
        self.evaluations = 0
        self.nontrivial: set = set()
        self.samples: List[Any] = []
        self.notes: Dict[str, Any] = {}
        self.violations: List[Dict[str, Any]] = []
        self.known_hits: Dict[str, Dict[str, Any]] = {}
        self.exhaustive = False
        self.rule = ""
        self.assumptions: List[str] = []
        self.tlc_runs: List[Dict[str, Any]] = []
        self.known = load_known(prop)
        self.skipped = 0
        # replay files of earlier runs of this property are stale
        if os.path.isdir(REPLAYS):
            for fn in os.listdir(REPLAYS):
                if fn.startswith(prop + "-"):
                    try:
                        os.remove(os.path.join(REPLAYS, fn))
                    except OSError:
                        pass

    # -- TLC accounting
    def add_tlc(self, what: str, res: TlcResult) -> None:
        self.states += res.distinct
        self.transitions += res.generated
        self.tlc_runs.append({"what": what, "distinct": res.distinct, "generated": res.generated,
                              "wall_s": round(res.wall, 1)})

    def add_stats(self, what: str, st: Dict[str, int]) -> None:
        self.states += st["states"]
        self.transitions += st["transitions"]
        self.tlc_runs.append({"what": what, **st})

    def sample(self, s: Any, cap: int = 6) -> None:
        if len(self.samples) < cap:
            self.samples.append(s)

    # -- violations
    def violation(self, sig: Dict[str, Any], case: Dict[str, Any]) -> None:
        """Report a violation with a signature; listed signatures become KNOWN-FINDINGs."""
        for f in self.known:
            if f.get("status", "open") != "open":
                continue
            if all(sig.get(k) == v for k, v in f["signature"].items()):
                hit = self.known_hits.setdefault(f["id"], {"finding": f, "count": 0, "example": case})
                hit["count"] += 1
                return
        self.violations.append({"signature": sig, "case": case})

    def finish(self) -> int:
        os.makedirs(EVIDENCE, exist_ok=True)
        wall = time.time() - self.t0
        self.notes["values_outside_the_model_dropped"] = UNREPRESENTABLE[0]
        for fid, hit in sorted(self.known_hits.items()):
            f = hit["finding"]
            print(f"KNOWN-FINDING: property={self.prop} {fid}: {f['what']} ({hit['count']} case(s) this run)")
        rc = 0
        replay_paths = []
        if self.violations:
            os.makedirs(REPLAYS, exist_ok=True)
            seen = set()
            for v in self.violations:
                key = json.dumps(v["signature"], sort_keys=True)
                if key in seen:
                    continue
                seen.add(key)
                h = hashlib.sha1(json.dumps(v, sort_keys=True, default=str).encode()).hexdigest()[:12]
                path = os.path.join(REPLAYS, f"{self.prop}-{h}.json")
                with open(path, "w") as fh:
                    json.dump({"property": self.prop, **v}, fh, indent=1, default=str)
                replay_paths.append(path)
                if len(replay_paths) <= 20:
                    print(f"VIOLATION property={self.prop} replay={path}")
                    print(f"  signature: {key}")
            rc = 1
        cov = {
            "states": max(self.states, 0),
            "transitions": max(self.transitions, 0),
            "traces_validated_against_impl": self.traces,
            "evaluations": self.evaluations,
            "distinct_nontrivial": len(self.nontrivial),
            "rule": self.rule,
            "samples": self.samples or ["(none)"],
            "exhaustive": self.exhaustive,
            "tlc_runs": self.tlc_runs,
            "skipped_outside_model": self.skipped,
            "known_findings_hit": {k: v["count"] for k, v in self.known_hits.items()},
            **self.notes,
        }
        ev = {
            "property_id": self.prop,
            "tier": self.tier,
            "seed": self.seed,
            "level": "model_checking",
            "coverage": cov,
            "assumptions": self.assumptions,
            "wall_s": round(wall, 2),
            "violations": len(self.violations),
        }
        with open(os.path.join(EVIDENCE, f"{self.prop}.json"), "w") as fh:
            json.dump(ev, fh, indent=1, default=str)
        print(f"{self.prop} {self.tier}: states={self.states} transitions={self.transitions} "
              f"traces={self.traces} evaluations={self.evaluations} violations={len(self.violations)} "
              f"known={sum(v['count'] for v in self.known_hits.values())} wall={wall:.1f}s")
        return rc
