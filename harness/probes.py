"""Probe function extensions: registered on a fresh environment with a declared
signature, they log what they actually receive and answer with the deterministic
semantics ProbeResult of Eval.tla (a function of the first argument only)."""
from __future__ import annotations

from typing import Any, Dict, List, Sequence, Tuple

from . import core


def make_env(jp, sigs: Sequence[Tuple[str, Sequence[str], str]], log: List[Any], base=None,
             lo=None, hi=None, nondeterministic: bool = False, max_depth=None, rebind: bool = False):
    """A fresh environment (subclass instance) with probe functions registered."""
    from jsonpath_rfc9535.function_extensions import ExpressionType, FilterFunction  # noqa: PLC0415

    tmap = {"V": ExpressionType.VALUE, "L": ExpressionType.LOGICAL, "N": ExpressionType.NODES}
    attrs: Dict[str, Any] = {}
    if lo is not None:
        attrs["min_int_index"] = lo
    if hi is not None:
        attrs["max_int_index"] = hi
    if nondeterministic:
        attrs["nondeterministic"] = True
    if max_depth is not None:
        attrs["max_recursion_depth"] = max_depth
    cls = type("ProbeEnv", (base or jp.JSONPathEnvironment,), attrs)
    env = cls()
    NodeList = jp.JSONPathNodeList
    NOTHING = jp.NOTHING

    def project(arg, p):
        try:
            if p == "V":
                if arg is NOTHING:
                    return {"as": "nothing"}
                if isinstance(arg, NodeList):
                    return {"as": "other", "repr": "nodelist for ValueType"}
                return {"as": "value", "v": core.enc_value(arg)}
            if p == "L":
                if isinstance(arg, bool):
                    return {"as": "logical", "b": arg}
                return {"as": "other", "repr": f"{type(arg).__name__} for LogicalType"}
            if isinstance(arg, NodeList):
                return {"as": "nodes", "vs": [core.enc_value(n.value) for n in arg]}
            return {"as": "other", "repr": f"{type(arg).__name__} for NodesType"}
        except core.Unrepresentable:
            return {"as": "other", "repr": "unrepresentable"}

    def build(name, params, ret):
        class Probe(FilterFunction):
            arg_types = [tmap[p] for p in params]
            return_type = tmap[ret]

            def __call__(self, *args):
                log.append({"f": name, "args": [project(a, p) for a, p in zip(args, params)],
                            "n": len(args)})
                if not args:
                    kind, a = "L", True
                else:
                    kind, a = params[0], args[0]
                if ret == "V":
                    if kind == "V":
                        return a
                    if kind == "L":
                        return bool(a) if isinstance(a, bool) else a
                    return len(a) if isinstance(a, NodeList) else NOTHING
                if ret == "L":
                    if kind == "V":
                        return a is not NOTHING
                    if kind == "L":
                        return a if isinstance(a, bool) else bool(a)
                    return len(a) > 0 if isinstance(a, NodeList) else False
                if kind == "N" and isinstance(a, NodeList):
                    return a
                return NodeList()

        Probe.__name__ = f"Probe_{name}"
        return Probe()

    if rebind:
        # the registry is an attribute: a user may also build a new mapping and assign it
        reg = dict(env.function_extensions)
        for name, params, ret in sigs:
            reg[name] = build(name, list(params), ret)
        env.function_extensions = reg
        return env
    for name, params, ret in sigs:
        env.function_extensions[name] = build(name, list(params), ret)
    return env


def reg_records(sigs: Sequence[Tuple[str, Sequence[str], str]]) -> List[Dict[str, Any]]:
    return [{"name": core.enc_text(n), "params": list(p), "ret": r, "sem": "probe"} for n, p, r in sigs]


def int_lit(x: int) -> Dict[str, Any]:
    return {"neg": x < 0, "ds": [int(c) for c in str(abs(x))]}
