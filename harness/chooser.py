"""An enumerating stand-in for the `random` module name used by the implementation's
nondeterministic mode: every shuffle / choice / sample / randrange becomes a sequence
of finite choices, and `explore` runs a function once per leaf of the resulting choice
tree (depth-first, distinct arrangements only).  No change to the repository is
needed: the harness rebinds the name `random` inside `segments` and `selectors`."""
from __future__ import annotations

import contextlib
import random as _real_random
from typing import Any, Callable, Iterator, List, Tuple


class Exhausted(Exception):
    pass


class Chooser:
    def __init__(self):
        self.script: List[int] = []
        self.arity: List[int] = []
        self.pos = 0
        self.log: List[Tuple[str, int, int]] = []

    # -- core -------------------------------------------------------------
    muted = False          # muted: always the first outcome, nothing recorded (for set-up work that is not under exploration)
    depth_limit = None     # only the first depth_limit CALLS (shuffle / sample / choice ... with a real choice) of a run are explored;
                           # later calls take their first outcome
    calls = 0
    _in_late_call = False
    late_policy = "first"  # what a call beyond depth_limit takes: "first" | "last" | a random.Random instance

    def pick(self, n: int, what: str = "choice") -> int:
        if n <= 0:
            raise IndexError("choice from an empty population")
        if n == 1 or self.muted:
            return 0
        if self._in_late_call:
            if self.late_policy == "first":
                return 0
            if self.late_policy == "last":
                return n - 1
            return self.late_policy.randrange(n)
        if self.pos < len(self.script):
            k = self.script[self.pos]
            self.arity[self.pos] = n
        else:
            k = 0
            self.script.append(0)
            self.arity.append(n)
        self.pos += 1
        self.log.append((what, n, k))
        return k

    def reset_run(self) -> None:
        self.pos = 0
        self.log = []
        self.calls = 0
        self._in_late_call = False

    def _enter(self, real: bool) -> None:
        """Start of one call of the random API; real: it has at least two distinct outcomes."""
        if real and not self.muted:
            self.calls += 1
        self._in_late_call = self.depth_limit is not None and self.calls > self.depth_limit

    def advance(self) -> bool:
        """Move to the next leaf; False when the tree is exhausted."""
        # drop choices not reached in the last run
        del self.script[self.pos:]
        del self.arity[self.pos:]
        while self.script:
            if self.script[-1] + 1 < self.arity[-1]:
                self.script[-1] += 1
                return True
            self.script.pop()
            self.arity.pop()
        return False

    # -- the random-module API the implementation may use ---------------------
    def choice(self, seq):
        self._enter(len(seq) > 1)
        return seq[self.pick(len(seq), "choice")]

    def shuffle(self, x) -> None:
        items = list(x)
        self._enter(len({id(it) for it in items}) > 1)
        out = []
        while items:
            # distinct arrangements only: choose among distinct remaining objects
            distinct = []
            for it in items:
                if not any(it is d for d in distinct):
                    distinct.append(it)
            k = self.pick(len(distinct), "shuffle")
            chosen = distinct[k]
            for i, it in enumerate(items):
                if it is chosen:
                    del items[i]
                    break
            out.append(chosen)
        x[:] = out

    def sample(self, population, k, **_kw):
        items = list(population)
        self._enter(k > 0 and len({id(it) for it in items}) > 1)
        out = []
        for _ in range(k):
            distinct = []
            for it in items:
                if not any(it is d for d in distinct):
                    distinct.append(it)
            j = self.pick(len(distinct), "sample")
            chosen = distinct[j]
            for i, it in enumerate(items):
                if it is chosen:
                    del items[i]
                    break
            out.append(chosen)
        return out

    def randrange(self, start, stop=None, step=1):
        if stop is None:
            start, stop = 0, start
        vals = range(start, stop, step)
        self._enter(len(vals) > 1)
        return vals[self.pick(len(vals), "randrange")]

    def randint(self, a, b):
        self._enter(b > a)
        return a + self.pick(b - a + 1, "randint")

    def random(self):
        self._enter(True)
        return (0.25, 0.75)[self.pick(2, "random")]

    def getrandbits(self, k):
        self._enter(k > 0)
        return self.pick(2 ** k, "getrandbits")

    def __getattr__(self, name):  # anything else: not enumerable
        raise NotImplementedError(f"random.{name} is not supported by the enumerating chooser")


class SeededChooser(Chooser):
    """Same interface, random outcomes (for documents whose choice tree is too large)."""

    def __init__(self, seed: int):
        super().__init__()
        self.rng = _real_random.Random(seed)

    def pick(self, n: int, what: str = "choice") -> int:
        if n <= 1:
            return 0
        k = self.rng.randrange(n)
        self.log.append((what, n, k))
        return k


@contextlib.contextmanager
def patched(jp_pkg, chooser):
    import importlib  # noqa: PLC0415

    mods = [importlib.import_module(jp_pkg.__name__ + ".segments"), importlib.import_module(jp_pkg.__name__ + ".selectors")]
    old = [getattr(m, "random", None) for m in mods]
    for m in mods:
        m.random = chooser
    try:
        yield
    finally:
        for m, o in zip(mods, old):
            m.random = o


CURRENT: List[Chooser] = []


@contextlib.contextmanager
def muted():
    """Inside explore(): the random choices made in this block are not part of the explored tree."""
    ch = CURRENT[-1] if CURRENT else None
    if ch is None:
        yield
        return
    old, ch.muted = ch.muted, True
    try:
        yield
    finally:
        ch.muted = old


def explore(jp_pkg, fn: Callable[[], Any], cap: int = 50000, stop=None, depth_limit=None, late_policy="first") -> Tuple[List[Any], bool, int]:
    """Run fn under every outcome of every random choice.  Returns (results, complete, runs).
    `stop(result)` true ends the exploration at once (a run that did not terminate: its choice script is unbounded)."""
    ch = Chooser()
    ch.depth_limit = depth_limit
    ch.late_policy = late_policy
    results = []
    runs = 0
    CURRENT.append(ch)
    try:
        return _explore(jp_pkg, ch, fn, cap, stop, results, runs)
    finally:
        CURRENT.pop()


def _explore(jp_pkg, ch, fn, cap, stop, results, runs):
    with patched(jp_pkg, ch):
        while True:
            ch.reset_run()
            results.append(fn())
            runs += 1
            if stop is not None and stop(results[-1]):
                return results, False, runs
            if not ch.advance():
                return results, True, runs
            if runs >= cap:
                return results, False, runs
