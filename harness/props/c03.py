"""C03  Every valid RFC 9535 query is accepted by compile().

MC     T1: ABNF.tla (the RFC grammar as data) and Syntax.tla (the parser) accept the
       same strings, on the seed lists and a seeded sample of this run's candidates.
GEN    Deriv.tla: the derivation machine of ABNF.tla (expand the left-most non-terminal):
       every sentence up to a length, random derivations of longer ones; T3 (each derived
       sentence is accepted by Syntax!Parse) checked by TLC; every sentence is compiled.

TRACE  candidate-valid query texts (seed list, the repository's test queries,
       seeded QueryGen output at three spelling levels: blank space in every S
       position, both quote styles, every escape form incl. \\uXXXX in both
       hex cases and surrogate pairs, shorthand vs bracket, all number
       spellings, non-ASCII / astral shorthand names) -> compile() outcome;
       TLC decides validity (Syntax!Parse strict + Typing) and rejects the
       record when a valid text did not compile.
"""
from __future__ import annotations

import random

from .. import core, corpus, gen, impl
from . import common

EXTRA = [
    "$[?@.a==0e1]", "$[?@.a==0e-1]", "$[?@.a==0E+0]", "$[?@.a==-0]", "$[?@.a==-0.0]", "$[?@.a==-0e1]", "$[?@.a==1E2]", "$[?@.a==1e+2]",
    "$[?@.a==1.0e-2]", "$[?@.a==10e-1]", "$[?@.a==0.1]", "$['\\u0000']", "$['\\u001f']", "$['\\u001F']", "$[\"\\u0007\"]", "$.😀",
    "$.a😀", "$..😀", "$.\U00010000", "$.\U0010FFFF", "$._", "$.__a1", "$.é", "$.퟿", "$.", "$.￿", "$.\x80", "$['\\/']", "$[\"\\/\"]",
    "$['\"']", "$[\"'\"]", "$['\\ud800\\udc00']", "$['\\uDBFF\\uDFFF']", "$['\\uD83D\\uDE00']", "$['\x7f']", "$[' ']", "$['']", '$[""]',
    "$[?@.a == 'x' && count(@.*) > 1 || !match(@.b, 'a.*')]", "$[?@[?@[?@.a]]]", "$[?((@.a))]", "$[?!(!(@.a))]", "$[?!\n@.a]",
    "$[? @.a\t==\r1 ]", "$\t.a", "$ [0]", "$ ..a", "$[\n0\n,\n1\n]", "$[0 :1 :2]", "$[0: 1: 2]", "$[ : ]", "$[ : : ]", "$[::]", "$[:: 2]",
    "$[?count( @.* )==1]", "$[?count(@.*) ==1]", "$[?match(@.a , 'b')]", "$[?length(@.a)==length(@.b)]", "$[?value(@.*)==value(@..a)]",
    "$[9007199254740991]", "$[-9007199254740991]", "$[9007199254740991:-9007199254740991:9007199254740991]", "$[0][0][0][0][0][0]",
    "$[?$[?@.a]]", "$[?@ == @]", "$[?$ == $]", "$[?@.a.b.c == $.a[0]['b']]", "$[?null == null]", "$[?true != false]", "$[?@['a']['b']]",
]


def _sh_outcome(cp: int):
    """(acc, sel, jp) for code point cp as first / later character of a member-name shorthand - runs in a worker process."""
    jp = _sh_outcome.jp
    ch = chr(cp)
    oks, sel, isjp = [], True, True
    for text, doc, want in ((f"$.{ch}", {ch: 1, "a": 2}, [1]), (f"$.{ch}b", {ch + "b": 1, "b": 2, ch: 3}, [1]), (f"$.a{ch}", {"a" + ch: 1, "a": 2}, [1]),
                            (f"$..{ch}", [{ch: 1}], [1]), (f"$[?@.{ch} == 1]", [{ch: 1}, {"a": 1}], [{ch: 1}]), (f"$.a.{ch}1", {"a": {ch + "1": 1, ch: 2}}, [1])):
        try:
            q = jp.compile(text)
            oks.append(True)
            sel = sel and q.find(doc).values() == want
        except jp.JSONPathError:
            oks.append(False)
        except Exception:  # noqa: BLE001
            oks.append(False)
            isjp = False
    return ("all" if all(oks) else "none" if not any(oks) else "mixed", sel, isjp)


def _sh_chunk(cps):
    if not hasattr(_sh_outcome, "jp"):
        _sh_outcome.jp = core.import_repo()
    return [(cp, _sh_outcome(cp)) for cp in cps]


def shorthand_ranges(tier: str):
    """Every code point from U+0080 (thorough) / a dense-then-strided sample (quick) in member-name shorthand position,
    compressed to ranges of uniform outcome; TLC checks each range with a quantifier (Trace!VShRange)."""
    import multiprocessing as mp  # noqa: PLC0415
    if tier == "quick":
        cps = list(range(0x80, 0x3100)) + list(range(0x3100, 0xD800, 89)) + list(range(0xD7F0, 0xD800)) + list(range(0xE000, 0xE010)) \
            + list(range(0xE010, 0x110000, 997)) + list(range(0xFFF0, 0x10010)) + list(range(0x10FFF0, 0x110000))
        cps = sorted(set(cps))
    else:
        cps = [c for c in range(0x80, 0x110000) if not 0xD800 <= c <= 0xDFFF]
    chunks = [cps[i:i + 3000] for i in range(0, len(cps), 3000)]
    with mp.Pool(core.NCPU) as pool:
        outcomes = [x for ch in pool.map(_sh_chunk, chunks) for x in ch]
    ranges = []
    for cp, oc in outcomes:
        if ranges and ranges[-1]["oc"] == oc and not (ranges[-1]["hi"] < 0xD800 <= cp):
            ranges[-1]["hi"] = cp
        else:
            ranges.append({"lo": cp, "hi": cp, "oc": oc})
    return len(cps), [{"op": "shrange", "q": [], "lo": r["lo"], "hi": r["hi"], "acc": r["oc"][0], "sel": r["oc"][1], "jp": r["oc"][2],
                       "out": r["oc"][0], "cls": ""} for r in ranges]


def run(chk: core.Check, tier: str, seed: int) -> None:
    jp = core.import_repo()
    rng = random.Random(seed)
    # other environments exist, have dropped or replaced built-ins and registered functions of their own:
    # none of that may change what the default environment (or a fresh one) accepts
    from .. import probes  # noqa: PLC0415

    class Sparse(jp.JSONPathEnvironment):
        def setup_function_extensions(self):
            super().setup_function_extensions()
            del self.function_extensions["match"]
            del self.function_extensions["search"]

    fresh = jp.JSONPathEnvironment()
    keep = [probes.make_env(jp, [("length", ["N"], "L"), ("count", ["V", "V"], "N"), ("value", [], "L")], []), Sparse()]
    n = 12000 if tier == "quick" else 250000
    cands = list(dict.fromkeys(corpus.SEEDS + EXTRA + corpus.repo_test_queries() + corpus.literal_queries() + corpus.skeletons(rng) + corpus.valid_candidates(rng, n)))
    common.t1_check(chk, [t for t in (corpus.SEEDS + EXTRA + rng.sample(cands, 500 if tier == "quick" else 15000)) if len(t) <= 60], "c03_t1")
    # GEN: the derivation machine of the grammar itself (Deriv.tla over ABNF.tla): every sentence of length <= N,
    # and random derivations of longer ones; T3 (each is accepted by Syntax!Parse) is checked by TLC on the way
    import json as _json  # noqa: PLC0415
    derived = set()
    for maxlen, maxrep, sim in ((6 if tier == "quick" else 8, 1, None), (18, 2, 150 if tier == "quick" else 4000)):
        cfg = (f"SPECIFICATION DSpec\nCONSTANTS\n  MaxLen = {maxlen}\n  MaxRep = {maxrep}\nINVARIANT T3\nINVARIANT Export\n"
               + ("" if sim else "VIEW DView\n") + "CHECK_DEADLOCK FALSE\n")
        res = core.run_tlc("Deriv", cfg, name=f"deriv_{maxlen}", heap="12g", timeout=3000, simulate=(f"num={sim}" if sim else None),
                           depth=(300 if sim else None), seed=(seed if sim else None), workers=(8 if sim else core.NCPU))
        if sim:
            if "Error:" in res.out and "T3" in res.out:
                raise core.MachineryError("T3 fails: a derived sentence is rejected by Syntax!Parse:\n" + res.out[-1500:])
        else:
            core.require_ok(res, "Deriv")
        chk.add_tlc(f"Deriv.tla (derivation machine of ABNF.tla) MaxLen={maxlen} MaxRep={maxrep}" +
                    (f" simulate num={sim}/worker" if sim else " exhaustive") + ": T3 every derived sentence is accepted by Syntax!Parse", res)
        for line in res.out.splitlines():
            line = line.strip()
            if line.startswith('"GEN '):
                derived.add(core.dec_text(_json.loads(_json.loads(line)[4:])))
    if len(derived) < 500:
        raise core.MachineryError(f"only {len(derived)} derived sentences")
    chk.notes["derived_sentences"] = len(derived)
    chk.sample({"derived_sentence": max(derived, key=len)})
    dl = sorted(derived)
    if tier == "quick" and len(dl) > 3000:
        dl = sorted(dl, key=len)[-400:] + rng.sample(dl, 2600)
    # GEN: the valid ones among all texts  prefix u1..un suffix  over five unit families (MC_Parser.tla; TLC also checks
    # T15 there: the implementation-shaped parser of Parser.tla accepts them and builds the RFC's query)
    from .. import parserconf  # noqa: PLC0415
    ugens, uruns = parserconf.unit_texts(tier, "c03_units")
    for label, res in uruns:
        chk.add_tlc(label, res)
    uacc = [core.dec_text(g["q"]) for g in ugens if g["rfc"] != "reject"]
    # ... and the specification's own canonical text of each of them (Unparse.tla, T2 checked by TLC in the same run)
    uacc += [core.dec_text(g["canon"]) for g in ugens if g.get("canon")]
    chk.notes["unit_texts_valid"] = len(uacc)
    cands = list(dict.fromkeys(cands + dl + uacc))
    recs = [impl.rec_compile(jp, q, env=(fresh if k % 7 == 0 else None)) for k, q in enumerate(cands)]
    del keep
    for r in recs:
        chk.nontrivial.add(tuple(r["q"]))
    # "any non-ASCII member-name shorthand": every code point, range-compressed
    n_cps, shrecs = shorthand_ranges(tier)
    chk.notes["shorthand_code_points_observed"] = n_cps
    chk.notes["shorthand_ranges"] = len(shrecs)
    chk.sample({"shorthand_ranges": [{k: v for k, v in r.items() if k in ("lo", "hi", "acc", "sel")} for r in shrecs[:4]]})
    recs += shrecs
    chk.evaluations += 6 * n_cps
    chk.sample({"query": core.dec_text(recs[60]["q"]), "compile": recs[60]["out"]})
    chk.sample({"query": core.dec_text(recs[-1]["q"]), "compile": recs[-1]["out"]})
    def sig(rej, rec):
        if rec.get("op") == "shrange":
            return {"clause": rej["clause"], "where": "member-name shorthand code point", "acc": rec["acc"]}
        return common.default_sig(rej, rec)

    common.judge(chk, recs, "c03", what="Trace: compile() outcomes vs Syntax/Typing (must-accept side)", sig=sig,
                 only=lambda c: c.startswith("C03"))
    chk.rule = (
        f"{len(cands)} distinct candidate texts (seeds, repository test queries, {n} seeded QueryGen texts over plain and "
        "nasty names at spelling levels 0-2); TLC computes the verdict; distinct = distinct text"
    )
    chk.assumptions = ["RFC 9535 Appendix A transcribed as Syntax.tla; declared don't-cares: blank space next to the brackets of a "
                       "singular query in a comparison, number literals outside the exactly representable range"]


def replay(path: str) -> int:
    import json as _json  # noqa: PLC0415
    with open(path) as fh:
        case = _json.load(fh)["case"]
    if case.get("query") == "" and "lo" in case:
        # a member-name shorthand range: observe its code points again (at most 2,000 of them)
        cps = [c for c in range(case["lo"], min(case["hi"], case["lo"] + 1999) + 1) if not 0xD800 <= c <= 0xDFFF]
        recs = [{"op": "shrange", "q": [], "lo": cp, "hi": cp, "acc": oc[0], "sel": oc[1], "jp": oc[2]} for cp, oc in _sh_chunk(cps)]
        rej, _ = core.validate_records("Trace", recs, name="replay")
        for r in rej[:10]:
            print(f"U+{recs[r['id']]['lo']:04X}: observed {recs[r['id']]['acc']}; spec verdict: REJECTED {r['clause']}")
        if not rej:
            print("spec verdict: accepted (does not reproduce)")
        return 1 if rej else 0
    return common.replay_generic(path)
