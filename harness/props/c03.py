"""C03  Every valid RFC 9535 query is accepted by compile().

MC     T1: ABNF.tla (the RFC grammar as data) and Syntax.tla (the parser) accept the
       same strings, on the seed lists and a seeded sample of this run's candidates.
GEN    Deriv.tla: the derivation machine of ABNF.tla (expand the left-most non-terminal):
       every sentence up to a length, random derivations of longer ones; T3 (each derived
       sentence is accepted by Syntax!Parse) checked by TLC; every sentence is compiled.

TRACE  candidate-valid query texts (seed list, the repository's test queries,
       seeded QueryGen output at three spelling levels: blank space in every S
       position, both quote styles, every escape form incl. \\uXXXX in both
       hex cases and surrogate pairs, shorthand vs bracket, all number
       spellings, non-ASCII / astral shorthand names) -> compile() outcome;
       TLC decides validity (Syntax!Parse strict + Typing) and rejects the
       record when a valid text did not compile.
"""
from __future__ import annotations

import random

from .. import core, corpus, gen, impl
from . import common

EXTRA = [
    "$[?@.a==0e1]", "$[?@.a==0e-1]", "$[?@.a==0E+0]", "$[?@.a==-0]", "$[?@.a==-0.0]", "$[?@.a==-0e1]", "$[?@.a==1E2]", "$[?@.a==1e+2]",
    "$[?@.a==1.0e-2]", "$[?@.a==10e-1]", "$[?@.a==0.1]", "$['\\u0000']", "$['\\u001f']", "$['\\u001F']", "$[\"\\u0007\"]", "$.😀",
    "$.a😀", "$..😀", "$.\U00010000", "$.\U0010FFFF", "$._", "$.__a1", "$.é", "$.퟿", "$.", "$.￿", "$.\x80", "$['\\/']", "$[\"\\/\"]",
    "$['\"']", "$[\"'\"]", "$['\\ud800\\udc00']", "$['\\uDBFF\\uDFFF']", "$['\\uD83D\\uDE00']", "$['\x7f']", "$[' ']", "$['']", '$[""]',
    "$[?@.a == 'x' && count(@.*) > 1 || !match(@.b, 'a.*')]", "$[?@[?@[?@.a]]]", "$[?((@.a))]", "$[?!(!(@.a))]", "$[?!\n@.a]",
    "$[? @.a\t==\r1 ]", "$\t.a", "$ [0]", "$ ..a", "$[\n0\n,\n1\n]", "$[0 :1 :2]", "$[0: 1: 2]", "$[ : ]", "$[ : : ]", "$[::]", "$[:: 2]",
    "$[?count( @.* )==1]", "$[?count(@.*) ==1]", "$[?match(@.a , 'b')]", "$[?length(@.a)==length(@.b)]", "$[?value(@.*)==value(@..a)]",
    "$[9007199254740991]", "$[-9007199254740991]", "$[9007199254740991:-9007199254740991:9007199254740991]", "$[0][0][0][0][0][0]",
    "$[?$[?@.a]]", "$[?@ == @]", "$[?$ == $]", "$[?@.a.b.c == $.a[0]['b']]", "$[?null == null]", "$[?true != false]", "$[?@['a']['b']]",
]


def run(chk: core.Check, tier: str, seed: int) -> None:
    jp = core.import_repo()
    rng = random.Random(seed)
    # other environments exist, have dropped or replaced built-ins and registered functions of their own:
    # none of that may change what the default environment (or a fresh one) accepts
    from .. import probes  # noqa: PLC0415

    class Sparse(jp.JSONPathEnvironment):
        def setup_function_extensions(self):
            super().setup_function_extensions()
            del self.function_extensions["match"]
            del self.function_extensions["search"]

    fresh = jp.JSONPathEnvironment()
    keep = [probes.make_env(jp, [("length", ["N"], "L"), ("count", ["V", "V"], "N"), ("value", [], "L")], []), Sparse()]
    n = 12000 if tier == "quick" else 250000
    cands = list(dict.fromkeys(corpus.SEEDS + EXTRA + corpus.repo_test_queries() + corpus.literal_queries() + corpus.skeletons(rng) + corpus.valid_candidates(rng, n)))
    common.t1_check(chk, [t for t in (corpus.SEEDS + EXTRA + rng.sample(cands, 500 if tier == "quick" else 15000)) if len(t) <= 60], "c03_t1")
    # GEN: the derivation machine of the grammar itself (Deriv.tla over ABNF.tla): every sentence of length <= N,
    # and random derivations of longer ones; T3 (each is accepted by Syntax!Parse) is checked by TLC on the way
    import json as _json  # noqa: PLC0415
    derived = set()
    for maxlen, maxrep, sim in ((6 if tier == "quick" else 8, 1, None), (18, 2, 150 if tier == "quick" else 4000)):
        cfg = (f"SPECIFICATION DSpec\nCONSTANTS\n  MaxLen = {maxlen}\n  MaxRep = {maxrep}\nINVARIANT T3\nINVARIANT Export\n"
               + ("" if sim else "VIEW DView\n") + "CHECK_DEADLOCK FALSE\n")
        res = core.run_tlc("Deriv", cfg, name=f"deriv_{maxlen}", heap="12g", timeout=3000, simulate=(f"num={sim}" if sim else None),
                           depth=(300 if sim else None), seed=(seed if sim else None), workers=(8 if sim else core.NCPU))
        if sim:
            if "Error:" in res.out and "T3" in res.out:
                raise core.MachineryError("T3 fails: a derived sentence is rejected by Syntax!Parse:\n" + res.out[-1500:])
        else:
            core.require_ok(res, "Deriv")
        chk.add_tlc(f"Deriv.tla (derivation machine of ABNF.tla) MaxLen={maxlen} MaxRep={maxrep}" +
                    (f" simulate num={sim}/worker" if sim else " exhaustive") + ": T3 every derived sentence is accepted by Syntax!Parse", res)
        for line in res.out.splitlines():
            line = line.strip()
            if line.startswith('"GEN '):
                derived.add(core.dec_text(_json.loads(_json.loads(line)[4:])))
    if len(derived) < 500:
        raise core.MachineryError(f"only {len(derived)} derived sentences")
    chk.notes["derived_sentences"] = len(derived)
    chk.sample({"derived_sentence": max(derived, key=len)})
    dl = sorted(derived)
    if tier == "quick" and len(dl) > 3000:
        dl = sorted(dl, key=len)[-400:] + rng.sample(dl, 2600)
    # GEN: the valid ones among all texts  prefix u1..un suffix  over five unit families (MC_Parser.tla; TLC also checks
    # T15 there: the implementation-shaped parser of Parser.tla accepts them and builds the RFC's query)
    from .. import parserconf  # noqa: PLC0415
    ugens, uruns = parserconf.unit_texts(tier, "c03_units")
    for label, res in uruns:
        chk.add_tlc(label, res)
    uacc = [core.dec_text(g["q"]) for g in ugens if g["rfc"] != "reject"]
    # ... and the specification's own canonical text of each of them (Unparse.tla, T2 checked by TLC in the same run)
    uacc += [core.dec_text(g["canon"]) for g in ugens if g.get("canon")]
    chk.notes["unit_texts_valid"] = len(uacc)
    cands = list(dict.fromkeys(cands + dl + uacc))
    recs = [impl.rec_compile(jp, q, env=(fresh if k % 7 == 0 else None)) for k, q in enumerate(cands)]
    del keep
    for r in recs:
        chk.nontrivial.add(tuple(r["q"]))
    chk.sample({"query": core.dec_text(recs[60]["q"]), "compile": recs[60]["out"]})
    chk.sample({"query": core.dec_text(recs[-1]["q"]), "compile": recs[-1]["out"]})
    common.judge(chk, recs, "c03", what="Trace: compile() outcomes vs Syntax/Typing (must-accept side)",
                 only=lambda c: c.startswith("C03"))
    chk.rule = (
        f"{len(cands)} distinct candidate texts (seeds, repository test queries, {n} seeded QueryGen texts over plain and "
        "nasty names at spelling levels 0-2); TLC computes the verdict; distinct = distinct text"
    )
    chk.assumptions = ["RFC 9535 Appendix A transcribed as Syntax.tla; declared don't-cares: blank space next to the brackets of a "
                       "singular query in a comparison, number literals outside the exactly representable range"]


replay = common.replay_generic
