"""C20  The command-line tool is a faithful, well-behaved front end to find().

MC     Cli.tla: the tool as a phase machine over all 6 x 5 x 2^5 = 960
       configurations (query class x document class x inline/file query x file/stdin
       document x stdout/file output x --pretty x --debug): T12 every run ends in
       exactly one of {exit 0, complete output, empty stderr} / {exit != 0, no
       output, one-line diagnostic - traceback iff --debug}; no state has both
       output and a diagnostic; every run exits.
GEN    every terminal state is run for real: in-process cli.main() with patched
       argv / stdin / stdout / stderr for all, `python -m jsonpath_rfc9535` as a
       subprocess for a seeded sample (all in the thorough tier).  stdout (or the -o
       file) must decode as JSON to exactly find(q, doc).values() (kind-strict),
       nothing else on stdout, exit status and stderr shape as the model says.
"""
from __future__ import annotations

import contextlib
import io
import json
import os
import random
import subprocess
import sys
import tempfile

from .. import core

QUERIES = {
    # (no descendant segment here: on the "deep" document class those raise at evaluation time, see "evalerr")
    "valid": ["$.a", "$.k[?@.a == 'é' || @.a > 1]", "$[*]", "$.*[?match(@.a, '.*b')]", "$.k[0,0]", "$.nope", "$.k[*].a", "$", "$[?@]"],
    "syntax": ["$.k[?@.a ==]", "$[", "$.k.", "$.k[?!!@.a]", "", " ", "\n",
               # invalid queries laid out over several lines, or quoting text that contains a line break: still ONE diagnostic line
               "$.k[?@.a ==\n]", "$[\n", "$.k\n.", "$['a' 'b\nc']", "$[0 \"b\nc\"]", "$.k[?!'b\rc']", "$['a\\\nb']", "$.k[?@.a == 'x\\\ry']",
               "$.k%", "$[?@.a % 2 == 0]", "$.k{0}", "$.k[?@.a == 1 %s]"],
    "type": ["$.k[?count(@.a, 'x')]", "$.k[?length(@.*) == 1]", "$.k[?match(@.a, 'b') == true]",
             "$.k[?length(@.*)\n == 1]", "$.k[?\ncount(@.a)\n]", "$.k[?@.*\n==\n1]"],
    "name": ["$.k[?nosuch(@.a)]"],
    "index": [f"$.k[{2**53}]", f"$[1:{-2**53}]"],
    "evalerr": ["$..*", "$..a", "$..[?match(@, '.*b')]"],
}


def deep_doc(n, name="a"):
    d = {"a": 1}
    for _ in range(n):
        d = {name: [d]}
    return d


DOCS = {
    "ascii": [{"k": [{"a": 1}, {"a": 2, "b": "xb"}, {"a": "ab"}], "a": [1, 2.5, None, True], "s": "b"}, [1, "ab", {"a": [{"a": 3}]}],
              # any JSON value is a document: empty containers and scalars at the top level
              b"[]", b"{}", b"0", b"false", b"null", b'""', b"0.0", b"[0]", b'"ab"', b"true", b" [ ] ",
              # grammatical JSON numbers beyond the range of a double (the decoder makes them infinities), huge integers
              b'{"a": 1e400, "k": [{"a": -1e999}, {"a": 2e308, "b": "xb"}], "s": 1E+400}', b"[1e400, -1E+999]",
              b'{"a": 123456789012345678901234567890, "k": [{"a": 1e-400}]}',
              # a repeated member name (the decoder keeps the last one: whatever find() sees is what must be printed)
              b'{"a": 1, "b": 2, "a": 3, "k": [{"a": 1, "a": 2, "b": "xb"}, {"a": "ab"}]}'],
    "nonascii": [{"k": [{"a": "é"}, {"a": "😀b"}, {"a": 7}], "a": "ü ", "ñ": {"a": "b"}},
                 # valid JSON may carry an unpaired surrogate escape
                 b'{"k": [{"a": "x\\ud83dy"}, {"a": "\\u00e9"}], "a": "\\udc00b"}'],
    # container nesting 122 > default max_recursion_depth 100; member names with line breaks on the over-deep branch (a diagnostic
    # that says WHERE the limit was hit must still be one line)
    "deep": [deep_doc(60), deep_doc(60, "a\nb"), {"a": 1, "z": deep_doc(60, "x\r\ny")}],
    "badjson": [b'{"k": [1, 2', b"nope", b"", b'{"a": "x\ty"}', b'["a\nb"]', b'{"k\x00": 1}', b'{"a": "\x1f"}', b"[1,]", b"{'a': 1}", b"[NaN]" if False else b"[1 2]"],
    "badutf8": [b'{"a": "\xff\xfe"}', b'["\xc3\x28"]'],
}


def doc_bytes(dclass, doc, rng):
    if isinstance(doc, bytes):
        return doc
    return json.dumps(doc, ensure_ascii=rng.random() < 0.5).encode("utf-8")


def expected_values(jp, q, raw):
    return jp.find(q, json.loads(raw)).values()


def run_inprocess(jp, argv, stdin_bytes):
    from jsonpath_rfc9535 import cli  # noqa: PLC0415

    out, err = io.StringIO(), io.StringIO()
    stdin = io.TextIOWrapper(io.BytesIO(stdin_bytes), encoding="utf-8")
    old = sys.argv, sys.stdin, sys.stdout, sys.stderr
    sys.argv = ["jsonpath-rfc9535"] + argv
    sys.stdin, sys.stdout, sys.stderr = stdin, out, err
    status, tb = 0, False
    try:
        cli.main()
    except SystemExit as e:
        status = e.code if isinstance(e.code, int) else (0 if e.code is None else 1)
    except BaseException:  # noqa: BLE001 - an exception escaping main() is what prints a traceback
        status, tb = 1, True
    finally:
        sys.argv, sys.stdin, sys.stdout, sys.stderr = old
    return status, out.getvalue(), err.getvalue(), tb


def run_subprocess(argv, stdin_bytes, ioenc="utf-8", delay=0.0):
    """delay > 0: the document arrives on the pipe only after the tool has started and is waiting for it (a slow producer)."""
    env = dict(os.environ, PYTHONPATH=core.REPO, PYTHONDONTWRITEBYTECODE="1", PYTHONIOENCODING=ioenc)
    cmd = ["/venv/bin/python", "-m", "jsonpath_rfc9535"] + argv
    if delay <= 0:
        p = subprocess.run(cmd, input=stdin_bytes, capture_output=True, env=env, timeout=60, cwd=core.REPO)
        rc, so, se = p.returncode, p.stdout, p.stderr
    else:
        import time  # noqa: PLC0415
        pp = subprocess.Popen(cmd, stdin=subprocess.PIPE, stdout=subprocess.PIPE, stderr=subprocess.PIPE, env=env, cwd=core.REPO)
        time.sleep(delay)
        try:
            half = len(stdin_bytes) // 2
            pp.stdin.write(stdin_bytes[:half])
            pp.stdin.flush()
            time.sleep(delay / 2)
            so, se = pp.communicate(stdin_bytes[half:], timeout=60)
        except (BrokenPipeError, OSError):
            so, se = pp.communicate(timeout=60)
        rc = pp.returncode
    err = se.decode("utf-8", "replace")
    return rc, so.decode("utf-8", "surrogatepass" if ioenc == "utf-8" else "replace"), err, "Traceback (most recent call last)" in err


def _env_snapshot(jp):
    e = jp.DEFAULT_ENV
    return {"max_recursion_depth": e.max_recursion_depth, "nondeterministic": e.nondeterministic, "min_int_index": e.min_int_index,
            "max_int_index": e.max_int_index, "functions": sorted((k, type(v).__name__) for k, v in e.function_extensions.items())}


def run(chk: core.Check, tier: str, seed: int) -> None:
    jp = core.import_repo()
    rng = random.Random(seed)
    cfg = "SPECIFICATION Spec\nINVARIANT T12\nINVARIANT T12_NoPartial\nINVARIANT Export\nPROPERTY T12_Exits\nCHECK_DEADLOCK FALSE\n"
    res = core.require_ok(core.run_tlc("Cli", cfg, name="mc_cli", heap="4g"), "Cli")
    chk.add_tlc("Cli.tla: all 960 configurations, T12, T12_NoPartial, T12_Exits", res)
    gens = [json.loads(json.loads(line.strip())[4:]) for line in res.out.splitlines() if line.strip().startswith('"GEN ')]
    if len(gens) != 960:
        raise core.MachineryError(f"expected 960 terminal states, got {len(gens)}")
    tmp = tempfile.mkdtemp(prefix="verif-cli-", dir=core.scratch())
    before_env = _env_snapshot(jp)
    n_sub = 0
    n_slow = 0
    for k, g in enumerate(gens):
        c = g["cfg"]
        q = rng.choice(QUERIES[c["q"]])
        if c["q"] == "syntax" and c["qsrc"] == "inline" and k % 3 == 0:
            # given inline the text is the query as it stands: blank space around a valid query makes it invalid
            # (a query FILE is stripped, so these are used for -q only)
            q = rng.choice([" $.a", "$.a ", "$.a\n", "  $  ", "\t$[0]", "$.k[0]\r\n"])
        doc = rng.choice(DOCS[c["d"]])
        raw = doc_bytes(c["d"], doc, rng)
        if c["d"] in ("ascii", "nonascii") and c["dsrc"] == "file" and not isinstance(doc, bytes) and k % 3 == 0:
            # -f reads bytes: a UTF-8 BOM or UTF-16 / UTF-32 document is valid input (json detects the encoding)
            text = json.dumps(doc, ensure_ascii=(k % 2 == 0))
            raw = [b"\xef\xbb\xbf" + text.encode("utf-8"), text.encode("utf-16"), text.encode("utf-16-le"), text.encode("utf-32-be")][(k // 3) % 4]
        argv = []
        if c["debug"]:
            argv.append("--debug")
        if c["pretty"]:
            argv.append("--pretty")
        if c["qsrc"] == "inline":
            argv += ["-q", q]
        else:
            qf = os.path.join(tmp, f"q{k}.txt")
            with open(qf, "w", encoding="utf-8") as fh:
                if c["q"] == "valid" and k % 2:
                    # a query file is read whole: the query may span lines (blank space between segments) and be
                    # preceded / followed by blank lines
                    fh.write(rng.choice(["", "\n", " \n\n"]) + q.replace("$", "$\n ", 1).replace("[?", "[\n?", 1) + rng.choice(["", "\n", "\n\n"]))
                else:
                    fh.write(q + rng.choice(["", "\n", "  \n"]))
            argv += ["-r", qf]
        stdin_bytes = b""
        if c["dsrc"] == "file":
            df = os.path.join(tmp, f"d{k}.json")
            with open(df, "wb") as fh:
                fh.write(raw)
            argv += ["-f", df]
        else:
            stdin_bytes = raw
        of = None
        if c["sink"] == "file":
            of = os.path.join(tmp, f"o{k}.json")
            argv += ["-o", of]
        # real output streams encode: non-ASCII documents always go through a subprocess, half of them
        # with an ASCII-only stdout (a terminal in the C locale)
        use_sub = tier != "quick" or rng.random() < 0.08 or (c["d"] == "nonascii" and (isinstance(doc, bytes) or rng.random() < 0.5))
        if use_sub:
            n_sub += 1
            status, out, err, tb = run_subprocess(argv, stdin_bytes, "ascii" if (c["d"] == "nonascii" and c["dsrc"] == "file" and k % 2) else "utf-8",
                                                  delay=(0.6 if c["dsrc"] == "stdin" and n_sub % 4 == 1 and n_slow < (6 if tier == "quick" else 60) else 0.0))
            n_slow += 1 if c["dsrc"] == "stdin" and n_sub % 4 == 1 else 0
        else:
            status, out, err, tb = run_inprocess(jp, argv, stdin_bytes)
        written = out
        if of is not None:
            # flush/close whatever argparse opened
            import gc  # noqa: PLC0415
            gc.collect()
            written_file = open(of, encoding="utf-8", errors="surrogatepass").read() if os.path.exists(of) else ""
        # ---- compare with the model's terminal state -------------------------------
        problems = []
        want_zero = g["status"] == "zero"
        if (status == 0) != want_zero:
            problems.append(f"exit status {status}, model says {g['status']}")
        if g["out"] == "complete":
            text = written_file if of is not None else written
            other = written if of is not None else ""
            try:
                got = json.loads(text)
                want = expected_values(jp, q, raw)
                if not core.kind_strict_equal(got, want):
                    problems.append("output is not find(q, doc).values()")
            except Exception as e:  # noqa: BLE001
                problems.append(f"output does not decode as JSON: {type(e).__name__}")
            if other.strip():
                problems.append("something else was written to stdout")
        else:
            if written.strip() or (of is not None and written_file.strip()):
                problems.append("a (partial) result was written although the run failed")
        lines = [ln for ln in err.splitlines() if ln.strip()]
        if g["err"] == "none" and (lines or tb):
            problems.append("stderr is not empty")
        if g["err"] == "oneline" and (tb or len(lines) != 1):
            problems.append(f"expected a one-line diagnostic, got {len(lines)} lines{' with a traceback' if tb else ''}")
        if g["err"] == "traceback" and not (tb or "Traceback" in err):
            problems.append("--debug given but no traceback")
        chk.evaluations += 1
        chk.nontrivial.add(json.dumps(c, sort_keys=True))
        if problems:
            chk.violation({"clause": problems[0].split(",")[0][:60], "qclass": c["q"], "dclass": c["d"], "debug": c["debug"]},
                          {"config": c, "query": q, "argv": [a if not a.startswith(tmp) else os.path.basename(a) for a in argv],
                           "document_class": c["d"], "model": {k2: g[k2] for k2 in ("out", "err", "status")},
                           "observed": {"status": status, "stdout": written[:300], "stderr": err[-600:], "traceback": tb},
                           "problems": problems, "subprocess": use_sub})
    # every (valid query, ascii document) pair under the plainest configuration (the seeded choice above covers the
    # configurations, not the pairs)
    plain = next(g for g in gens if g["cfg"]["q"] == "valid" and g["cfg"]["d"] == "ascii" and g["cfg"]["qsrc"] == "inline"
                 and g["cfg"]["dsrc"] == "stdin" and g["cfg"]["sink"] == "stdout" and not g["cfg"]["pretty"] and not g["cfg"]["debug"])
    for q in QUERIES["valid"]:
        for doc in DOCS["ascii"]:
            raw = doc_bytes("ascii", doc, rng)
            status, out, err, tb = run_inprocess(jp, ["-q", q], raw)
            chk.evaluations += 1
            problems = []
            if status != 0 or tb or err.strip():
                problems.append(f"exit status {status} / stderr not empty")
            else:
                try:
                    if not core.kind_strict_equal(json.loads(out), expected_values(jp, q, raw)):
                        problems.append("output is not find(q, doc).values()")
                except Exception as e:  # noqa: BLE001
                    problems.append(f"output does not decode as JSON: {type(e).__name__}")
            if problems:
                chk.violation({"clause": problems[0][:60], "qclass": "valid", "dclass": "ascii", "debug": False},
                              {"config": plain["cfg"], "query": q, "document": raw.decode("utf-8", "replace"), "argv": ["-q", q],
                               "model": {k2: plain[k2] for k2 in ("out", "err", "status")},
                               "observed": {"status": status, "stdout": out[:300], "stderr": err[-600:], "traceback": tb}, "problems": problems})
    # a slow producer on standard input: the document arrives (in two pieces) only after the tool has started waiting for it
    for q, doc in (("$.a", DOCS["ascii"][0]), ("$[*]", DOCS["ascii"][1]), ("$", b"[]"), ("$.k[*].a", DOCS["ascii"][0])):
        raw = doc_bytes("ascii", doc, rng)
        for extra in ([], ["--pretty"]):
            status, out, err, tb = run_subprocess(extra + ["-q", q], raw, delay=0.5)
            chk.evaluations += 1
            n_slow += 1
            problems = []
            if status != 0 or tb or err.strip():
                problems.append(f"exit status {status} / stderr not empty")
            else:
                try:
                    if not core.kind_strict_equal(json.loads(out), expected_values(jp, q, raw)):
                        problems.append("output is not find(q, doc).values()")
                except Exception as e:  # noqa: BLE001
                    problems.append(f"output does not decode as JSON: {type(e).__name__}")
            if problems:
                chk.violation({"clause": problems[0][:60], "qclass": "valid", "dclass": "ascii", "debug": False, "stdin": "slow producer"},
                              {"config": plain["cfg"], "query": q, "document": raw.decode("utf-8", "replace"), "argv": extra + ["-q", q],
                               "model": {k2: plain[k2] for k2 in ("out", "err", "status")}, "stdin": "written 0.5 s after start, in two pieces",
                               "observed": {"status": status, "stdout": out[:300], "stderr": err[-600:], "traceback": tb}, "problems": problems})
    chk.notes["slow_stdin_runs"] = n_slow
    # the front end keeps to itself: the module-level default environment is configured as before
    after = _env_snapshot(jp)
    if after != before_env:
        chk.violation({"clause": "the command-line tool changed the module-level default environment"},
                      {"before": before_env, "after": after})
    chk.traces += len(gens)
    chk.notes["subprocess_runs"] = n_sub
    chk.sample({"config": gens[17]["cfg"], "model": {k2: gens[17][k2] for k2 in ("out", "err", "status")}})
    chk.exhaustive = True
    chk.rule = (
        "every one of the 960 terminal states of Cli.tla run for real (in-process; "
        f"{n_sub} of them also as a subprocess), with a seeded query / document of the configuration's classes; distinct = configuration"
    )
    chk.assumptions = ["argparse's own failures (missing file, bad option) are outside C20's list and are not generated",
                       "byte-for-byte layout (ensure_ascii, indent width) is not pinned: the output must decode to the expected values"]


def replay(path: str) -> int:
    with open(path) as fh:
        v = json.load(fh)
    print(json.dumps(v["case"], indent=1, default=str)[:2500])
    return 0
