"""C12  str(query) is a faithful canonical form: it reparses to the same query.

TRACE  for each valid query q (seeds, repository test queries, seeded QueryGen
       texts: every selector kind, slices with omitted parts, names/literals over
       nasty characters, every number spelling, nestings of ! && || with and
       without parentheses, calls, embedded filters): s = str(compile(q)),
       whether compile(s) succeeds, str(compile(s)).  TLC checks: s is a valid
       query (Syntax + Typing), NF(Parse(s)) = NF(Parse(q)) - or, if the normal
       forms differ, that both select the same nodes on a witness pool (reported
       only with a witness) -, s2 = s, every string literal of s in canonical
       single-quoted form.
"""
from __future__ import annotations

import random

from .. import core, corpus, gen, impl
from . import common

EXTRA = [
    "$[?!(@.a == 1)]", "$[?!(!@.a)]", "$[?!(@.a && @.b)]", "$[?!(@.a || @.b) && @.c]", "$[?(@.a || @.b) && @.c]", "$[?@.a || @.b && @.c]",
    "$[?(@.a && @.b) || @.c]", "$[?@.a && (@.b || @.c)]", "$[?(@.a && @.b) && @.c]", "$[?@.a && (@.b && @.c)]", "$[?@.a || (@.b || @.c)]",
    "$[?!(@.a == 1 || @.b == 2)]", "$[?!(@.a == 1) || @.b == 2]", "$[?(!@.a) == false]" if False else "$[?!@.a && !@.b]",
    "$[?@ == 1.0e16]", "$[?@ == 1e-7]", "$[?@ == 1.5e-7]", "$[?@ == 1E2]", "$[?@ == 100]", "$[?@ == 1.0]", "$[?@ == -0]", "$[?@ == -0.0]",
    "$[?@ == 0e5]", "$[?@ == 123456789]", "$[?@ == 0.000001]", "$[?@ == 1e20]", "$[?@ == 2.5e+3]", "$[?@ == 1e15]", "$[?@ == 1.0e15]",
    "$[?@ == 'it''s']" if False else "$[?@ == 'it\\'s']", '$[?@ == "it\'s"]', "$[?@ == '\"']", '$[?@ == "\\""]', "$['\\\\']", "$['\\u0000\\u001f\\u007f']",
    "$['\\b\\f\\n\\r\\t\\/']", "$[\"\\ud83d\\ude00\"]", "$.😀", "$['a', \"b\", 'a\"b']", "$[1:2]", "$[:2]", "$[1:]", "$[::2]", "$[::-1]", "$[:]",
    "$[1:2:3, :, ::, 0]", "$..[1:2]", "$[?count(@[1:]) == 1]", "$[?match(@.a, 'x\\\\.y')]", "$[?search(@, \"a'b\")]",
    "$[?length(@.a) == length(@.b)]", "$[?value(@..a) == null && !match(@.b, 'c')]", "$[?@[?@[?@.a == $.b]]]", "$[?@.a, ?@.b]",
    # number literals that need 16 or 17 significant digits (outside the model's exact range: judged on behaviour)
    "$[?@ == 0.30000000000000004]", "$[?@ == 1.0000000000000002]", "$[?@ < 0.9999999999999999]", "$[?@ == 2251799813685249.5]",
    "$[?@ != 123456789.12345679]", "$[?@ == 1.0e400]", "$[?@ > -1.0e999]", "$[?@ == 2.0e308]", "$[?@ < 1.5e308]", "$[?@ == 1.0e-400]", "$[?@ == 1.0E+400 || @ == 1]",
    # integer literals with exponents far beyond what a double or a decimal string conversion holds (accepted or refused - but whatever
    # compiles must serialise)
    "$[?@ == 1e400]", "$[?@ == 1e4300]", "$[?@ < 12e4299]", "$[?@ > -1e5000]", "$[?@ == 1e309]", "$[?@ == 9e307]", "$[?@ != 1e308]", "$[?@ >= 1.0000000000000001e-7]", "$[?@ == 9007199254740993]", "$[?@ == 1e22]", "$[?@ == 12345678901234567890]",
    "$[-5:]", "$[-9:2]", "$[:-9]", "$[0][-5:]", "$..[-3:]", "$[-2:]", "$[-1:-9]", "$[9:]", "$[0][-4:-1]", "$.a[-7:]", "$[5][-3:1]", "$[?@[-3:]]",
    "$[?gl2(!@.a)]" if False else "$[?@['a b'] == 1]", "$[?$['\\n'] == @['\\t']]", "$[?@[0] == $[-1]]", "$[?true == false]", "$[?null == @]",
]


# witness values for number literals beyond 15 significant digits (used on the Python side only: "behaves alike")
FLOAT_WITNESS = [[0.30000000000000004, 0.3, 1.0000000000000002, 1.0, 0.9999999999999999, 2251799813685249.5, 2251799813685249.0, 2251799813685250.0,
                  1e-7, 1.0000000000000001e-7, 123456789.12345679, 123456789.12345678, 9007199254740993, 9007199254740992, 1e22, 10**22 + 1,
                  12345678901234567890, 12345678901234567168]]


def _enc_ok(d):
    try:
        core.enc_value(d)
        return True
    except core.Unrepresentable:
        return False


def run(chk: core.Check, tier: str, seed: int) -> None:
    jp = core.import_repo()
    rng = random.Random(seed)
    n = 6000 if tier == "quick" else 150000
    cands = list(dict.fromkeys(corpus.SEEDS + EXTRA + corpus.repo_test_queries() + corpus.valid_candidates(rng, n)))
    pool = [gen.rand_doc(rng, depth=3, width=3, names=gen.PLAIN_NAMES, p_container=0.8) for _ in range(3)]
    pool.append({"a": [0, 1, {"a": 1, "b": 2, "c": None}], "b": {"a": "x", "b": [1, [2]]}, "c": 1, "d": [{"a": 0}, {"b": False}]})
    pool.append([[1, 2, 3], {"a": {"b": 1}}, "ab", 0, None, [{"a": 1, "b": 1}, {"a": 2}]])
    # every presence combination of a, b, c, d (with values 1 / 2) as the children under test: tells groupings apart
    pool.append([{k: (1 if (m >> i) & 2 == 0 else 2) for i, k in enumerate("abcd") if (m >> i) & 1} for m in range(16)])
    pool_enc = []
    for d in pool:
        try:
            pool_enc.append(core.enc_value(d))
        except core.Unrepresentable:
            pass
    pool_py = [d for d in pool if _enc_ok(d)]
    recs = []
    # the serialisation is compiled on an environment with a past: queries rejected half-way through a filter, a parenthesis, a
    # call (whatever the parser counts on the way in must have been given back), and deep valid nestings
    rejected = ["$[?(@.a]", "$[?((@.a == 1)]", "$[?count(@.a]", "$[?@.a &&]", "$[?(@.a || )]", "$[?@[?(@.b]]", "$[?length((@.a) == 1]", "$[?!(@.a ==)]",
                "$[?(1)]", "$[?match(@.a, (1))]", "$[?((((@.a))) == 1]"]
    for k, q in enumerate(cands):
        if k % 40 == 0:
            for bad in rejected:
                try:
                    jp.compile(bad)
                except Exception:  # noqa: BLE001
                    pass
        r = impl.rec_str(jp, q, pool_enc, docs=pool_py + FLOAT_WITNESS)
        if r is not None:
            recs.append(r)
        else:
            # it did not compile: TLC decides whether it had to (a valid query without a serialisation is a violation here too)
            recs.append(impl.rec_compile(jp, q))
    # (nesting bounds, cf. C13's "generous size and nesting bounds": 90 for parentheses and negations, 60 for filters in filters -
    #  on the unchanged tree str() of 70 nested filters exhausts the interpreter's stack although compile() and find() manage)
    for depth in (20, 45, 90):
        fd = min(depth, 60)
        for q in ("$[?" + "(" * depth + "@.a" + ")" * depth + "]", "$[?" + "!(" * depth + "@.a" + ")" * depth + "]",
                  "$[?" + "@[?" * fd + "@.a" + "]" * fd + "]", "$[?" + "(" * depth + "@.a == 1" + ")" * depth + " && @.b]"):
            r = impl.rec_str(jp, q, pool_enc, docs=pool_py)
            if r is None:
                chk.violation({"clause": "C03 valid query rejected", "where": f"nesting {depth}"}, {"query": q})
            else:
                recs.append(r)
    # serialisation inside function arguments: a user function with a LogicalType parameter takes any logical expression
    from .. import probes  # noqa: PLC0415
    sigs = [("bl", ["L"], "L"), ("vl", ["V", "L"], "L")]
    lenv = probes.make_env(jp, sigs, [])
    lextra = {"reg": probes.reg_records(sigs)}
    largs = ["@.a", "!@.a", "!(@.a && @.b)", "!(@.a || @.b) && @.c", "(@.a || @.b) && @.c", "@.a || @.b && @.c", "!(@.a == 1)", "@.a == 1 || !(@.b < 2)",
             "!(!(@.a))", "bl(!(@.a && @.b))", "!bl(@.a || @.b)", "(@.a && @.b) || (@.c && @.d)", "!(@.a && (@.b || @.c))", "@[?!(@.a && @.b)]"]
    for a in largs:
        for q in (f"$[?bl({a})]", f"$[?!bl({a})]", f"$[?bl({a}) && @.c]", f"$[?vl(@.c, {a})]", f"$[?bl(bl({a}) || @.d)]"):
            r = impl.rec_str(jp, q, pool_enc, env=lenv, extra=lextra, docs=pool_py)
            if r is not None:
                recs.append(r)
    for r in recs:
        chk.nontrivial.add(tuple(r["q"]))
    chk.sample({"query": core.dec_text(recs[70]["q"]), "str": core.dec_text(recs[70]["s"]), "str2": core.dec_text(recs[70]["s2"])})
    chk.sample({"query": core.dec_text(recs[-1]["q"]), "str": core.dec_text(recs[-1]["s"])})

    def sig(rej, rec):
        s = {"clause": rej["clause"]}
        d = rej.get("detail") or []
        if rej["clause"].startswith("C12 str() text is not a valid query") and len(d) >= 3:
            text = core.dec_text(rec["s"])
            s["why"] = d[1]
            s["found"] = common.char_class(text, d[2])
        return s

    common.judge(chk, recs, "c12", what="Trace: str() round-trip records vs Syntax/Typing/Canon", sig=sig,
                 only=lambda c: c.startswith(("C12", "C03")))
    chk.rule = (
        f"{len(recs)} compiled queries out of {len(cands)} candidate texts (seeds, targeted parenthesisation / number / "
        f"string cases, repository test queries, {n} seeded QueryGen texts); witness pool of {len(pool_enc)} documents; "
        "distinct = distinct query text"
    )
    chk.assumptions = ["NF (Canon.tla): parentheses dropped, &&/|| chains flattened, default step made explicit, numbers by value; "
                       "a difference of normal forms is reported only with a witness document from the pool"]


replay = common.replay_generic
