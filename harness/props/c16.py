"""C16  Lazy result iterators are independent under any interleaving or threading.

GEN    Iters.tla: k <= 3 live iterators over (query, document) pairs with filters,
       nested filters and descendant segments, obtained from the same compiled
       query, the same environment or different ones; TLC enumerates EVERY
       interleaving of next() / abandon steps (the schedule is part of the state);
       each complete schedule is replayed into real iterators and every yielded
       item compared with the model's (IterIndependence is also a TLC invariant).
TRACE  threads: T in {2, 4, 8} threads under sys.setswitchinterval(1e-6), each
       compiling and iterating on a shared environment, plus a hand-over schedule
       where one iterator is advanced by alternating threads; each iterator's
       item sequence becomes a find record validated by TLC against Eval.tla (any
       merge order is allowed, so no ordering false alarm is possible).
"""
from __future__ import annotations

import json
import multiprocessing as mp
import random
import sys
import threading

from .. import core, gen, impl
from . import common

DA = [{"a": 1}, {"a": 2, "b": 1}, {"b": 3}, [{"a": 1}]]
DB = {"x": 1, "a": [1, [1, 2]], "b": {"a": 1}}
QUERIES = {"fq": "$[?@.a]", "nq": "$[?@[?@.a == 1]]", "dq": "$..a", "rq": "$..[?@ == $.x]", "wq": "$[*]"}
DOCS = {"da": DA, "db": DB}


def _replay_many(items):
    jp = core.import_repo()
    out = []
    # compiled queries and environments live across schedules: an iterator abandoned in one schedule
    # must not leave anything behind for the iterators of the next one
    envs = {"e1": jp.JSONPathEnvironment(), "e2": jp.JSONPathEnvironment(), "m": jp.DEFAULT_ENV}
    compiled = {}
    solos = {}
    for g in items:
        iters = []
        for ident in g["cfg"]:
            qn, dn, via = ident.split("_")
            q, d = QUERIES[qn], DOCS[dn]
            if via.startswith("c"):
                if ident not in compiled:
                    compiled[ident] = jp.compile(q)
                iters.append(iter(compiled[ident].finditer(d)))
            else:
                iters.append(iter(envs[via].finditer(q, d)))
        bad = None
        for k, st in enumerate(g["sched"]):
            i = st["it"] - 1
            if st["act"] == "abandon":
                iters[i] = None
                continue
            try:
                node = next(iters[i])
                got = [core.enc_loc(node.location)]
            except StopIteration:
                got = []
            except Exception as err:  # noqa: BLE001
                got = f"raised {type(err).__name__}: {err}"
            if got != st["item"]:
                bad = {"at": k, "iterator": st["it"], "expected": st["item"], "observed": got}
                break
        if bad is None:
            # after the schedule (abandoned iterators dropped and collected), a fresh iterator of each
            # compiled query still yields its solitary sequence
            iters = None          # drops (and thereby closes) every abandoned generator
            for ident, c in compiled.items():
                qn, dn, _via = ident.split("_")
                fresh = [core.enc_loc(n.location) for n in c.finditer(DOCS[dn])]
                if (qn, dn) not in solos:
                    solos[(qn, dn)] = [core.enc_loc(n.location) for n in jp.JSONPathEnvironment().find(QUERIES[qn], DOCS[dn])]
                solo = solos[(qn, dn)]
                if fresh != solo:
                    bad = {"at": len(g["sched"]), "iterator": ident, "expected": solo, "observed": fresh,
                           "note": "a fresh iterator after the schedule differs from a solitary run"}
                    break
        out.append(bad)
    return out


# the threaded runs also compute normalized paths (long names with characters that need escaping keep the
# serialiser busy) and go through queries with function calls whose arguments take a while
_LONG = "a rather long member name with 'quotes', \\ backslashes and \n control characters " * 2
TDOCS = dict(DOCS, dl={_LONG + "1": {_LONG + "2": [1, {_LONG + "3": 2}], "x": 1}, _LONG + "4": [{"a": 1}, {_LONG: 2}], "x": 1},
             dw=[{"a": [k, {"a": k}], "b": {"a": [k]}} for k in range(6)])
TQUERIES = dict(QUERIES, lq="$..*", cq="$[?count(@..a) > 1 && length(@.a) == 2]", vq="$[?count(@..a) > 0 || count($..a) > 3]",
                vq2="$[?count(@..*) > count(@.b..*)]", mq="$[?match(value(@.b.a), 'x') || count(@..*) == count($[0]..*)]")


def threaded_records(jp, rng, n_threads, rounds, chk):
    """Each thread compiles and iterates on a shared environment; returns find records."""
    env = jp.JSONPathEnvironment()
    QUERIES, DOCS = TQUERIES, TDOCS          # noqa: N806 - the threaded part has documents and queries of its own on top
    shared = {name: env.compile(q) for name, q in QUERIES.items()}
    jobs = []
    for t in range(n_threads):
        per = []
        for _ in range(rounds):
            qn = rng.choice(list(QUERIES))
            dn = rng.choice(list(DOCS))
            per.append((qn, dn, rng.choice(["shared", "own", "envfind"])))
        jobs.append(per)
    results = [[] for _ in range(n_threads)]
    barrier = threading.Barrier(n_threads)

    def work(t):
        barrier.wait()
        for qn, dn, how in jobs[t]:
            d = DOCS[dn]
            if how == "shared":
                it = shared[qn].finditer(d)
            elif how == "own":
                it = env.compile(QUERIES[qn]).finditer(d)
            else:
                it = env.finditer(QUERIES[qn], d)
            try:
                nodes = list(it)
                locs = [core.enc_loc(n.location) for n in nodes]
                paths = [core.enc_text(n.path()) for n in nodes]
                results[t].append((qn, dn, "ok", locs, "", paths))
            except Exception as err:  # noqa: BLE001
                results[t].append((qn, dn, "raise", [], type(err).__name__, []))

    old = sys.getswitchinterval()
    sys.setswitchinterval(1e-6)
    try:
        ths = [threading.Thread(target=work, args=(t,)) for t in range(n_threads)]
        for th in ths:
            th.start()
        for th in ths:
            th.join()
    finally:
        sys.setswitchinterval(old)
    recs = []
    for t in range(n_threads):
        for qn, dn, out, locs, cls, paths in results[t]:
            recs.append({"op": "find", "q": core.enc_text(QUERIES[qn]), "doc": core.enc_value(DOCS[dn]), "out": out, "stage": "find",
                         "jp": out == "ok", "cls": cls, "locs": locs, "threads": n_threads, "paths": paths})
    return recs


def hammer_records(jp, rng, n_threads, iterations, light=False):
    """All threads evaluate the SAME compiled query objects at the same time, each on a wide document of its own:
    whatever a compiled query keeps between calls (scratch buffers, cursors) is shared by the threads.
    light: tiny arrays of a different LENGTH per thread under index / slice selectors, many more iterations - whatever a
    selector remembers about 'the array it saw last' (normalised indices, ranges) is shared by the threads, and the window
    between two dependent stores is a couple of bytecodes wide."""
    env = jp.JSONPathEnvironment()
    if light:
        qs = ["$[1:]", "$[-2:]", "$[::2]", "$[-1]", "$[::-1]", "$[0, -1]", "$[:-1]", "$[-3::-1]"]
        docs = [list(range(3 + 2 * t)) for t in range(n_threads)]
    else:
        qs = ["$..*", "$..a", "$..[?@.a]", "$[?count(@..*) > 3]", "$..[?count(@.*) > 1 && @.a]", "$[*]..[0]", "$..[?@ == $.k]",
              "$.w[1:].b.c", "$.w[-3:].b.c", "$.w[*].a[::-1]", "$.w[-1].a[-1]"]
        docs = [{"k": t, "w": [{"a": [t, i, {"a": i, "b": [t]}], "b": {"a": [i, t], "c": t}} for i in range(10 + t)]} for t in range(n_threads)]
    shared = [env.compile(q) for q in qs]
    results = [[] for _ in range(n_threads)]
    barrier = threading.Barrier(n_threads)

    def work(t):
        barrier.wait()
        for it in range(iterations):
            k = (it + t) % len(shared)
            try:
                nodes = shared[k].find(docs[t])
                results[t].append((k, "ok", [core.enc_loc(n.location) for n in nodes], ""))
            except Exception as err:  # noqa: BLE001
                results[t].append((k, "raise", [], type(err).__name__))

    old = sys.getswitchinterval()
    sys.setswitchinterval(1e-6)
    try:
        ths = [threading.Thread(target=work, args=(t,)) for t in range(n_threads)]
        for th in ths:
            th.start()
        for th in ths:
            th.join()
    finally:
        sys.setswitchinterval(old)
    recs = []
    edocs = [core.enc_value(d) for d in docs]
    seen = set()
    for t in range(n_threads):
        for k, out, locs, cls in results[t]:
            key = (t, k, out, json.dumps(locs))
            if key in seen:
                continue                      # identical outcomes of the same (thread, query) are validated once
            seen.add(key)
            recs.append({"op": "find", "q": core.enc_text(qs[k]), "doc": edocs[t], "out": out, "stage": "find", "jp": out == "ok", "cls": cls,
                         "locs": locs, "threads": n_threads})
    return recs


FREED = [0]     # schedules given up because a thread blocked on a lock a suspended thread held (locking code is correct code)


def preempt_records(jp, rng, runs_per_scenario, only_shared_prefix=None):
    """Two (or three) threads under the line-granularity scheduler of harness/sched.py: only one runs at a time and the
    token changes hands at chosen 'line' events INSIDE the package - also where CPython itself never switches (between two
    consecutive stores).  Scenarios: one shared compiled query evaluated by every thread on a document of its own; one
    shared environment on which every thread compiles a text of its own and evaluates it.  Every thread's result is a find
    record (the specification computes what a solitary run gives); after each schedule one more solitary evaluation per
    thread checks that nothing inconsistent was left behind."""
    import os  # noqa: PLC0415

    from .. import sched  # noqa: PLC0415

    pkg = os.path.dirname(os.path.abspath(jp.__file__))
    deep = "$[?" + "(" * 60 + "@.a" + ")" * 60 + "]"
    scenarios = [
        ("shared", "$[1:]", [list(range(5)), list(range(3))]),
        ("shared", "$[-2:]", [list(range(3)), list(range(6)), list(range(4))]),
        ("shared", "$[::-1]", [[1, 2, 3], [4, 5]]),
        ("shared", "$[-1]", [[1, 2, 3], [4, 5]]),
        ("shared", "$[0, -1, 1:]", [[1, 2, 3, 4], [5, 6]]),
        ("shared", "$..[-1]", [[[1, 2], [3]], [[4], [5, 6, 7]]]),
        ("shared", "$..a", [{"a": {"a": 1}, "b": [{"a": 2}]}, [{"a": 3}, {"b": {"a": 4}}]]),
        ("shared", "$[?@.k == $.want].k", None),
        ("shared", "$[?count(@.*) > $.n]", None),
        ("shared", "$[?match(@.s, $.p)]", None),
        ("shared", "$.*", [{"a": 1, "b": 2}, {"c": 3}]),
        ("shared", "$[?@[?@ > $.n]]", None),
        ("env", ["$[?@.a == 1]", "$[?@.b && (@.a || !@.c)]"], [[{"a": 1}, {"a": 2}], [{"b": 1, "a": 0}, {"b": 0}]]),
        ("env", [deep, deep], [[{"a": 1}, {"b": 1}], [{"a": 0}, 5]]),
        ("env", ["$[?length(@.a) == 2]", "$[?count(@.a[*]) == 2]"], [[{"a": "xy"}, {"a": [1, 2]}], [{"a": [1, 2]}, {"a": [1]}]]),
        ("env", ["$['\\u0041', \"b\"]", "$['c\\n', 'd']"], [{"A": 1, "b": 2}, {"c\n": 3, "d": 4}]),
    ]
    special = {
        "$[?@.k == $.want].k": [{"want": 1, "x": {"k": 1}, "y": {"k": 2}}, {"want": 2, "x": {"k": 1}, "y": {"k": 2}}],
        "$[?count(@.*) > $.n]": [{"n": 1, "x": [1, 2], "y": [1]}, {"n": 0, "x": [1, 2], "y": [1]}],
        "$[?match(@.s, $.p)]": [{"p": "a.", "x": {"s": "ab"}, "y": {"s": "cb"}}, {"p": "c.", "x": {"s": "ab"}, "y": {"s": "cb"}}],
        "$[?@[?@ > $.n]]": [{"n": 1, "x": [1, 2], "y": [1]}, {"n": 0, "x": [0, 1], "y": [0]}],
    }
    if only_shared_prefix is not None:
        # (C07 borrows the index / slice scenarios)
        scenarios = [sc for sc in scenarios if sc[0] == "shared" and isinstance(sc[1], str) and sc[1].startswith(only_shared_prefix)]
    recs, seen = [], set()
    stuck = 0
    n_sched = 0

    def add(q, doc, outcome, tag):
        kind, val = outcome if outcome is not None else ("raise", RuntimeError("thread did not finish"))
        if kind == "ok":
            out, locs, cls = "ok", val, ""
        else:
            out, locs, cls = "raise", [], type(val).__name__
        key = (q, json.dumps(doc, sort_keys=True, default=str), out, json.dumps(locs), cls)
        if key in seen:
            return
        seen.add(key)
        recs.append({"op": "find", "q": core.enc_text(q), "doc": core.enc_value(doc), "out": out, "stage": "find",
                     "jp": out == "ok" or isinstance(val, jp.JSONPathError), "cls": cls, "locs": locs, "threads": tag})

    for kind, q, docs in scenarios:
        docs = docs if docs is not None else special[q]
        n = len(docs)

        def make():
            if kind == "shared":
                c = jp.JSONPathEnvironment().compile(q)
                bodies = [(lambda d=d: [core.enc_loc(x.location) for x in c.find(d)]) for d in docs]
                after = [(lambda d=d: [core.enc_loc(x.location) for x in c.find(d)]) for d in docs]
            else:
                env = jp.JSONPathEnvironment()
                bodies = [(lambda t=t, d=d: [core.enc_loc(x.location) for x in env.compile(t).find(d)]) for t, d in zip(q, docs)]
                after = [(lambda t=t, d=d: [core.enc_loc(x.location) for x in env.find(t, d)]) for t, d in zip(q, docs)]
            return bodies, after

        total = sched.count_steps(make()[0], pkg)
        if total < 4:
            raise core.MachineryError(f"the line scheduler saw only {total} line events for {q!r}: tracing is not in effect")
        texts = [q] * n if kind == "shared" else q
        # every single pre-emption point when that is affordable, else a sample; plus schedules with two and three of them
        singles = list(range(1, total + 1))
        if len(singles) > runs_per_scenario:
            singles = sorted(rng.sample(singles, runs_per_scenario))
        plans = [{k} for k in singles] + [set(rng.sample(range(1, total + 1), min(total, rng.choice([2, 3])))) for _ in range(runs_per_scenario // 2)]
        for plan in plans:
            bodies, after = make()
            s = sched.LineScheduler(bodies, plan, pkg)
            results = s.run(timeout=30.0)
            n_sched += 1
            FREED[0] += s.freed
            if s.stuck:
                stuck += 1
                if stuck > 3:
                    break
            for t in range(n):
                add(texts[t], docs[t], results[t], f"preempt{n}")
            for t in range(n):
                try:
                    add(texts[t], docs[t], ("ok", after[t]()), f"preempt{n}-after")
                except Exception as err:  # noqa: BLE001
                    add(texts[t], docs[t], ("raise", err), f"preempt{n}-after")
    if only_shared_prefix is None:
        # an environment WITH A PAST (300 distinct queries compiled): thread A asks again for texts that are the oldest entries of any
        # bounded least-recently-used cache of 64 / 128 / 256 queries, thread B compiles brand-new texts; A is pre-empted at each of the
        # first lines of each of its compile() calls (between a cache's look-up and its book-keeping, if there is a cache)
        doc = [{"a": k % 7, "b": [k % 3, k % 5]} for k in range(6)]
        text = lambda k: f"$[?@.a == {k % 7} && @.b[{k % 2}] <= {k // 7}]"  # noqa: E731
        olds = [300 - 64, 300 - 128, 300 - 256]       # newest first: asking for one must not disturb the age of the next

        def make_past():
            env = jp.JSONPathEnvironment()
            for k in range(300):
                env.compile(text(k))
            holder = {}
            marks = []

            def body_a():
                out = []
                for k in olds:
                    marks.append(holder["s"].step)
                    out.append([core.enc_loc(x.location) for x in env.compile(text(k)).find(doc)])
                return out

            def body_b():
                return [[core.enc_loc(x.location) for x in env.compile(text(k)).find(doc)] for k in (1000, 1001, 1002)]

            return env, holder, marks, [body_a, body_b]

        _env, holder, marks, bodies = make_past()
        dry = sched.LineScheduler(bodies, set(), pkg)
        holder["s"] = dry
        dry.run()
        entry_marks = list(marks)
        plans = [{m + j} for m in entry_marks for j in range(1, 16)]
        for plan in plans:
            _env, holder, marks, bodies = make_past()
            s = sched.LineScheduler(bodies, plan, pkg)
            holder["s"] = s
            results = s.run(timeout=30.0)
            n_sched += 1
            if s.stuck:
                stuck += 1
            for t, ks in ((0, olds), (1, (1000, 1001, 1002))):
                kind, val = results[t] if results[t] is not None else ("raise", RuntimeError("thread did not finish"))
                if kind == "ok":
                    for k, locs in zip(ks, val):
                        add(text(k), doc, ("ok", locs), "preempt2-env-with-a-past")
                else:
                    add(text(ks[0]), doc, (kind, val), "preempt2-env-with-a-past")
    return recs, n_sched, stuck


def fresh_env_records(jp, rng, n_threads, rounds):
    """A brand-new environment whose very first uses (compile + evaluate, with function calls) come from several
    threads at the same moment: whatever an environment sets up lazily is set up under contention."""
    docs = [[{"s": "abc", "a": [1, 2]}, {"s": "xbc", "a": [1]}, {"s": "a"}]]
    qs = ["$[?match(@.s, 'a.*') || count(@.a[*]) > 1]", "$[?search(@.s, 'bc') && length(@.a) >= 1]", "$[?value(@.a[0]) == 1 && !match(@.s, 'x.*')]"]
    out = []
    old = sys.getswitchinterval()
    sys.setswitchinterval(1e-6)
    try:
        for r in range(rounds):
            env = jp.JSONPathEnvironment()
            res = [None] * n_threads
            barrier = threading.Barrier(n_threads)

            def work(t, env=env, res=res, barrier=barrier, r=r):
                barrier.wait()
                q = qs[(t + r) % len(qs)]
                try:
                    res[t] = (q, "ok", [core.enc_loc(n.location) for n in env.find(q, docs[0])], "")
                except Exception as err:  # noqa: BLE001
                    res[t] = (q, "raise", [], type(err).__name__)

            ths = [threading.Thread(target=work, args=(t,)) for t in range(n_threads)]
            for th in ths:
                th.start()
            for th in ths:
                th.join()
            out += [x for x in res if x is not None]
    finally:
        sys.setswitchinterval(old)
    edoc = core.enc_value(docs[0])
    recs, seen = [], set()
    for q, o, locs, cls in out:
        key = (q, o, json.dumps(locs), cls)
        if key in seen:
            continue
        seen.add(key)
        recs.append({"op": "find", "q": core.enc_text(q), "doc": edoc, "out": o, "stage": "find", "jp": o == "ok", "cls": cls, "locs": locs,
                     "threads": n_threads})
    return recs


def compile_stress(jp, rng, n_threads, seconds, n_queries=320):
    """Several threads compile and evaluate MANY distinct queries on one shared environment
    (so that any bounded cache inside the environment keeps evicting).  Returns (records, errors)."""
    import time  # noqa: PLC0415

    env = jp.JSONPathEnvironment()
    doc = [{"a": k % 7, "b": [k % 3, k % 5], "s": ["abc", "aab", "xb", "ccx", "y", "abab", "aa", "b"][k % 8]} for k in range(12)]
    queries = [f"$[?@.a == {k % 7} && @.b[{k % 2}] <= {k // 7}]" for k in range(n_queries)]
    # regular expressions too: several different patterns in flight at the same time
    pats = ["a.*", "[a-c]+x", ".*b", "ab?c", "x|y", "[^a]b", "(ab)+", "a{2}"]
    queries += [f"$[?match(@.s, '{p}') || search(@.s, '{pats[(i + 3) % len(pats)]}')]" for i, p in enumerate(pats)] * 4
    n_queries = len(queries)
    edoc = core.enc_value(doc)
    errors = []
    samples = [[] for _ in range(n_threads)]
    stop = time.time() + seconds
    barrier = threading.Barrier(n_threads)

    def work(t):
        r = random.Random(t * 7919 + 13)
        barrier.wait()
        n = 0
        while time.time() < stop and not errors:
            q = queries[r.randrange(n_queries)] if r.random() < 0.8 else queries[(n * 17 + t) % n_queries]
            try:
                how = n % 3
                if how == 0:
                    nodes = env.find(q, doc)
                elif how == 1:
                    nodes = env.compile(q).find(doc)
                else:
                    nodes = list(env.finditer(q, doc))
                if n % 50 == 0 or "match" in q:
                    samples[t].append((q, [core.enc_loc(x.location) for x in nodes]))
            except BaseException as err:  # noqa: BLE001
                errors.append({"thread": t, "query": q, "error": f"{type(err).__name__}: {err}"[:200]})
                return
            n += 1

    old = sys.getswitchinterval()
    sys.setswitchinterval(1e-6)
    try:
        ths = [threading.Thread(target=work, args=(t,)) for t in range(n_threads)]
        for th in ths:
            th.start()
        for th in ths:
            th.join()
    finally:
        sys.setswitchinterval(old)
    recs = []
    for t in range(n_threads):
        picked = [x for x in samples[t] if "match" in x[0]][:150] + samples[t][:40]
        for q, locs in picked:
            recs.append({"op": "find", "q": core.enc_text(q), "doc": edoc, "out": "ok", "stage": "find", "jp": True, "cls": "",
                         "locs": locs, "threads": n_threads})
    return recs, errors


def handover_records(jp, rng, rounds):
    """One iterator advanced by two alternating threads (strict hand-over)."""
    recs = []
    for _ in range(rounds):
        qn = rng.choice(list(QUERIES))
        dn = rng.choice(list(DOCS))
        it = iter(jp.finditer(QUERIES[qn], DOCS[dn]))
        items = []
        turn = threading.Semaphore(1), threading.Semaphore(0)
        done = []

        def work(me):
            while True:
                turn[me].acquire()
                if done:
                    turn[1 - me].release()
                    return
                try:
                    items.append(core.enc_loc(next(it).location))
                except StopIteration:
                    done.append(1)
                turn[1 - me].release()

        ths = [threading.Thread(target=work, args=(m,)) for m in (0, 1)]
        for th in ths:
            th.start()
        for th in ths:
            th.join()
        recs.append({"op": "find", "q": core.enc_text(QUERIES[qn]), "doc": core.enc_value(DOCS[dn]), "out": "ok", "stage": "find",
                     "jp": True, "cls": "", "locs": items})
    return recs


def run(chk: core.Check, tier: str, seed: int) -> None:
    jp = core.import_repo()
    rng = random.Random(seed)
    cfgs = "MCConfigsSmall" if tier == "quick" else "MCConfigs"
    cfg = (f"SPECIFICATION Spec\nCONSTANTS\n  Configs <- {cfgs}\n  AllowAbandon = TRUE\n"
           "INVARIANT IterIndependence\nINVARIANT Export\nCHECK_DEADLOCK FALSE\n")
    res = core.require_ok(core.run_tlc("MC_Iters", cfg, name="mc_iters", heap="16g", timeout=6000, to_file=True), "MC_Iters")
    chk.add_tlc(f"MC_Iters {cfgs}: all interleavings of next/abandon, IterIndependence", res)
    # the thorough configurations export millions of schedules: they are streamed from TLC's output file in
    # rounds of NCPU x 400 and never held all at once
    n_gens = 0
    sample = None

    def rounds():
        batch = []
        with open(res.path) as fh:
            for line in fh:
                line = line.strip()
                if line.startswith('"GEN '):
                    batch.append(json.loads(json.loads(line)[4:]))
                    if len(batch) == 400 * core.NCPU:
                        yield batch
                        batch = []
        if batch:
            yield batch

    with mp.Pool(core.NCPU) as pool:
        for batch in rounds():
            chunks = [batch[i:i + 400] for i in range(0, len(batch), 400)]
            verdicts = [v for ch in pool.map(_replay_many, chunks) for v in ch]
            for g, bad in zip(batch, verdicts):
                chk.evaluations += 1
                chk.nontrivial.add(hash((tuple(g["cfg"]), tuple((s["it"], s["act"]) for s in g["sched"]))))
                if bad:
                    chk.violation({"clause": "iterator yielded a different item than its solitary run",
                                   "iterator_kind": g["cfg"][bad["iterator"] - 1] if isinstance(bad["iterator"], int) else bad["iterator"]},
                                  {"config": g["cfg"], "schedule": [(s["it"], s["act"]) for s in g["sched"]], "failure": bad,
                                   "queries": QUERIES})
            n_gens += len(batch)
            if sample is None:
                sample = batch[len(batch) // 2]
    if n_gens < 100:
        raise core.MachineryError(f"only {n_gens} schedules exported")
    gens = range(n_gens)
    chk.traces += n_gens
    chk.sample({"config": sample["cfg"], "schedule": [(s["it"], s["act"], s["item"]) for s in sample["sched"]]})
    # threads
    recs = []
    runs = 6 if tier == "quick" else 200
    for r in range(runs):
        for nt in (2, 4, 8):
            recs += threaded_records(jp, rng, nt, 12, chk)
    recs += handover_records(jp, rng, 30 if tier == "quick" else 600)
    for nt in ((4, 8) if tier == "quick" else (2, 4, 8, 16)):
        recs += hammer_records(jp, rng, nt, 60 if tier == "quick" else 600)
        recs += hammer_records(jp, rng, nt, 6000 if tier == "quick" else 60000, light=True)
        recs += fresh_env_records(jp, rng, nt, 150 if tier == "quick" else 3000)
    precs, n_sched, stuck = preempt_records(jp, rng, 40 if tier == "quick" else 1500)
    recs += precs
    chk.notes["preemption_schedules"] = n_sched
    chk.notes["preemption_schedules_released_because_a_thread_blocked_on_a_lock"] = FREED[0]
    if stuck:
        chk.violation({"clause": "a thread did not finish under a pre-emptive schedule"}, {"schedules_stuck": stuck})
    for nt in ((4, 8) if tier == "quick" else (2, 4, 8, 16)):
        srecs, errors = compile_stress(jp, rng, nt, 4.0 if tier == "quick" else 40.0)
        recs += srecs
        for e in errors:
            chk.violation({"clause": "a thread raised while compiling/evaluating on a shared environment", "error": e["error"].split(":")[0]},
                          {"threads": nt, **e})
    # function extensions: an iterator of environment A, while environments B, C are created / reconfigured
    from .. import probes  # noqa: PLC0415
    for rnd in range(4):
        sig = [("keep", ["V"], "L")]
        env_a = probes.make_env(jp, sig, [])                     # probe semantics: true iff the argument is not Nothing
        doc = [{"a": 1}, {"b": 2}, {"a": 0}, {"a": None}, 5, {"a": [1]}]
        q = "$[?keep(@.a)]" if rnd % 2 == 0 else "$[?keep(@.a) && !keep(@.b)]"
        it = iter(env_a.compile(q).finditer(doc) if rnd < 2 else env_a.finditer(q, doc))
        items = [core.enc_loc(next(it).location)]
        env_b = jp.JSONPathEnvironment()                         # a plain environment is constructed mid-iteration

        from jsonpath_rfc9535.function_extensions import ExpressionType, FilterFunction  # noqa: PLC0415

        class Never(FilterFunction):
            arg_types = [ExpressionType.VALUE]
            return_type = ExpressionType.LOGICAL

            def __call__(self, _value):
                return False

        class Other(jp.JSONPathEnvironment):
            def setup_function_extensions(self):
                super().setup_function_extensions()
                self.function_extensions["keep"] = Never()      # another environment's 'keep' answers differently

        env_c = Other()
        env_b.function_extensions["keep"] = env_c.function_extensions["keep"]
        items += [core.enc_loc(n.location) for n in it]
        recs.append({"op": "find", "q": core.enc_text(q), "doc": core.enc_value(doc), "out": "ok", "stage": "find", "jp": True, "cls": "",
                     "locs": items, "reg": probes.reg_records(sig)})
        del env_b, env_c
    # a stream of short-lived documents through one compiled query (an iterator per document, the document dropped first)
    recs += common.stream_records(jp, rounds=12 if tier == "quick" else 200)
    recs += common.stream_records(jp, env=jp.JSONPathEnvironment(), rounds=12 if tier == "quick" else 200)
    chk.notes["threaded_runs"] = runs * 3
    chk.sample({"threaded_record": {"query": core.dec_text(recs[0]["q"]), "threads": recs[0].get("threads"), "locs": recs[0]["locs"]}})
    common.judge(chk, recs, "c16_threads", what="Trace: per-iterator results of threaded runs vs Eval.tla")
    chk.exhaustive = True
    chk.rule = (
        f"{len(gens)} complete schedules = every interleaving of next()/abandon over the configurations of {cfgs} (2-3 live "
        f"iterators, same compiled query / same environment / different environments), each replayed item by item; {len(recs)} "
        "per-iterator results from threaded runs (2/4/8 threads, switch interval 1e-6, hand-over); distinct = distinct schedule"
    )
    chk.assumptions = ["pre-emptive thread schedules are sampled, not enumerated; only next()-granularity interleavings are exhaustive"]


def replay(path: str) -> int:
    with open(path) as fh:
        v = json.load(fh)
    print(json.dumps(v["case"], indent=1, default=str)[:2000])
    return 0
