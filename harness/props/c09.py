"""C09  String literals and member names decode exactly as RFC 9535 specifies.

MC     StringLit.tla, the decoder as a character-stepping state machine, explored
       by TLC over an escape alphabet: T7c machine = functional decoder in every
       state, T7b canonical spelling decodes back, T7a every spelling of every
       two-character string over 18 code points decodes back.
GEN    every explored state (quote, body, expected decoded string or reject) is
       replayed into the implementation: compile('$[<literal>]') must accept /
       reject accordingly, the name selected and the string compared must be the
       decoded sequence (spec -> code); long bodies by TLC simulation.
TRACE  range-compressed: every code point raw / \\uXXXX lower / upper / surrogate-
       pair escape in both quote styles; all boundary surrogate pairs, seeded
       pairs, lone and reversed surrogate escapes, truncated and unknown escapes
       as individual literal records, validated by TLC (Syntax!StringLit).
"""
from __future__ import annotations

import json
import multiprocessing as mp
import random

from .. import core, impl
from . import common


def observe(jp, lit: str):
    """('decoded', [cps]) or ('rejected', cls) for a candidate literal, through the public API:
    the decoded name is taken as a hint from the compiled selector and confirmed by
    selecting a member of that name and by comparing a string of that value."""
    q = f"$[{lit}]"
    # other environments (a differently configured sibling, one built on a more permissive parser_class) see the text first:
    # what they make of a literal is their own business
    if len(q) < 300:
        impl._sibling_first(jp, None, q)
    try:
        c = jp.compile(q)
    except jp.JSONPathError as err:
        return "rejected", type(err).__name__
    except Exception as err:  # noqa: BLE001
        return "rejected", "NON-JSONPATH " + type(err).__name__
    try:
        hint = c.segments[0].selectors[0].name
    except Exception:  # noqa: BLE001
        hint = None
    if not isinstance(hint, str):
        return "decoded", [-1]
    nodes = c.find({hint: 1, hint + "~": 2})
    by_name = len(nodes) == 1 and nodes[0].location == (hint,)
    try:
        cmp_nodes = jp.find(f"$[?@ == {lit}]", [hint + "~", hint])
        by_cmp = [n.location for n in cmp_nodes] == [(1,)]
    except Exception:  # noqa: BLE001
        by_cmp = False
    if by_name and by_cmp:
        return "decoded", core.enc_text(hint)
    return "decoded", [-2]


def _observe_many(lits):
    if not hasattr(_cp_form, "jp"):
        _cp_form.jp = core.import_repo()
    return [observe(_cp_form.jp, lit) for lit in lits]


def _cp_form(args):
    form, quote, cps = args
    if not hasattr(_cp_form, "jp"):
        _cp_form.jp = core.import_repo()
    jp = _cp_form.jp
    out = []
    q = chr(quote)
    for cp in cps:
        if form == "raw":
            lit = q + chr(cp) + q
        elif form == "u4l":
            lit = q + f"\\u{cp:04x}" + q
        elif form == "u4u":
            lit = q + f"\\u{cp:04X}" + q
        else:
            v = cp - 0x10000
            lit = q + f"\\u{0xD800 + (v >> 10):04X}\\u{0xDC00 + (v & 0x3FF):04x}" + q
        res, val = observe(jp, lit)
        out.append((cp, "self" if (res == "decoded" and val == [cp]) else ("rejected" if res == "rejected" else "other")))
    return form, quote, out


def run(chk: core.Check, tier: str, seed: int) -> None:
    jp = core.import_repo()
    rng = random.Random(seed)
    # ---- MC + GEN -----------------------------------------------------------------
    # (sizes: 29^4 x 2 quotes = 1.4 M states, 13^5 x 2 = 0.74 M; one more symbol each is 10-30 GB of exported states)
    runs = [("SigmaFull", 3 if tier == "quick" else 4, None), ("SigmaEsc", 4 if tier == "quick" else 5, None),
            ("SigmaHexQ", 13, 250 if tier == "quick" else 6000)]
    gen_states = {}
    for sigma, maxlen, sim in runs:
        cfg = (f"SPECIFICATION Spec\nCONSTANTS\n  Sigma <- {sigma}\n  MaxLen = {maxlen}\n  Quotes <- BothQuotes\n"
               "INVARIANT T7c\nINVARIANT T7b\nINVARIANT Export\nCHECK_DEADLOCK FALSE\n")
        res = core.run_tlc("MC_StringLit", cfg, name=f"mc_stringlit_{sigma}", heap="8g", timeout=3000,
                           simulate=(f"num={sim}" if sim else None), depth=(maxlen + 1 if sim else None),
                           seed=seed if sim else None)
        if sim:
            if "Error:" in res.out and "invariant" in res.out.lower():
                raise core.MachineryError("T7 violated in simulation:\n" + res.out[-2000:])
        else:
            core.require_ok(res, f"MC_StringLit {sigma}")
        chk.add_tlc(f"MC_StringLit {sigma} MaxLen={maxlen}" + (f" simulate num={sim}" if sim else " exhaustive") +
                    ": T7a (ASSUME), T7b, T7c", res)
        for line in res.out.splitlines():
            line = line.strip()
            if line.startswith('"GEN '):
                g = json.loads(json.loads(line)[4:])
                # compact: millions of these are held at once in the thorough tier
                gen_states[(g["quote"], tuple(g["body"]))] = (g["ok"], g["dead"], tuple(g["out"]) if g["ok"] else ())
        del res
    keys = list(gen_states)
    lits_gen = [chr(q) + core.dec_text(b) + chr(q) for q, b in keys]
    with mp.Pool(core.NCPU) as pool:
        observed = pool.map(_observe_many, [lits_gen[i:i + 2000] for i in range(0, len(lits_gen), 2000)])
    observed = [x for ch in observed for x in ch]
    for (quote, body), lit, (res, val) in zip(keys, lits_gen, observed):
        ok_, dead_, out_ = gen_states[(quote, body)]
        g = {"ok": ok_, "dead": dead_, "out": list(out_)}
        chk.evaluations += 1
        if g["ok"]:
            chk.nontrivial.add(lit)
            good = res == "decoded" and val == g["out"]
        else:
            good = res == "rejected" and not str(val).startswith("NON-JSONPATH")
        if not good:
            chk.violation(
                {"clause": "C09 decoder machine state not reproduced", "expected_ok": g["ok"], "observed": res,
                 "mode": "dead" if g["dead"] else ("complete" if g["ok"] else "incomplete")},
                {"literal": lit, "expected": ("decoded " + json.dumps(g["out"])) if g["ok"] else "rejected",
                 "observed": [res, val]},
            )
    chk.traces += len(gen_states)
    for (quote, body) in [k for k in keys if gen_states[k][0] and len(k[1]) > 8][:1] + keys[100:101]:
        chk.sample({"gen_state": {"literal": chr(quote) + core.dec_text(list(body)) + chr(quote), "ok": gen_states[(quote, body)][0],
                                  "out": list(gen_states[(quote, body)][2])}})

    # ---- TRACE: every code point, range-compressed ---------------------------------
    def cps_for(form):
        if form in ("raw",):
            full = [c for c in range(0, 0x110000) if not 0xD800 <= c <= 0xDFFF]
        elif form in ("u4l", "u4u"):
            full = list(range(0, 0x10000))          # surrogate code points included: lone escapes must be rejected
        else:
            full = list(range(0x10000, 0x110000))
        if tier != "quick":
            return full
        keep = set(full[:0x400]) | set(full[-0x40:]) | set(full[::211])
        for b in (0x7F, 0xD7FF, 0xD800, 0xDBFF, 0xDC00, 0xDFFF, 0xE000, 0xFFFF, 0x10000, 0x10FFFF):
            keep |= {c for c in range(b - 8, b + 9) if c in range(full[0], full[-1] + 1)}
        if form == "raw":
            keep = {c for c in keep if not 0xD800 <= c <= 0xDFFF}
        return sorted(keep)

    jobs = []
    for form in ("raw", "u4l", "u4u", "pair"):
        for quote in (39, 34):
            cps = cps_for(form)
            for i in range(0, len(cps), 3000):
                jobs.append((form, quote, cps[i:i + 3000]))
    with mp.Pool(core.NCPU) as pool:
        results = pool.map(_cp_form, jobs)
    per = {}
    for form, quote, out in results:
        per.setdefault((form, quote), []).extend(out)
    recs = []
    n_cp = 0
    for (form, quote), out in per.items():
        out.sort()
        n_cp += len(out)
        cur = None
        for cp, oc in out:
            contiguous = cur is not None and (tier == "quick" or cp == cur["hi"] + 1)
            if cur is not None and cur["res"] == oc and contiguous and not (cur["hi"] < 0xD800 <= cp and form == "raw"):
                cur["hi"] = cp
            else:
                cur = {"op": "litrange", "q": [], "form": form, "quote": quote, "lo": cp, "hi": cp, "res": oc}
                recs.append(cur)
    n_ranges = len(recs)
    for r in recs:
        chk.nontrivial.add(("range", r["form"], r["quote"], r["lo"], r["hi"]))
    # ---- TRACE: individual literals: surrogate pair boundaries, malformed escapes -------
    lits = []
    highs = [0xD800, 0xD801, 0xDBFE, 0xDBFF]
    lows = [0xDC00, 0xDC01, 0xDFFE, 0xDFFF]
    others = [0x0041, 0xD7FF, 0xE000, 0xFFFF, 0x0000]
    for q in "'\"":
        for h in highs + [rng.randrange(0xD800, 0xDC00) for _ in range(40 if tier == "quick" else 1500)]:
            for lo in lows + [rng.randrange(0xDC00, 0xE000) for _ in range(2)]:
                for hu, lu in ((True, True), (False, False), (True, False)):
                    hs = f"\\u{h:04X}" if hu else f"\\u{h:04x}"
                    ls = f"\\u{lo:04X}" if lu else f"\\u{lo:04x}"
                    lits.append(q + hs + ls + q)
            lits += [q + f"\\u{h:04X}" + q, q + f"\\u{h:04x}" + "x" + q, q + f"\\u{h:04x}\\n" + q, q + f"\\u{h:04x}\\u" + q,
                     q + f"\\u{h:04x}\\u{h:04x}" + q, q + f"\\u{h:04x}\\u0041" + q, q + f"\\u{h:04x}\\uDC0" + q]
        for lo in lows:
            lits += [q + f"\\u{lo:04X}" + q, q + f"\\u{lo:04x}\\u{highs[0]:04x}" + q]
        for o in others:
            lits += [q + f"\\u{o:04x}" + q, q + f"\\u{o:04x}\\u{lows[0]:04x}" + q]
        for body in ["", "a", "\\b\\f\\n\\r\\t\\/\\\\", "\\'", '\\"', "\\a", "\\x41", "\\0", "\\u", "\\u0", "\\u00", "\\u004", "\\u004g", "\\U0041",
                     "\\u 041", "\\", "\\\\\\", "a\\", "\t", "\n", "\x00", "\x1f", "\x7f", "'", '"', "a'b", 'a"b', "é😀", "\\u00e9\\ud83d\\uDE00",
                     "\\/", "/", "\\ud83d", "\\ude00", "\\ud83d\\ud83d\\ude00", "x\\u0000y", "\\u0000", "\\u001F", "\\u007f", " ", "\\ ", "\\e",
                     "\\N", "\\B", "\\u+041", "\\u-041", "\\uD83D\\uDE00\\uD83D\\uDE00", "\\\\u0041", "\\\\\\u0041"]:
            lits.append(q + body + q)
    from .. import corpus  # noqa: PLC0415
    for body in corpus.LITERAL_BODIES:
        for q in "'\"":
            lits.append(q + body + q)
    # every boundary high / low surrogate with every other boundary partner, both hex cases
    for h in (0xD800, 0xDBFE, 0xDBFF):
        for lo in (0xDC00, 0xDFFE, 0xDFFF):
            for q in "'\"":
                lits += [q + f"\\u{h:04x}\\u{lo:04X}" + q, q + "x" + f"\\u{h:04X}\\u{lo:04x}" + "y" + q]
    lits = list(dict.fromkeys(lits))
    for lit in lits:
        res, val = observe(jp, lit)
        recs.append({"op": "lit", "q": [], "text": core.enc_text(lit), "res": res, "val": val if res == "decoded" else [],
                     "cls": val if res == "rejected" else "", "nonjp": res == "rejected" and str(val).startswith("NON-JSONPATH")})
        if res == "decoded":
            chk.nontrivial.add(lit)
    chk.notes["code_point_form_observations"] = n_cp
    chk.notes["ranges"] = n_ranges
    chk.notes["individual_literals"] = len(lits)
    chk.sample({"litrange_records": [{k: v for k, v in r.items() if k not in ("q", "op")} for r in recs[:6]]})
    chk.sample({"lit_record": {"text": lits[3], "observed": [recs[n_ranges + 3]["res"], recs[n_ranges + 3]["val"]]}})
    rej, st = core.validate_records("Trace", recs, name="c09")
    chk.add_stats("Trace: literal and code-point range records vs Syntax!StringLit", st)
    chk.evaluations += n_cp + len(lits)
    chk.traces += len(recs)
    for r in rej:
        rec = recs[r["id"]]
        case = {k: v for k, v in rec.items() if k != "q"}
        if "text" in rec:
            case["literal"] = core.dec_text(rec["text"])
        case["spec_clause"], case["spec_detail"] = r["clause"], r["detail"]
        sig = {"clause": r["clause"]}
        if rec["op"] == "litrange":
            sig.update({"form": rec["form"], "res": rec["res"]})
        chk.violation(sig, case)
    chk.exhaustive = tier != "quick"
    chk.rule = (
        f"GEN: {len(gen_states)} decoder-machine states (exhaustive over 29 symbols to length {runs[0][1]}, 13 escape symbols to "
        f"length {runs[1][1]}, simulation over the hex/surrogate alphabet to length 13) replayed; TRACE: {n_cp} (code point, form, "
        f"quote) observations compressed to {n_ranges} ranges + {len(lits)} individual literals; non-trivial = distinct literal that decodes / range"
    )
    chk.assumptions = ["the decoded string is observed through name selection and string comparison (hint from the compiled selector, "
                       "confirmed through find())", "lone surrogates are outside Text: only their escapes are generated"]


def replay(path: str) -> int:
    jp = core.import_repo()
    with open(path) as fh:
        v = json.load(fh)
    lit = v["case"].get("literal")
    print("literal:", repr(lit), "expected:", v["case"].get("expected", v["case"].get("spec_detail")))
    if lit:
        print("observed:", observe(jp, lit))
    return 0
