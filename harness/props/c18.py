"""C18  Descendant traversal is bounded: deep/cyclic data raises JSONPathRecursionError.

MC     Descent.tla machines DetVisit / RndVisit over graph-shaped data (a node
       instance is a path of child positions, so cycles unfold): all graphs with
       <= 2 nodes (every self-loop, 2-cycle, shared child, object/array mix) for
       limits 1..3 (det) / 1..2 (rnd, every branch), seeded walks over 3-node
       graphs with limits 1..4: T8d_Outcome (raised iff the container nesting of
       the unfolding exceeds the limit, same in both modes), T8d_Progress +
       T8d_Bounded (every step lengthens the output, which is bounded: bounded
       time), T8d_Linear (on cyclic graphs the error comes after O(limit) steps
       in both modes, limits up to 6; the randomised machine has the depth probe
       of _check_depth as its first phase), T8d_Terminates (liveness under
       fairness).
GEN    every terminal state (graph, limit, mode, status) is materialised as real
       dict/list objects (cycles included) and find('$..*'), '$..a', '$..[?@]' run
       under a subclass with that max_recursion_depth: deterministic mode once,
       nondeterministic mode under the enumerating chooser (every outcome of every
       random choice, capped); the outcome class must be the model's, under a step
       / wall-clock guard.
TRACE  chains of depth limit-1, limit, limit+1 for limits 1..120 (object/array
       mixes, deep branch first / middle / last, scalar or empty container at the
       bottom), both modes: raise iff Nesting(doc) > limit (JsonVal!Nesting), the
       class JSONPathRecursionError, full result otherwise; validated by TLC.
"""
from __future__ import annotations

import json
import random

from .. import chooser, core, impl, probes
from . import common

QUERIES = ["$..*", "$..a", "$..[?@]", "$..[0]"]
# the limit counts from the node the descendant segment is applied to
PREFIXED = ["$.a..*", "$[0]..*", "$.*..a", "$[*]..[0]", "$.a.a..*", "$[0][0]..[?@]", "$[?@]..*",
            # a descendant segment inside a filter / a function argument: the error must not be swallowed there
            "$[?count(@..*) > 0]", "$[?@..a]", "$[?length(value(@..a)) > 0 || @]", "$.a[?count($..*) > 1]", "$[?match(value(@..a), 'x') || @]",
            "$[?@[?@..*]]"]


def materialise(g):
    n = len(g["kids"])
    objs = []
    for i in range(n):
        if not g["cont"][i]:
            objs.append(0)
        elif g["obj"][i]:
            objs.append({})
        else:
            objs.append([])
    for i in range(n):
        if g["cont"][i]:
            for pos, kid in enumerate(g["kids"][i]):
                if g["obj"][i]:
                    objs[i]["a" if pos == 0 else f"k{pos}"] = objs[kid - 1]
                else:
                    objs[i].append(objs[kid - 1])
    return objs[g["root"] - 1]


def is_cyclic(g) -> bool:
    """A cycle through containers is reachable from the root (the unfolding is infinite)."""
    kids, cont = g["kids"], g["cont"]
    state = {}

    def visit(i):
        if not cont[i - 1]:
            return False
        if state.get(i) == 1:
            return True
        if state.get(i) == 2:
            return False
        state[i] = 1
        for k in kids[i - 1]:
            if visit(k):
                return True
        state[i] = 2
        return False

    return visit(g["root"])


_COMPILED = {}


_TIMEOUTS = [0]
LINES = []


class _OverBudget(BaseException):
    """More line events inside the traversal than the model's step bound allows (not an Exception: nothing may swallow it)."""


def outcome(jp, env, q, doc, nondet, cap=400, line_budget=None):
    # one compiled query per (environment, text), re-applied to every later document: a traversal
    # abandoned by an earlier JSONPathRecursionError must leave nothing behind
    c = _COMPILED.get((id(env), q))
    if c is None:
        try:
            c = _COMPILED[(id(env), q)] = env.compile(q)
        except Exception as err:  # noqa: BLE001 - the battery's queries are valid: compiling one is not where a limit applies
            return {("escaped", "compile: " + type(err).__name__)}

    def one():
        def go_plain():
            try:
                return ("done", tuple(tuple(n.location) for n in c.find(doc)))
            except jp.JSONPathRecursionError:
                return ("raised", "JSONPathRecursionError")
            except RecursionError:
                return ("escaped", "RecursionError")
            except Exception as err:  # noqa: BLE001
                return ("escaped", type(err).__name__)

        def go():
            if line_budget is None:
                return go_plain()
            # bounded TIME as a count of executed lines inside the traversal code, not as wall-clock: the model bounds the number
            # of machine steps (T8d_Linear), a step of the machine is one loop iteration of the code
            import sys  # noqa: PLC0415
            count = [0]

            def local(frame, event, arg):
                if event == "line":
                    count[0] += 1
                    if count[0] > line_budget:
                        raise _OverBudget()
                return local

            def glob(frame, event, arg):
                return local if event == "call" and frame.f_code.co_filename.endswith(("segments.py", "selectors.py")) else None

            old = sys.gettrace()
            sys.settrace(glob)
            try:
                res = go_plain()
            except _OverBudget:
                res = ("overbudget", f"more than {line_budget} lines")
            finally:
                sys.settrace(old)
            LINES.append(count[0])
            if res[0] == "overbudget":
                _TIMEOUTS[0] += 1          # counts like an evaluation that did not finish: the check itself stays bounded
            return res

        # the first two evaluations that do not finish get 20 s each, later ones 3 s: the check itself stays bounded
        timed_out, res = impl.with_timeout(20.0 if _TIMEOUTS[0] < 2 else 3.0, go)
        if timed_out:
            _TIMEOUTS[0] += 1
        return ("timeout", "") if timed_out else res

    if not nondet:
        return {one()}
    results, _complete, _runs = chooser.explore(jp, one, cap=cap, stop=lambda r: r[0] in ("timeout", "overbudget"))
    return set(results)


def expected_wild(g):
    """The locations '$..*' must return in deterministic mode, from the model's visit order `out`
    (paths of child positions) and the graph."""
    kids, obj, root = g["kids"], g["obj"], g["root"]

    def key(node, pos):
        return ("a" if pos == 0 else f"k{pos}") if obj[node - 1] else pos

    res = []
    for p in g["out"]:
        node, loc = root, []
        for pos in p:
            loc.append(key(node, pos - 1))
            node = kids[node - 1][pos - 1]
        for i in range(len(kids[node - 1])):
            res.append(tuple(loc + [key(node, i)]))
    return tuple(res)


def chain(depth: int, shape: int, bottom: int):
    """A document with container nesting exactly `depth` (>= 1), as (python value, spine).
    The spine (outermost level first) lets the specification rebuild the value without a
    deeply nested JSON text: the JSON reader TLC uses stops at nesting 255."""
    leaf = 0 if bottom == 0 else ([] if bottom == 1 else {})
    inner = depth if bottom == 0 else depth - 1
    levels = []
    for level in range(inner):
        kind = (level + shape) % 2
        if kind == 0:
            if shape % 3 == 0:
                levels.append(("arr", [], [], None))
            elif shape % 3 == 1:
                levels.append(("arr", [0], [], None))
            else:
                levels.append(("arr", [], [0, [0]] if level > 0 else [0], None))
        else:
            if shape % 3 == 0:
                levels.append(("obj", [], [], "a"))
            elif shape % 3 == 1:
                levels.append(("obj", [("b", 0)], [], "a"))
            else:
                levels.append(("obj", [], [("z", 1)], "a"))
    levels.reverse()          # outermost first
    cur = leaf
    for kind, before, after, name in reversed(levels):
        if kind == "arr":
            cur = list(before) + [cur] + list(after)
        else:
            d = dict(before)
            d[name] = cur
            d.update(dict(after))
            cur = d
    spine = []
    for kind, before, after, name in levels:
        if kind == "arr":
            spine.append({"k": "arr", "before": [core.enc_value(x) for x in before], "after": [core.enc_value(x) for x in after]})
        else:
            spine.append({"k": "obj", "name": core.enc_text(name),
                          "before": [{"n": core.enc_text(k), "v": core.enc_value(v)} for k, v in before],
                          "after": [{"n": core.enc_text(k), "v": core.enc_value(v)} for k, v in after]})
    return cur, spine, core.enc_value(leaf)


def nesting(v) -> int:
    depth = 0
    stack = [(v, 1)]
    while stack:
        x, d = stack.pop()
        if isinstance(x, (list, dict)):
            depth = max(depth, d)
            for y in (x.values() if isinstance(x, dict) else x):
                stack.append((y, d + 1))
    return depth


def run(chk: core.Check, tier: str, seed: int) -> None:
    jp = core.import_repo()
    rng = random.Random(seed)
    base = ("SPECIFICATION DSpec\nCONSTANTS\n  Graphs <- MCGraphs\n  Limits = {lim}\n  Modes = {modes}\n"
            "INVARIANT T8b_Valid\nINVARIANT T8d_Outcome\nINVARIANT T8d_Bounded\nINVARIANT T8d_Linear\nINVARIANT T8d_ProbeFirst\n"
            "INVARIANT ExportDone\nPROPERTY T8d_Progress\n{live}CHECK_DEADLOCK FALSE\n")
    # (the larger limits are there for T8d_Linear: on cyclic graphs the error comes after at most 4 * (limit + 1) steps in BOTH
    #  modes - a traversal that only notices a too-deep instance when it is dequeued breadth-first needs 2^limit steps)
    runs = [("MC_DescentC2", "{1, 2, 3}", '{"det"}', None), ("MC_DescentC2", "{1, 2}", '{"rnd"}', None),
            ("MC_DescentC2", "{4, 6}", '{"det", "rnd"}', None),
            ]
    if tier != "quick":
        runs.append(("MC_DescentC3", "{1, 2, 3, 4}", '{"det", "rnd"}', 1500))
        # every graph of three ids (containers all objects or all arrays), exhaustively
        runs.append(("MC_DescentC3", "{1, 2, 3}", '{"det"}', None))
        runs.append(("MC_DescentC3", "{1, 2}", '{"rnd"}', None))
    terminal = {}
    for module, lim, modes, sim in runs:
        cfg = base.format(lim=lim, modes=modes, live="" if sim else "PROPERTY T8d_Terminates\n")
        res = core.run_tlc(module, cfg, name=f"{module}_{'sim' if sim else modes.count('det')}{lim.count(',')}", heap="12g", timeout=3000,
                           simulate=(f"num={sim}" if sim else None), depth=(60 if sim else None), seed=(seed if sim else None),
                           workers=(8 if sim else core.NCPU))
        if sim:
            if "Error:" in res.out and ("violated" in res.out or "is false" in res.out):
                raise core.MachineryError("Descent.tla invariant violated in simulation:\n" + res.out[-1500:])
        else:
            core.require_ok(res, module)
        chk.add_tlc(f"{module} limits {lim} modes {modes}" + (f" simulate num={sim}/worker depth 60" if sim else " exhaustive") +
                    ": T8b, T8d_Outcome, T8d_Bounded, T8d_Linear, T8d_ProbeFirst, T8d_Progress" + ("" if sim else ", T8d_Terminates"), res)
        for line in res.out.splitlines():
            line = line.strip()
            if line.startswith('"GEN '):
                g = json.loads(json.loads(line)[4:])
                key = (json.dumps([g["kids"], g["obj"], g["cont"]]), g["limit"], g["mode"])
                prev = terminal.get(key)
                if prev and prev["status"] != g["status"]:
                    raise core.MachineryError(f"the model reaches two outcomes for {key}")
                terminal[key] = g
    if len(terminal) < 50:
        raise core.MachineryError(f"only {len(terminal)} terminal cases exported")
    envs = {}
    order = list(terminal.items())
    rng.shuffle(order)
    # the exhaustive three-id graphs give about 50,000 terminal cases: TLC has checked the theorems on all of them; a seeded sample of
    # 8,000 (and every one- and two-id case) is materialised and run for real, which keeps the thorough tier within the hour
    three = [it for it in order if len(it[1]["kids"]) >= 3]
    if len(three) > 8000:
        keep = set(id(it) for it in three[:8000])
        order = [it for it in order if len(it[1]["kids"]) < 3 or id(it) in keep]
        chk.notes["three_id_cases_model_checked"] = len(three)
        chk.notes["three_id_cases_replayed"] = 8000
    for (gkey, limit, mode), g in order:
        doc = materialise(g)
        env = envs.setdefault((limit, mode), probes.make_env(jp, [], [], nondeterministic=(mode == "rnd"), max_depth=limit))
        if _TIMEOUTS[0] >= 6:
            # evaluations that do not finish are violations already recorded; the check itself must stay bounded
            chk.notes["stopped_early"] = "six evaluations did not finish within the time limit: the remaining generated cases were skipped"
            break
        for q in (QUERIES if tier != "quick" else QUERIES[:2] + [rng.choice(QUERIES[2:])]):
            # (limits beyond 3 exist for the time bound: a few outcomes of the random choices suffice there, and a tree on which
            #  every run needs 2^limit steps must not keep the check itself busy for hours)
            got = outcome(jp, env, q, doc, mode == "rnd", cap=(400 if limit <= 3 else 6))
            chk.evaluations += 1
            kinds = {o[0] for o in got}
            if g["status"] == "raised":
                chk.nontrivial.add((gkey, limit, mode, q))
            if kinds == {"done"} and g["status"] == "done" and mode == "det" and q == "$..*":
                want = expected_wild(g)
                if any(o[1] != want for o in got):
                    chk.violation({"clause": "deterministic result differs from the traversal model", "mode": mode},
                                  {"graph": {"kids": g["kids"], "obj": g["obj"], "cont": g["cont"]}, "limit": limit, "query": q,
                                   "expected": [list(x) for x in want], "observed": sorted(map(str, got))[:3]})
            if kinds != {g["status"]}:
                chk.violation({"clause": "outcome differs from the traversal model", "mode": mode, "expected": g["status"],
                               "observed": sorted(kinds)},
                              {"graph": {"kids": g["kids"], "obj": g["obj"], "cont": g["cont"]}, "limit": limit, "mode": mode,
                               "query": q, "expected": g["status"], "observed": sorted(map(str, got))})
    # ---- bounded TIME in terms of the limit: cyclic graphs under realistic limits ------------------------------
    # (T8d_Linear: the error comes after O(limit) steps; 2^limit steps at limit 30 are already 20 s, at the default 100 a hang)
    seen_cyc = set()
    for (gkey, _limit, _mode), g in order:
        if gkey in seen_cyc or not is_cyclic(g):
            continue
        seen_cyc.add(gkey)
        doc = materialise(g)
        for big in ((30, 100, 1000) if tier == "quick" else (30, 64, 100, 101, 1000, 3000)):
            for mode in ("det", "rnd"):
                env = envs.setdefault((big, mode), probes.make_env(jp, [], [], nondeterministic=(mode == "rnd"), max_depth=big))
                for q in ("$..*", "$..[?@]"):
                    if _TIMEOUTS[0] >= 6:
                        break
                    # T8d_Linear: at most 4 (limit + 1) machine steps; one step is one loop iteration of at most ~60 lines here
                    got = outcome(jp, env, q, doc, mode == "rnd", cap=8, line_budget=60 * 4 * (big + 1) + 400)
                    chk.evaluations += 1
                    chk.nontrivial.add((gkey, big, mode, q))
                    kinds = {o[0] for o in got}
                    if kinds != {"raised"}:
                        chk.violation({"clause": "self-referential data under a realistic limit: no JSONPathRecursionError in bounded time",
                                       "mode": mode, "observed": sorted(kinds)},
                                      {"graph": {"kids": g["kids"], "obj": g["obj"], "cont": g["cont"]}, "limit": big, "mode": mode,
                                       "query": q, "expected": "raised", "observed": sorted(map(str, got))[:3]})
    chk.notes["cyclic_graphs_at_realistic_limits"] = len(seen_cyc)
    if LINES:
        chk.notes["traversal_lines_executed_until_the_error (max, bound 240 per level)"] = max(LINES)
    chk.traces += len(terminal)
    any_t = next(iter(terminal.values()))
    chk.sample({"graph": {"kids": any_t["kids"], "obj": any_t["obj"], "cont": any_t["cont"]}, "limit": any_t["limit"], "mode": any_t["mode"],
                "status": any_t["status"]})
    # ---- TRACE: chains around the limit ----------------------------------------------
    recs = []
    limits = list(range(1, 121)) if tier != "quick" else [1, 2, 3, 4, 5, 7, 10, 16, 33, 64, 99, 100, 101, 120]
    for lim in limits:
        for mode in ("det", "rnd"):
            env = probes.make_env(jp, [], [], nondeterministic=(mode == "rnd"), max_depth=lim)
            # "the bound is the one configured on the environment": an environment whose limit is changed (on the
            # instance) after the query was compiled applies the limit it has when the query is applied
            env_re = probes.make_env(jp, [], [], nondeterministic=(mode == "rnd"), max_depth=lim + rng.choice([-1, 1, 2, 50]))
            compiled_early = {}
            # a prefixed descendant segment (after child segments, inside a filter) is applied one or two levels
            # down: the documents go two levels deeper for those, so that the node it is applied to is around the limit
            for depth in (lim - 1, lim, lim + 1, lim + 2, lim + 3):
                if depth < 1:
                    continue
                for shape in (range(6) if tier != "quick" else rng.sample(range(6), 2)):
                    for bottom in (0, 1, 2):
                        doc, spine, leaf = chain(depth, shape, bottom)
                        assert nesting(doc) == depth, (depth, shape, bottom, nesting(doc))
                        q = rng.choice(QUERIES + PREFIXED) if depth <= lim + 1 else rng.choice(PREFIXED)
                        rec = {"op": "depth", "q": core.enc_text(q), "spine": spine, "leaf": leaf, "limit": lim, "mode": mode,
                               "nesting": depth}
                        try:
                            if (shape + bottom + depth) % 3 == 0:
                                if q not in compiled_early:
                                    env_re.max_recursion_depth = lim + 3            # whatever it was when compiling
                                    compiled_early[q] = env_re.compile(q)
                                env_re.max_recursion_depth = lim
                                c = compiled_early[q]
                            else:
                                c = env.compile(q)
                        except Exception as err:  # noqa: BLE001
                            chk.violation({"clause": "a valid query was refused at compile time under a small recursion limit", "cls": type(err).__name__},
                                          {"query": q, "limit": lim, "mode": mode, "error": str(err)[:200]})
                            continue
                        try:
                            timed_out, nodes = impl.with_timeout(20.0 if _TIMEOUTS[0] < 8 else 2.0, c.find, doc)
                            _TIMEOUTS[0] += 1 if timed_out else 0
                            rec.update({"out": "timeout" if timed_out else "ok", "cls": "",
                                        "locs": [] if timed_out else [core.enc_loc(n.location) for n in nodes]})
                        except Exception as err:  # noqa: BLE001
                            rec.update({"out": "raise", "cls": type(err).__name__, "locs": []})
                        recs.append(rec)
    # limits beyond the interpreter's own recursion limit: nesting known by construction
    for lim, depth in ([(3000, 2500), (2000, 2500), (1200, 1200), (1200, 1201)] if tier == "quick"
                       else [(3000, 2500), (2000, 2500), (1200, 1200), (1200, 1201), (5000, 4999), (990, 1000), (1010, 1000), (10000, 9000)]):
        for mode in ("det", "rnd"):
            for kind in ("arr", "obj", "mix"):
                doc = 0
                for i in range(depth):
                    doc = [doc] if (kind == "arr" or (kind == "mix" and i % 2)) else {"a": doc}
                env = probes.make_env(jp, [], [], nondeterministic=(mode == "rnd"), max_depth=lim)
                rec = {"op": "depthbig", "q": core.enc_text("$..*"), "limit": lim, "mode": mode, "nesting": depth, "count": depth}
                try:
                    timed_out, nodes = impl.with_timeout(60.0, env.find, "$..*", doc)
                    rec.update({"out": "timeout" if timed_out else "ok", "cls": "", "n": 0 if timed_out else len(nodes)})
                except BaseException as err:  # noqa: BLE001
                    rec.update({"out": "raise", "cls": type(err).__name__, "n": 0})
                # break the chain iteratively: dropping a 10,000-deep structure must not recurse in the harness either
                while isinstance(doc, (list, dict)):
                    doc = doc[0] if isinstance(doc, list) else doc["a"]
                recs.append(rec)
    # the module-level functions and a plain environment (default limit 100): every entry point is bounded the same way,
    # and a query without a descendant segment is not bounded at all
    for depth in (99, 100, 101, 1500, 3000):
        for kind in ("arr", "obj"):
            for how in ("module.find", "module.finditer", "module.find_one", "env.find"):
                for q in ("$..*", "$.a" if kind == "obj" else "$[0]", "$"):
                    doc = 0
                    for _i in range(depth):
                        doc = [doc] if kind == "arr" else {"a": doc}
                    descends = ".." in q
                    rec = {"op": "depthbig", "q": core.enc_text(q), "limit": 100 if descends else 10**6, "mode": "det", "nesting": depth,
                           "count": depth if descends else 1}
                    fn = {"module.find": lambda: jp.find(q, doc), "module.finditer": lambda: list(jp.finditer(q, doc)),
                          "module.find_one": lambda: [jp.find_one(q, doc)], "env.find": lambda: jp.JSONPathEnvironment().find(q, doc)}[how]
                    if how == "module.find_one" and descends:
                        continue            # lazy: the first node may legitimately come before the error
                    try:
                        timed_out, nodes = impl.with_timeout(60.0, fn)
                        rec.update({"out": "timeout" if timed_out else "ok", "cls": "", "n": 0 if timed_out else len(nodes)})
                    except BaseException as err:  # noqa: BLE001
                        rec.update({"out": "raise", "cls": type(err).__name__, "n": 0})
                    while isinstance(doc, (list, dict)):
                        doc = doc[0] if isinstance(doc, list) else doc["a"]
                    recs.append(rec)
    cyc = []
    cyc.append(cyc)
    cyo = {"a": 1}
    cyo["self"] = [cyo]
    for doc in (cyc, cyo):
        for q, must in (("$..*", "raise"), ("$", "ok"), ("$[0]", "ok"), ("$.a", "ok")):
            for how, fn in (("module.find", lambda: jp.find(q, doc)), ("env.find", lambda: jp.JSONPathEnvironment().find(q, doc)),
                            ("module.find_one", lambda: jp.find_one(q, doc))):
                if how == "module.find_one" and ".." in q:
                    continue
                try:
                    timed_out, _nodes = impl.with_timeout(30.0, fn)
                    out, cls = ("timeout" if timed_out else "ok"), ""
                except BaseException as err:  # noqa: BLE001
                    out, cls = "raise", type(err).__name__
                chk.evaluations += 1
                if out != must or (out == "raise" and cls != "JSONPathRecursionError"):
                    chk.violation({"clause": "cyclic data through the module-level functions / a plain environment", "expected": must, "observed": out + " " + cls},
                                  {"query": q, "entry_point": how, "document": "self-containing " + type(doc).__name__, "expected": must, "observed": [out, cls]})
    for r in recs:
        chk.nontrivial.add((tuple(r["q"]), r["limit"], r["mode"], str(r.get("spine", [])[:2]), r["nesting"]))
    chk.sample({"chain_record": {"query": core.dec_text(recs[10]["q"]), "limit": recs[10]["limit"], "mode": recs[10]["mode"],
                                 "nesting": recs[10]["nesting"], "out": recs[10]["out"], "cls": recs[10]["cls"]}})

    def sig(rej, rec):
        return {"clause": rej["clause"], "mode": rec.get("mode")}

    rej, st = core.validate_records("Trace", recs, name="c18", timeout=3000)
    chk.add_stats("Trace: chains around the limit vs JsonVal!Nesting", st)
    chk.evaluations += len(recs)
    chk.traces += len(recs)
    for r in rej:
        rec = recs[r["id"]]
        chk.violation(sig(r, rec), {"query": core.dec_text(rec["q"]), "limit": rec["limit"], "mode": rec["mode"],
                                    "nesting": rec["nesting"], "out": rec["out"], "cls": rec["cls"],
                                    "spine_outermost_levels": rec.get("spine", [])[:3], "spec_clause": r["clause"],
                                    "spec_detail": r["detail"]})
    chk.exhaustive = True
    chk.rule = (
        f"{len(terminal)} (graph, limit, mode) cases = every graph with <= 2 nodes x limits 1..3 (det) / 1..2 (rnd, all branches) + "
        f"seeded 3-node graphs x limits 1..4, each materialised (cycles included) and run with {len(QUERIES)} queries, nondeterministic "
        f"mode under every outcome of the random choices (cap 400); {len(recs)} chain records for {len(limits)} limits x depth "
        "limit-1/limit/limit+1 x shapes x bottoms x modes; non-trivial = case that must raise / distinct chain record"
    )
    chk.assumptions = ["bounded time and memory are observed through the model's step bound and a 20 s wall-clock guard, not proved of the Python code",
                       "limits above the interpreter's own recursion limit are outside this check's grid (see DESIGN.md)"]


def replay(path: str) -> int:
    with open(path) as fh:
        v = json.load(fh)
    print(json.dumps(v["case"], indent=1, default=str)[:2000])
    return 0
