"""C07  Index and slice selectors implement RFC 9535 array arithmetic.

MC    Slice.tla (the RFC's pseudo-code as a PlusCal algorithm): T4a termination,
      T4b loop result = closed form / in range / monotone / step 0 empty,
      T4c clamping lemma (BIG stands for 2^53-1).
GEN   every Done state of the machine -> find('$[s:e:st]', [0..len-1]) must return
      exactly the indices in `out` (location and value), spec -> code.
TRACE text-level records (index selectors, 2^53-1 written out, objects with digit
      names, scalars, selector lists) validated by Trace.tla, code -> spec.
"""
from __future__ import annotations

import json
import random

from .. import core, impl

BIG_MODEL = 1073741823
BIG_REAL = 2**53 - 1


def _comp(c):
    if not c:
        return ""
    v = c[0]
    if v == BIG_MODEL:
        return str(BIG_REAL)
    if v == -BIG_MODEL:
        return str(-BIG_REAL)
    return str(v)


def slice_text(s, e, st, ws=("", "", "", "")):
    txt = f"{_comp(s)}{ws[0]}:{ws[1]}{_comp(e)}"
    if st:
        txt += f"{ws[2]}:{ws[3]}{_comp(st)}"
    return txt


def run(chk: core.Check, tier: str, seed: int) -> None:
    jp = core.import_repo()
    rng = random.Random(seed)
    maxlen, compmax = (6, 8) if tier == "quick" else (9, 11)
    cfg = (
        "SPECIFICATION Spec\nCONSTANTS\n"
        f"  MaxLen = {maxlen}\n  CompMax = {compmax}\n  Comps <- MCComps\n"
        "INVARIANT T4b_Closed\nINVARIANT T4b_InRange\nINVARIANT T4b_Monotone\nINVARIANT T4b_StepZero\n"
        "INVARIANT Export\nPROPERTY Termination\nPROPERTY T4a_Measure\nCHECK_DEADLOCK FALSE\n"
    )
    res = core.require_ok(core.run_tlc("MC_Slice", cfg, name="mc_slice", heap="12g", timeout=3000), "MC_Slice")
    chk.add_tlc("MC_Slice: T4a termination, T4b closed form/range/monotone, T4c clamping", res)
    # unbounded: the inductive invariant of the same procedure (SliceInd.tla) discharged by Apalache for ALL lengths and
    # ALL start / end / step values - every emitted index is a position of the array, emissions strictly monotone
    for label, args in (("base: Init => IndInv", ["--init=Init", "--inv=IndInv", "--length=0"]),
                        ("step: IndInv /\\ Next => IndInv'", ["--init=IndInit", "--inv=IndInv", "--length=1"])):
        ok, tail, wall = core.run_apalache("SliceInd", args, name="apa_slice_" + label[:4])
        if not ok:
            raise core.MachineryError(f"Apalache does not confirm SliceInd {label}:\n{tail}")
        chk.notes[f"apalache SliceInd {label}"] = f"NoError in {wall:.0f}s (unbounded integers)"
    # unbounded T4c: the clamping lemma (a component beyond the array may be replaced by any other one beyond it on the same
    # side; a step longer than the array emits the first index only) over arbitrary integers - what lets 2^30-1 stand for 2^53-1
    ok, tail, wall = core.run_apalache("ClampInd", ["--init=Init", "--inv=Clamp", "--length=0"], name="apa_clamp")
    if not ok:
        raise core.MachineryError(f"Apalache does not confirm ClampInd (T4c unbounded):\n{tail}")
    chk.notes["apalache ClampInd T4c"] = f"NoError in {wall:.0f}s (unbounded integers)"
    gen = []
    for line in res.out.splitlines():
        line = line.strip()
        if line.startswith('"GEN '):
            gen.append(json.loads(json.loads(line)[4:]))
    expected_done = (maxlen + 1) * (2 * compmax + 4) ** 3
    if len(gen) != expected_done:
        raise core.MachineryError(f"exported {len(gen)} Done states, expected {expected_done}")
    env = jp.JSONPathEnvironment()
    for g in gen:
        n = g["len"]
        arr = list(range(n))
        q = f"$[{slice_text(g['s'], g['e'], g['st'])}]"
        chk.evaluations += 1
        try:
            nodes = env.find(q, arr)
            got = [(nd.location, nd.value) for nd in nodes]
            want = [((i,), i) for i in g["out"]]
            ok = got == want and all(type(nd.location[0]) is int for nd in nodes)
            obs = [list(nd.location) for nd in nodes]
        except Exception as err:  # noqa: BLE001
            ok = False
            obs = f"raised {type(err).__name__}: {err}"
        if g["out"]:
            chk.nontrivial.add(q + "#" + str(n))
        if not ok:
            chk.violation(
                {"clause": "slice result differs from the RFC procedure", "step_sign": (g["st"] or [1])[0] > 0},
                {"query": q, "len": n, "expected_indices": g["out"], "observed": obs},
            )
    chk.traces += len(gen)
    chk.sample({"gen_state": gen[len(gen) // 3], "query": f"$[{slice_text(gen[len(gen)//3]['s'], gen[len(gen)//3]['e'], gen[len(gen)//3]['st'])}]"})

    # ---- TRACE: text-level records validated by the specification -----------
    recs = []
    vals = list(range(-compmax, compmax + 1)) + [BIG_REAL, -BIG_REAL, BIG_REAL - 1, 2**31, -(2**31) - 1, 2**32 + 1]
    for n in range(0, maxlen + 1):
        arr = [{"v": i} if i % 2 else i for i in range(n)]
        for i in vals:
            recs.append(impl.rec_find(jp, f"$[{i}]", arr, paths=True))
    blanks = ["", " ", "\n", "\t ", "\r"]
    comps = [None] + vals
    nrand = 1500 if tier == "quick" else 20000
    for _ in range(nrand):
        n = rng.randint(0, maxlen + 2)
        arr = list(range(n))
        s, e, st = (rng.choice(comps) for _ in range(3))
        ws = tuple(rng.choice(blanks) for _ in range(4))
        txt = slice_text([s] if s is not None else [], [e] if e is not None else [], [st] if st is not None else [], ws)
        form = rng.randint(0, 3)
        if form == 0:
            recs.append(impl.rec_find(jp, f"$[{txt}]", arr, paths=True))
        elif form == 1:
            recs.append(impl.rec_find(jp, f"$[{txt}, {rng.choice(vals)}]", arr, paths=True))
        elif form == 2:
            recs.append(impl.rec_find(jp, f"$.a[{txt}]", {"a": arr, "b": [9]}, paths=True))
        else:
            recs.append(impl.rec_find(jp, f"$..[{txt}]", [arr, [arr]], paths=True))
    # neither selector matches objects or scalars
    obj = {"0": "zero", "1": "one", "-1": "minus", "": "empty"}
    for q in ["$[0]", "$[1]", "$[-1]", "$[:]", "$[0:1]", "$[::-1]", "$[::0]", "$[1:0:-1]"]:
        for doc in (obj, "abc", 7, 1.5, None, True, [obj], ["abc"]):
            recs.append(impl.rec_find(jp, q, doc, paths=True))
            recs.append(impl.rec_find(jp, "$[*]" + q[1:], [doc], paths=True))
    # one compiled index / slice query shared by threads on arrays of DIFFERENT lengths, under the line-granularity scheduler of
    # harness/sched.py (every single pre-emption point): whatever a selector remembers about the last array it saw is wrong for the next
    from .c16 import preempt_records  # noqa: PLC0415
    precs, n_sched, stuck = preempt_records(jp, rng, 60 if tier == "quick" else 1500, only_shared_prefix="$[")
    for r in precs:
        r.pop("threads", None)
    recs += precs
    chk.notes["preemption_schedules"] = n_sched
    if stuck:
        chk.violation({"clause": "a thread did not finish under a pre-emptive schedule"}, {"schedules_stuck": stuck})
    for r in recs:
        r_q = core.dec_text(r["q"])
        if r.get("locs"):
            chk.nontrivial.add(r_q + "#" + str(len(r["doc"].get("xs", []))))
    rej, st = core.validate_records("Trace", recs, name="c07_trace")
    chk.add_stats("Trace: index/slice records", st)
    chk.evaluations += len(recs)
    chk.traces += len(recs)
    chk.sample({"trace_record": {"q": core.dec_text(recs[7]["q"]), "locs": recs[7]["locs"], "out": recs[7]["out"]}})
    for r in rej:
        rr = recs[r["id"]]
        chk.violation(
            {"clause": r["clause"]},
            {"query": core.dec_text(rr["q"]), "doc": core.dec_value(rr["doc"]), "observed": rr.get("locs"),
             "out": rr["out"], "cls": rr["cls"], "spec_detail": r["detail"]},
        )
    chk.exhaustive = True
    chk.rule = (
        f"GEN: every Done state of Slice.tla for len 0..{maxlen} x (start,end,step) in "
        f"{{omitted}} u -{compmax}..{compmax} u {{+-BIG}} (BIG rendered as 2^53-1) replayed as find('$[s:e:st]'); "
        "TRACE: index selectors over the same grid and seeded slice spellings (blank space, selector lists, "
        "nested, descendant) plus objects/scalars, validated by Trace.tla; non-trivial = distinct (query, len) "
        "with a non-empty selection"
    )
    chk.assumptions = [
        "TLC integers are 32-bit: magnitudes > 2*len are interchangeable (lemma T4c, checked by TLC) so 2^30-1 stands for 2^53-1",
        "the transcription of RFC 9535 2.3.4.2.2 in Slice.tla",
    ]


def replay(path: str) -> int:
    jp = core.import_repo()
    with open(path) as fh:
        v = json.load(fh)
    case = v["case"]
    doc = case.get("doc", list(range(case.get("len", 0))))
    try:
        nodes = jp.find(case["query"], doc)
        print("observed:", [list(n.location) for n in nodes])
    except Exception as err:  # noqa: BLE001
        print("observed: raised", type(err).__name__, err)
    print("expected:", case.get("expected_indices", case.get("spec_detail")))
    return 0
