"""C11  match() and search() implement I-Regexp whole-string / substring matching.

MC     MC_Regex.tla: T13 on small patterns/subjects: Match => Search; Search(p, s)
       iff some substring matches; '.' excludes exactly LF and CR.
TRACE  patterns generated from the RFC 9485 constructs (literals, escaped
       metacharacters, '.', classes with ranges / negation / category escapes,
       classes containing characters special in other dialects, groups,
       alternation, every quantifier form) and a list of invalid patterns, x
       subjects over {a b A 1 . | & ~ - [ SP LF CR U+2028 U+1F600 ...} and non-
       string values, pattern given as literal and as '$.p'; every find() is
       validated by TLC against IRegexp.tla (parse per RFC 9485 + set-of-end-
       positions matcher).  Patterns with '^'/'$' outside classes, '[^]',
       reversed ranges and large counts are declared don't-cares.
"""
from __future__ import annotations

import itertools
import random

from .. import core, gen, impl
from . import common

ATOMS = ["a", "b", "A", "1", ".", "\\.", "\\|", "\\[", "\\]", "\\-", "\\n", "\\r", "\\t", "\\\\", "\\(", "\\)", "\\*", "\\+", "\\?",
         "\\{", "\\}", "\\^", "\\$" if False else "\\.", ",", "-", " ", "&", "~", "😀", " ", "é", "=", "<", "!", "@", "/", "_",
         "[ab]", "[^a]", "[a-b]", "[.]", "[a|b]", "[a||b]", "[a&&b]", "[a~~b]", "[a--b]" if False else "[a\\-\\-b]", "[\\[a]", "[a-]",
         "[-a]", "[^-a]", "[a\\-b]", "[\\^a]", "[a^]", "[a-zA-Z]", "[^\\n]", "[\\n\\r]", "[ -~]", "[.-]", "[(a)]", "[a*]", "[a+?]",
         "[{1}]", "[\\]]", "[\\\\]", "[a,b]", "[😀]", "[é-ë]", "[0-9]", "[^a-b1]", "[!--]" if False else "[!-,]",
         "\\p{L}", "\\P{L}", "\\p{Lu}", "\\p{Ll}", "\\P{Lu}", "\\p{Nd}", "\\p{N}", "\\p{Zs}", "\\p{Z}", "\\p{P}", "\\p{Pd}", "\\p{S}",
         "\\p{Sm}", "\\p{C}", "\\p{Cc}", "\\p{So}", "\\P{So}", "[\\p{Nd}a]", "[^\\P{L}]", "[\\p{Lu}\\p{Nd}]", "[^\\p{Zs}a]", "[a\\p{Sm}-]"]
QUANTS = ["", "", "", "?", "*", "+", "{2}", "{1,2}", "{1,}", "{0}", "{0,1}", "{3}", "{2,3}", "{0,}"]
INVALID = ["\\d", "a*?", "a+?", "a??", "(?i)a", "(?:a)", "(?=a)", "(?<n>a)", "[[a]", "[a--b]", "\\bA", "a{,2}", "a**", "[]", "[a", "a)",
           "(a", "\\p{Xx}", "\\p{IsLatin}", "\\p{L", "\\pL", "{", "}", "]", "\\w", "\\S", "\\1", "a++", "a{1}{2}", "[a-b-c]", "[--a]",
           "*a", "+", "?", "a|*", "\\", "a\\", "[a\\]", "\\a", "\\e", "\\x41", "\\u0041", "\\cA", "[\\d]", "[\\w]", "a{1,2,3}", "a{a}",
           "a{1", "[^]a", "(?#c)a", "\\Z", "\\A", "[a-\\d]", "\\p{Lx}", "\\P{}", "[[:alpha:]]", "a{ 1}", "\\/", "\\'", "\\\"", "\\ ",
           "[a&&[b]]", "(*)"]
DONTCARE = ["^a", "a$", "^a$", "[^]", "[b-a]", "[z-a]", "x[9-0]y", "[^z-a]", "a{2,1}", "(ab){3,2}", "a{7}", "a{1,99}", "a{10000}", "[a-c-]{2,1}"]
SUBJ_ALPHA = ["a", "b", "A", "1", ".", "|", "&", "~", "-", "[", "]", " ", "\n", "\r", " ", "😀", "é", ",", "^", "(", "*", "\\",
              "{", "=", "!", "_", "+", "$",
              # what follows "(?" in other dialects, and other punctuation
              "?", ":", "<", ">", "#", "P", ")", "'", '"', "/", ";", "%", "@"]


CLASS_ITEMS = ["a", "b", "A", "1", ".", "|", "&", "~", "^", ",", "*", "+", "?", "(", ")", "{", "}", " ", "=", "!", "$", "😀", "é",
               "\\]", "\\[", "\\\\", "\\-", "\\^", "\\.", "\\n", "\\r", "\\t", "\\(", "\\*", "\\|", "\\{", "\\?",
               "a-c", "0-9", "A-Z", "!-,", " -~", "\\n-\\r", "\\p{L}", "\\P{Nd}", "\\p{Zs}", "\\p{Lu}"]


def rand_class(rng: random.Random) -> str:
    """A character class assembled from 1-5 items in random order (escaped brackets before dots, ...)."""
    items = [rng.choice(CLASS_ITEMS) for _ in range(rng.choice([1, 2, 2, 3, 3, 4, 5]))]
    neg = "^" if rng.random() < 0.3 else ""
    lead = "-" if rng.random() < 0.1 else ""
    tail = "-" if rng.random() < 0.15 else ""
    if not neg and not lead and items[0] == "^":
        items[0] = "\\^"
    return "[" + neg + lead + "".join(items) + tail + "]"


def rand_pattern(rng: random.Random, depth: int) -> str:
    def piece(d):
        k = rng.random()
        if d > 0 and k < 0.25:
            a = "(" + alt(d - 1) + ")"
        elif k < 0.45:
            a = rand_class(rng)
        else:
            a = rng.choice(ATOMS)
        return a + rng.choice(QUANTS)

    def branch(d):
        return "".join(piece(d) for _ in range(rng.choice([0, 1, 1, 2, 2, 3])))

    def alt(d):
        return "|".join(branch(d) for _ in range(rng.choice([1, 1, 1, 2, 3])))

    return alt(depth)


ATOM_EXAMPLES = {".": "x", "\\.": ".", "\\|": "|", "\\[": "[", "\\]": "]", "\\-": "-", "\\n": "\n", "\\r": "\r", "\\t": "\t", "\\\\": "\\",
                 "\\(": "(", "\\)": ")", "\\*": "*", "\\+": "+", "\\?": "?", "\\{": "{", "\\}": "}", "\\^": "^",
                 "\\p{L}": "a", "\\P{L}": "1", "\\p{Lu}": "A", "\\p{Ll}": "a", "\\P{Lu}": "a", "\\p{Nd}": "1", "\\p{N}": "1", "\\p{Zs}": " ",
                 "\\p{Z}": " ", "\\p{P}": "-", "\\p{Pd}": "-", "\\p{S}": "+", "\\p{Sm}": "+", "\\p{C}": "\n", "\\p{Cc}": "\n", "\\p{So}": "😀",
                 "\\P{So}": "a"}
ITEM_EXAMPLES = {"a-c": "b", "0-9": "1", "A-Z": "A", "!-,": "&", " -~": "~", "\\n-\\r": "\n", "\\p{L}": "a", "\\P{Nd}": "a", "\\p{Zs}": " ",
                 "\\p{Lu}": "A"}


def example_of_atom(atom: str, rng: random.Random) -> str:
    """A string the atom is meant to match (a proposal only: the specification decides)."""
    if atom == ".":
        # what '.' must and must not consume, wherever it stands in the pattern
        return rng.choice(["x", "x", "\r", "\n", "\u2028", "😀", " "])
    if atom in ATOM_EXAMPLES:
        return ATOM_EXAMPLES[atom]
    if atom.startswith("[") and atom.endswith("]"):
        body = atom[1:-1]
        if body.startswith("^"):
            return rng.choice(["z", "Q", "7", "_"])
        for it, ex in ITEM_EXAMPLES.items():
            if it in body and rng.random() < 0.5:
                return ex
        for ch in body:
            if ch not in "\\-^":
                return ch
        return "-"
    return atom if len(atom) == 1 else atom[-1]


def rand_pattern_ex(rng: random.Random, depth: int):
    """(pattern, example): a pattern and a string built alongside it that is meant to match."""
    def piece(d):
        k = rng.random()
        if d > 0 and k < 0.25:
            p, e = alt(d - 1)
            a, ex = "(" + p + ")", e
        elif k < 0.5:
            a = rand_class(rng)
            ex = example_of_atom(a, rng)
        else:
            a = rng.choice(ATOMS)
            ex = example_of_atom(a, rng)
        q = rng.choice(QUANTS)
        reps = {"": 1, "?": rng.choice([0, 1]), "*": rng.choice([0, 1, 2]), "+": rng.choice([1, 2]), "{2}": 2, "{1,2}": rng.choice([1, 2]),
                "{1,}": rng.choice([1, 3]), "{0}": 0, "{0,1}": rng.choice([0, 1]), "{3}": 3, "{2,3}": rng.choice([2, 3]), "{0,}": rng.choice([0, 2])}[q]
        return a + q, ex * reps

    def branch(d):
        ps = [piece(d) for _ in range(rng.choice([1, 1, 2, 2, 3]))]
        return "".join(p for p, _ in ps), "".join(e for _, e in ps)

    def alt(d):
        bs = [branch(d) for _ in range(rng.choice([1, 1, 1, 2, 3]))]
        return "|".join(p for p, _ in bs), rng.choice(bs)[1]

    return alt(depth)


_NESTED_Q = None


def nested_quantifier(pattern: str) -> bool:
    """A quantified group whose body contains a quantifier (star height >= 2 / nested counted repetition): a
    backtracking engine may need exponential time on it.  Evaluation TIME is outside the listed properties (C11 is
    about the language, C13 about termination within generous bounds): a wall-clock time-out on such a pattern is
    recorded as not judged, on any other pattern it is a violation."""
    depth_has_q = [False]
    i = 0
    in_class = False
    while i < len(pattern):
        c = pattern[i]
        if c == "\\":
            i += 2
            continue
        if in_class:
            in_class = c != "]"
        elif c == "[":
            in_class = True
        elif c == "(":
            depth_has_q.append(False)
        elif c == ")":
            inner = depth_has_q.pop() if len(depth_has_q) > 1 else False
            nxt = pattern[i + 1] if i + 1 < len(pattern) else ""
            if nxt and nxt in "*+?{":
                if inner:
                    return True
                depth_has_q[-1] = True
            elif inner:
                depth_has_q[-1] = True
        elif c in "*+?{":
            depth_has_q[-1] = True
        i += 1
    return False


def rand_subject(rng: random.Random) -> str:
    return "".join(rng.choice(SUBJ_ALPHA) for _ in range(rng.choice([0, 1, 1, 2, 2, 3, 3, 4])))


def run(chk: core.Check, tier: str, seed: int) -> None:
    jp = core.import_repo()
    rng = random.Random(seed)
    cfg = "SPECIFICATION Spec\nINVARIANT T13\nCHECK_DEADLOCK FALSE\n"
    res = core.require_ok(core.run_tlc("MC_Regex", cfg, name="mc_regex", heap="6g"), "MC_Regex")
    chk.add_tlc("MC_Regex: T13 (Match => Search; Search = exists substring Match; '.' excludes LF, CR)", res)
    sp0 = gen.Speller(rng, 0)
    sp2 = gen.Speller(rng, 2)
    short_subjects = [""] + SUBJ_ALPHA + ["ab", "ba", "aa", "a.", "a|b", "a&b", "a~b", "a-b", "a\nb", "a\rb", "a b", "😀😀", "a😀",
                                         "abc", "aab", "A1", "1a", "a b", "[a]", "a||b", "..", "-a", "a-"]
    patterns = list(ATOMS) + [a + q for a in ATOMS[:14] for q in QUANTS[3:]] + INVALID + DONTCARE
    n_rand = 400 if tier == "quick" else 12000
    patterns += [rand_pattern(rng, rng.choice([1, 2, 3])) for _ in range(n_rand)]
    patterns += [rand_class(rng) + rng.choice(["", "", "+", "*", "{2}"]) for _ in range(n_rand // 2)]
    directed = {}
    for _ in range(n_rand):
        pat, ex = rand_pattern_ex(rng, rng.choice([1, 2]))
        directed.setdefault(pat, []).append(ex)
    patterns += list(directed)
    patterns += ["[\\].]", "[\\]a-c.]+", "[.\\]]", "[\\[.]", "[\\\\.]", "[\\].][.]", "[^\\].]", "[a\\]|.]"]
    # '.' after / between / before classes and groups: its meaning does not depend on what came earlier in the pattern
    dot_patterns = ["[ab].", "[^a].", "[a].[b]", "a[b]..", "(.[a]).", "[a]|.", ".[a].", "[a][b].", "[a]+.*", "([a]|b).", "[\\]].", "[a-c]{2}.", "\\p{L}.",
                    "[.].", "a.", "(a).", "a|[b].", "a\\\\.b", "\\\\.", "\\\\[.]", "\\\\\\.", "a\\\\[b]", "\\\\.\\\\.", "[\\\\].", "\\..", "a\\-.", "\\[.", "(\\.).", "\\.|a.", "a\\..b", "\\n.", ".\\.", "\\(.\\)"]
    for dp in dot_patterns:
        directed.setdefault(dp, []).extend(["a\r", "b\n", "a\rb", "ab\r", "ba\r\r", "a\u2028", "]\r", "aa\r", ".\r", "b\r", "a-\r", "[\r", "a.\rb",
                                            "\n\r", "(\r)", "\r.",
                                            "a\\\rb", "a\\xb", "\\\r", "\\.", "\\\\\r", "a\\b", "\\x", "\\\n"])
    patterns += dot_patterns
    recs = []
    for p in patterns:
        if tier == "quick":
            subs = rng.sample(short_subjects, 9) + [rand_subject(rng) for _ in range(5)]
        else:
            subs = short_subjects + [rand_subject(rng) for _ in range(10)]
        exs = directed.get(p, [])
        if exs:
            # subjects built alongside the pattern: every example, and the last one with something around it
            ex = exs[-1]
            subs = list(dict.fromkeys([e[:14] for e in exs[:30]] + [ex[:14], "q" + ex[:13], ex[:13] + "\n", ex[:-1][:14], (ex + ex)[:16]])) + subs[:8]
        subs = subs + [1, None, True, ["a"], {"a": "a"}]
        doc = {"s": subs, "p": p}
        try:
            edoc = core.enc_value(doc)
        except core.Unrepresentable:
            chk.skipped += 1
            continue
        lit = (sp0 if rng.random() < 0.7 else sp2).string(p)
        mine = []
        for fn in ("match", "search"):
            mine.append(impl.rec_find(jp, f"$.s[?{fn}(@, {lit})]", doc, edoc=edoc))
        fn = rng.choice(["match", "search"])
        mine.append(impl.rec_find(jp, f"$.s[?{fn}(@, $.p)]", doc, edoc=edoc))
        if rng.random() < 0.2:
            mine.append(impl.rec_find(jp, f"$.s[?!{fn}(@, {lit}) && {fn}($.p, @)]", doc, edoc=edoc))
        if any(r.get("cls") == "TimeoutError" for r in mine) and nested_quantifier(p):
            # exponential backtracking on nested quantifiers: evaluation time is not judged (see nested_quantifier)
            chk.notes["regex_evaluations_too_slow_to_judge"] = chk.notes.get("regex_evaluations_too_slow_to_judge", 0) + 1
            impl._GUARD_HITS[0] = 0
            mine = [r for r in mine if r.get("cls") != "TimeoutError"]
        recs += mine
    # class membership, character by character: a class alone as the pattern, every probe character as a subject
    probe = list(dict.fromkeys(SUBJ_ALPHA + ["c", "z", "Z", "0", "9", "\t", "}"]))
    classes = [a for a in ATOMS if a.startswith("[")] + [rand_class(rng) for _ in range(150 if tier == "quick" else 4000)]
    classes += ["[(]", "[^(]", "[()]", "[(?:a)]", "[a(]", "[)(]", "[(|)]", "[^)(]", "[(?]", "[:(]"]
    for c in dict.fromkeys(classes):
        doc = {"s": probe, "p": c}
        try:
            edoc = core.enc_value(doc)
        except core.Unrepresentable:
            continue
        fn = rng.choice(["match", "search"])
        recs.append(impl.rec_find(jp, f"$.s[?{fn}(@, {sp0.string(c)})]", doc, edoc=edoc))
        if rng.random() < 0.3:
            recs.append(impl.rec_find(jp, f"$.s[?match(@, $.p)]", doc, edoc=edoc))
    # patterns taken from the data: strings, and every non-string kind (arrays, objects, missing)
    data = [{"s": "ab", "re": "a."}, {"s": "ab", "re": ["a."]}, {"s": "ab", "re": {"a": "."}}, {"s": "ab"}, {"s": "ab", "re": None},
            {"s": "ab", "re": 1}, {"s": ["ab"], "re": "a."}, {"re": "a."}, {"s": "ab", "re": "a.", "x": 1}, {"s": "b", "re": True}]
    for fn in ("match", "search"):
        for q in (f"$[?{fn}(@.s, @.re)]", f"$[?{fn}(@.s, value(@.re))]", f"$[?!{fn}(@.re, @.s)]", f"$[?{fn}(@.s, $[1].re)]",
                  f"$[?{fn}(@.s, $[3].re)]", f"$[?{fn}($[2].re, 'a')]", f"$[?{fn}(@.s, @.re) || {fn}(@.s, 'a.')]"):
            recs.append(impl.rec_find(jp, q, data))
    # non-string arguments of every kind
    for fn in ("match", "search"):
        for a in ["1", "null", "true", "@.nope", "$.s", "1.5"]:
            recs.append(impl.rec_find(jp, f"$.s[?{fn}(@, {a})]", {"s": ["a", "1", 1, None], "p": "a"}))
            recs.append(impl.rec_find(jp, f"$.s[?{fn}({a}, 'a')]", {"s": ["a", "1", 1, None], "p": "a"}))
    for r in recs:
        if r.get("locs"):
            chk.nontrivial.add(tuple(r["q"]) + (len(str(r["doc"])),))
    chk.sample({"query": core.dec_text(recs[100]["q"]), "subjects": core.dec_value(recs[100]["doc"])["s"][:8], "locs": recs[100]["locs"]})
    chk.sample({"query": core.dec_text(recs[200]["q"]), "pattern": core.dec_value(recs[200]["doc"])["p"], "locs": recs[200]["locs"]})
    common.judge(chk, recs, "c11", what="Trace: match/search records vs IRegexp.tla",
                 only=lambda c: c.startswith(("C13 find", "C03")) or not c.startswith(("C03", "C04", "C05", "C13")))
    chk.rule = (
        f"{len(patterns)} patterns ({len(ATOMS)} atoms, atoms x quantifier forms, {len(INVALID)} invalid, {len(DONTCARE)} "
        f"don't-care, {n_rand} seeded patterns of depth<=3) x 14+ subjects each (fixed short subjects over the special "
        "alphabet, seeded strings, non-string values) x match/search x literal/'$.p' pattern; non-trivial = distinct "
        "record selecting at least one subject"
    )
    chk.assumptions = [
        "RFC 9485 transcribed in IRegexp.tla; Unicode general categories only on the model alphabet (CatTable, cross-"
        "checked against Python's unicodedata by ./check selftest); subjects outside it with a category escape are skipped",
        "the third-party validity checker iregexp_check is part of the behaviour under test",
    ]


replay = common.replay_generic
