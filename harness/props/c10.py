"""C10  length/count/value and the function-call type conversions follow RFC 9535.

TRACE  (1) built-ins: length/count/value over children of every JSON kind, with
           '@' on container and scalar children, '$', singular / non-singular
           queries, literals (astral strings), nested calls;
       (2) probe functions of every signature {V,L,N}^n -> {V,L,N}, n <= 2,
           registered on a fresh environment: each call logs what it received
           per declared parameter type; TLC checks the logged argument lists
           against Eval!ArgFor (value / nothing / nodelist values / true-false)
           and the selection against the declared result type's use.
"""
from __future__ import annotations

import itertools
import random

from .. import core, gen, impl, probes
from . import common

KINDS = [0, 1, 2.5, "", "a", "ab", "😀é", True, False, None, [], [0], [1, 2], [[]], {}, {"a": 0}, {"a": "x", "b": [1]},
         {"a": {"a": 1}}, [{"a": 1}, {"a": 2}], {"b": None}]

BUILTIN_QUERIES = (
    [f"$[?length(@) == {k}]" for k in range(0, 4)]
    + [f"$[?length(@.a) == {k}]" for k in range(0, 3)]
    + [f"$[?count(@.*) == {k}]" for k in range(0, 3)]
    + [f"$[?count(@..*) == {k}]" for k in range(0, 4)]
    + [f"$[?count(@..a) == {k}]" for k in range(0, 3)]
    + [f"$[?count(@) == {k}]" for k in range(0, 3)]
    + ["$[?value(@.*) == 0]", "$[?value(@.*) == 'x']", "$[?value(@..a) == 1]", "$[?value(@) == @]", "$[?value(@.a) == @.a]",
       "$[?value(@.nope) == $.nope]", "$[?value(@.*) != 0]", "$[?length(value(@.*)) == 1]", "$[?length(@) == length($[4])]",
       "$[?length(@) == length('a')]", "$[?length('😀é') == 2]", "$[?length(\"\\ud83d\\ude00\") == 1]", "$[?length(@) == count(@.*)]",
       "$[?length(@) > 0]", "$[?length(@) <= 1]", "$[?length(@.nope) == 0]", "$[?length(@.nope) == $.nope]", "$[?length(1) == 1]",
       "$[?length(true) == $.nope]", "$[?length(null) == $.nope]", "$[?count($[*]) == 20]", "$[?count($..a) == 6]",
       "$[?value($[0]) == 0]", "$[?value($[*]) == $.nope]", "$[?count(@[?@ == 1]) == 1]", "$[?value(@[?@ != 1]) == 2]",
       "$[?length($[5]) == 2]", "$[?length(@) == 2 && count(@.*) == 2]", "$[?!match(@, 'a')]", "$[?length(@[0]) == 0]"]
)

V_ARGS = ["1", "'s'", "true", "null", "1.5", "@", "@.a", "$[1]", "@[0]", "@.nope", "$.nope", "kv(@.a)", "length(@)", "count(@.*)",
          "kv(kv(@))"]
N_ARGS = ["@.*", "@", "@..a", "$[*]", "@.nope", "hn(@.*)", "@[0,0]", "@[?@ == 1]", "$[0]"]
L_ARGS = ["@.a", "@.*", "@ == 1", "!@.a", "@.a && @.b", "@.a || @", "gl(@)", "hn(@.*)", "(@ == 0)", "!(@.a == 0)", "@.nope", "1 == 1",
          "nullable(@.a)", "truex(@.*)", "false_(@) == 0", "!nullable(@)",
          "match(@, 'a')", "!gl(@.a)", "$[?@ == 1]"]
BY_TYPE = {"V": V_ARGS, "N": N_ARGS, "L": L_ARGS}
HELPERS = [("kv", ["V"], "V"), ("gl", ["V"], "L"), ("hn", ["N"], "N"), ("nullable", ["V"], "L"), ("truex", ["N"], "N"), ("false_", ["V"], "V")]


def shapes(ret: str, call: str, rng: random.Random):
    if ret == "V":
        return [f"$[?{call} == {rng.choice(['1', '0', 'true', 'null', chr(39) + 's' + chr(39), '2'])}]", f"$[?{call} == @]",
                f"$[?kv({call}) != $.nope]"]
    if ret == "L":
        return [f"$[?{call}]", f"$[?!{call}]", f"$[?gl2({call})]"]
    return [f"$[?{call}]", f"$[?count({call}) == 1]", f"$[?!{call}]"]


def run(chk: core.Check, tier: str, seed: int) -> None:
    jp = core.import_repo()
    rng = random.Random(seed)
    recs = []
    doc = list(KINDS)
    edoc = core.enc_value(doc)
    for q in BUILTIN_QUERIES:
        recs.append(impl.rec_find(jp, q, doc, edoc=edoc))
        recs.append(impl.rec_find(jp, "$.o" + q[1:].replace("$[", "$.l["), {"o": {f"k{i}": v for i, v in enumerate(KINDS)}, "l": doc}))
    n_builtin = len(recs)
    # probes
    sigs = []
    for n in (0, 1, 2):
        for params in itertools.product("VLN", repeat=n):
            for ret in "VLN":
                sigs.append((list(params), ret))
    per_sig = 6 if tier == "quick" else 60
    probe_doc = [0, 1, "a", True, None, [], [1], [1, 1], {"a": 1}, {"a": 0, "b": 2}, {"a": [1]}, [{"a": 1}]]
    eprobe = core.enc_value(probe_doc)
    n_probe = 0
    # every environment exists before any of them is used, and they are used interleaved: a registry
    # shared between environments (or between an environment and the module default) shows up as the
    # wrong function being called
    worlds = []
    for params, ret in sigs:
        full = [("f", params, ret)] + HELPERS + [("gl2", ["L"], "L")]
        log = []
        worlds.append((params, ret, full, probes.reg_records(full), log, probes.make_env(jp, full, log)))
    jobs = []
    for w, (params, ret, full, reg, log, env) in enumerate(worlds):
        for _ in range(per_sig):
            args = [rng.choice(BY_TYPE[p]) for p in params]
            call = "f(" + ", ".join(args) + ")"
            for q in rng.sample(shapes(ret, call, rng), 2):
                jobs.append((w, q))
    rng.shuffle(jobs)
    for w, q in jobs:
        params, ret, full, reg, log, env = worlds[w]
        del log[:]
        rec = impl.rec_find(jp, q, probe_doc, env=env, extra={"reg": reg}, edoc=eprobe)
        rec["op"] = "probe"
        rec["fname"] = core.enc_text("f")
        rec["calls"] = [c["args"] for c in log if c["f"] == "f"]
        recs.append(rec)
        frec = dict(rec)
        frec["op"] = "find"
        recs.append(frec)
        n_probe += 1
    # the module-level functions still see the built-ins only
    for q in ["$[?length(@) == 1]", "$[?count(@.*) == 1]", "$[?value(@.*) == 1]", "$[?match(@, 'a')]", "$[?f(@)]", "$[?kv(@) == 1]"]:
        recs.append(impl.rec_find(jp, q, probe_doc, edoc=eprobe))
        recs.append(impl.rec_compile(jp, q))
    recs += common.inplace_edit_records(jp, common.ROOT_QUERIES)
    for r in recs:
        if r.get("locs") or r.get("calls"):
            chk.nontrivial.add((tuple(r["q"]), r["op"]))
    chk.sample({"query": core.dec_text(recs[3]["q"]), "locs": recs[3]["locs"]})
    pr = [r for r in recs if r["op"] == "probe" and r.get("calls")][7]
    chk.sample({"query": core.dec_text(pr["q"]), "signature": pr["reg"][0], "first_calls": pr["calls"][:3]})
    common.judge(chk, recs, "c10", what="Trace: built-in and probe function records vs Eval.tla",
                 only=lambda c: c.startswith(("C13 find", "C03")) or not c.startswith(("C03", "C04", "C05", "C13")))
    chk.rule = (
        f"{n_builtin} built-in records (length/count/value x {len(KINDS)} child kinds under an array and an object) + "
        f"{n_probe} probe records: all {len(sigs)} signatures over {{V,L,N}}^n->type (n<=2) x {per_sig} seeded argument "
        "choices (literals, '@' on scalars and containers, '$', singular/non-singular queries, nested calls, logical "
        "expressions) x 2 result uses; non-trivial = distinct query with a call logged or a node selected"
    )
    chk.assumptions = ["probe functions answer with Eval!ProbeResult (first argument only); evaluation strategy "
                       "(how often a call is made) is not constrained: argument lists are compared as sets"]


replay = common.replay_generic
