"""C08  Nodes carry exact locations and canonical, re-queryable normalized paths.

TRACE  (1) nodes returned by seeded queries (filters included, negative indices,
           reverse slices, descendant segments) on documents with nasty member
           names: location walked key by key from the root (containers must be
           the same object), path() = NormPath!NormalizedPath(location), the path
           re-queried returns exactly that node, values()/paths()/items() agree;
       (2) range-compressed, exhaustive in the thorough tier: for every code
           point U+0000..U+10FFFF except surrogates, alone, embedded ('a?b'), last ('a?') and first ('?b') in
           a member name: how path() spells it and whether the path re-queries;
           consecutive code points with the same outcome are grouped and TLC checks
           each claimed range with a universally quantified formula.
"""
from __future__ import annotations

import multiprocessing as mp
import random

from .. import core, gen, impl
from . import common


def _cp_outcome(cp: int):
    """(form, exact, requery) for code point cp - runs in a worker process."""
    jp = _cp_outcome.jp
    ch = chr(cp)
    ok_exact = True
    ok_requery = True
    form = None
    # alone, embedded, at the very end and at the very start of a name (anchored regular expressions and
    # first / last character special cases tell these apart)
    for name, pre, post in ((ch, "$['", "']"), ("a" + ch + "b", "$['a", "b']"), ("a" + ch, "$['a", "']"), (ch + "b", "$['", "b']")):
        doc = {name: 1, "zz": [name]}
        nodes = jp.find("$.*", doc)
        node = nodes[0]
        path = node.path()
        if not (path.startswith(pre) and path.endswith(post)):
            return ("malformed", False, False)
        body = path[len(pre): len(path) - len(post)]
        if body == ch:
            f = "raw"
        elif len(body) == 2 and body[0] == "\\":
            f = "esc"
            want = {8: "\\b", 9: "\\t", 10: "\\n", 12: "\\f", 13: "\\r", 39: "\\'", 92: "\\\\"}.get(cp)
            ok_exact = ok_exact and body == want
        elif len(body) == 6 and body.startswith("\\u00"):
            f = "u00xx"
            ok_exact = ok_exact and body == f"\\u{cp:04x}"
        else:
            f = "other"
            ok_exact = False
        if form is None:
            form = f
        elif form != f:
            form = "inconsistent"
        try:
            again = jp.find(path, doc)
            ok_requery = ok_requery and len(again) == 1 and again[0].location == (name,) and again[0].value == 1
        except Exception:  # noqa: BLE001
            ok_requery = False
    return (form, ok_exact, ok_requery)


def _cp_chunk(cps):
    if not hasattr(_cp_outcome, "jp"):
        _cp_outcome.jp = core.import_repo()
    return [(cp, _cp_outcome(cp)) for cp in cps]


def run(chk: core.Check, tier: str, seed: int) -> None:
    jp = core.import_repo()
    rng = random.Random(seed)
    recs = []
    n_q = 3000 if tier == "quick" else 40000
    from .. import probes  # noqa: PLC0415
    nd_env = probes.make_env(jp, [], [], nondeterministic=True)
    prev_doc = {"a": [{"a": [1, {"b": 2}]}, [3]], "b": {"a": {"a": 0}}}
    for k in range(n_q):
        names = gen.NASTY_NAMES if k % 2 == 0 else gen.PLAIN_NAMES
        d = gen.rand_doc(rng, depth=rng.randint(1, 4), width=rng.randint(1, 4), names=names, p_container=0.75)
        dn = sorted(gen.names_in(d)) or list(names[:2])
        qg = gen.QueryGen(rng, dn, level=rng.choice([0, 1, 2]))
        q = qg.query(depth=1, allow_filter=True) if k % 3 else "$" + rng.choice(["", "", "..*", "..[-1]", "..[::-1]", "[*][-1]", "..[?@]", ".*.*", "..a", "..[0]"])      # ("$": the root node itself)
        try:
            ed = core.enc_value(d)
            if k % 3 == 2:
                # the nodes of a compiled query that was used before: an evaluation over ANOTHER document abandoned after its
                # first node (find_one, a finditer dropped half-way) must leave nothing of that document behind
                cq = (nd_env if k % 4 == 1 else jp).compile(q)
                try:
                    cq.find_one(prev_doc)
                    it = iter(cq.finditer(prev_doc))
                    next(it, None)
                    next(it, None)
                    del it
                except Exception:  # noqa: BLE001
                    pass
                nodes = cq.find(d)
            else:
                nodes = (nd_env if k % 4 == 1 else jp).find(q, d)
            prev_doc = d
        except Exception:  # noqa: BLE001
            continue
        lists_ok = (nodes.values() == [n.value for n in nodes] and nodes.paths() == [n.path() for n in nodes]
                    and nodes.items() == [(n.path(), n.value) for n in nodes])
        for n in nodes[:12]:
            found, obj = impl.walk(d, n.location)
            rec = {"op": "requery", "q": core.enc_text(q), "doc": ed, "loc": core.enc_loc(n.location),
                   "path": core.enc_text(n.path()), "vok": bool(found and impl.same_object(obj, n.value)), "lists": lists_ok}
            try:
                again = jp.find(n.path(), d)
                rec["rout"], rec["cls"] = "ok", ""
                rec["rlocs"] = [core.enc_loc(a.location) for a in again]
                if len(again) == 1 and not impl.same_object(again[0].value, n.value):
                    rec["vok"] = False
            except Exception as err:  # noqa: BLE001
                rec["rout"], rec["cls"], rec["rlocs"] = "raise", type(err).__name__, []
            recs.append(rec)
    def node_records(q, d, ed, nodes):
        for n in nodes:
            found, obj = impl.walk(d, n.location)
            rec = {"op": "requery", "q": core.enc_text(q), "doc": ed, "loc": core.enc_loc(n.location),
                   "path": core.enc_text(n.path()), "vok": bool(found and impl.same_object(obj, n.value)), "lists": True}
            try:
                again = jp.find(n.path(), d)
                rec["rout"], rec["cls"] = "ok", ""
                rec["rlocs"] = [core.enc_loc(a.location) for a in again]
                if len(again) == 1 and not impl.same_object(again[0].value, n.value):
                    rec["vok"] = False
            except Exception as err:  # noqa: BLE001
                rec["rout"], rec["cls"], rec["rlocs"] = "raise", type(err).__name__, []
            recs.append(rec)

    # systematic floors under the sampling (what a seeded change was once caught by must not depend on a random document):
    # (a) indices and slices that have to be normalised / clamped, on arrays of every small length, at the top and below '..'
    for n_el in range(0, 5):
        for d in ([{"v": i} for i in range(n_el)], {"a": [[i] for i in range(n_el)], "b": list(range(n_el))}):
            ed = core.enc_value(d)
            for q in ("$[5::-1]", "$[3::-1]", "$[2::-1]", "$[-1::-1]", "$[::-1]", "$[-9:2]", "$[2:-9:-1]", "$[-1]", "$[-3]", "$[-4]", "$[9:0:-2]",
                      "$..[-1]", "$..[2::-1]", "$..[4::-2]", "$.a[-1][-1]", "$.b[-2:]", "$.a[3::-1][0]", "$..[-2, 0]"):
                try:
                    node_records(q, d, ed, jp.find(q, d))
                except Exception:  # noqa: BLE001
                    pass
    # (b) compiled queries with a descendant segment that first abandon an evaluation over ANOTHER document below its input node
    other = {"a": [{"a": [1, {"b": 2}]}, [3, [4]]], "b": {"a": {"a": 0}, "c": [5]}}
    for d in ({"x": [{"a": 1, "b": [2]}, [3]], "a": {"b": {"a": 4}}}, [[{"a": [1]}], {"b": [2, {"a": 3}]}]):
        ed = core.enc_value(d)
        for env_ in (jp, nd_env):
            for q in ("$..*", "$..a", "$..[0]", "$..[?@]", "$.a..*", "$..[-1]", "$..b..a", "$[*]..[0]"):
                try:
                    cq = env_.compile(q)
                    cq.find_one(other)
                    it = iter(cq.finditer(other))
                    next(it, None)
                    next(it, None)
                    next(it, None)
                    del it
                    node_records(q, d, ed, cq.find(d))
                except Exception:  # noqa: BLE001
                    pass
    # (c) EVERY nasty name as a member name once, at the top and below
    for name in gen.NASTY_NAMES:
        d = {name: 1, "z": {name: [2, {name: 3}]}}
        ed = core.enc_value(d)
        for q in ("$.*", "$..*"):
            for n in jp.find(q, d):
                found, obj = impl.walk(d, n.location)
                rec = {"op": "requery", "q": core.enc_text(q), "doc": ed, "loc": core.enc_loc(n.location),
                       "path": core.enc_text(n.path()), "vok": bool(found and impl.same_object(obj, n.value)), "lists": True}
                try:
                    again = jp.find(n.path(), d)
                    rec["rout"], rec["cls"] = "ok", ""
                    rec["rlocs"] = [core.enc_loc(a.location) for a in again]
                except Exception as err:  # noqa: BLE001
                    rec["rout"], rec["cls"], rec["rlocs"] = "raise", type(err).__name__, []
                recs.append(rec)
    # nodes far down: data nested 1,200 / 3,000 deep under an environment whose limit allows it.  The DEEP node is asked first
    # (location, path) - whatever a node computes lazily from its ancestors must not need the interpreter's stack.  (Too deep
    # for the JSON reader on the TLC side: judged here against the location the harness built the document with.)
    for depth in (1200, 3000):
        for kind in ("arr", "obj", "mix"):
            leaf = {"z": [7]}
            doc, loc = leaf, []
            for i in range(depth):
                if kind == "arr" or (kind == "mix" and i % 2):
                    doc, loc = [0, doc], [1] + loc
                else:
                    doc, loc = {"k'": doc, "b": 0}, ["k'"] + loc
            denv = probes.make_env(jp, [], [], max_depth=depth + 10)
            want_path = "$" + "".join(f"[{k}]" if isinstance(k, int) else "['k\\'']" for k in loc) + "['z']"
            for how in ("find_one", "last of find", "finditer"):
                problem = None
                try:
                    if how == "find_one":
                        node = denv.find_one("$..z", doc)
                    elif how == "last of find":
                        node = denv.find("$..*", doc)[-2]          # the member z (its element 7 comes last)
                    else:
                        node = next(iter(denv.finditer("$..z", doc)))
                    got_loc = list(node.location)
                    got_path = node.path()
                    if got_loc != loc + ["z"]:
                        problem = "location of a deep node is not where the node is"
                    elif got_path != want_path:
                        problem = "path() of a deep node is not the normalized path of its location"
                    elif node.value is not leaf["z"]:
                        problem = "value of a deep node is not the object at its location"
                except Exception as err:  # noqa: BLE001
                    problem = f"asking a deep node for its location / path raised {type(err).__name__}"
                chk.evaluations += 1
                if problem:
                    chk.violation({"clause": "C08 " + problem.split(" raised ")[0], "how": how},
                                  {"depth": depth, "kind": kind, "how": how, "problem": problem})
            del doc
    n_nodes = len(recs)
    for r in recs:
        chk.nontrivial.add((tuple(r["path"]), str(r["doc"])[:120]))
    # (2) every code point, range-compressed
    if tier == "quick":
        cps = list(range(0, 0x3000)) + list(range(0x3000, 0xD800, 97)) + list(range(0xD7F0, 0xD800)) \
            + list(range(0xE000, 0xE010)) + list(range(0xE010, 0x110000, 1009)) + list(range(0xFFF0, 0x10010)) \
            + list(range(0x10FFF0, 0x110000))
        cps = sorted(set(c for c in cps if not 0xD800 <= c <= 0xDFFF))
    else:
        cps = [c for c in range(0, 0x110000) if not 0xD800 <= c <= 0xDFFF]
    chunks = [cps[i:i + 4000] for i in range(0, len(cps), 4000)]
    with mp.Pool(core.NCPU) as pool:
        outcomes = [x for ch in pool.map(_cp_chunk, chunks) for x in ch]
    ranges = []
    for cp, oc in outcomes:
        # a range may only span code points that were all observed (consecutive in cps for thorough)
        if ranges and ranges[-1]["oc"] == oc and (tier == "quick" or cp == ranges[-1]["hi"] + 1) \
                and not (ranges[-1]["hi"] < 0xD800 <= cp):
            ranges[-1]["hi"] = cp
            ranges[-1]["n"] += 1
        else:
            ranges.append({"lo": cp, "hi": cp, "oc": oc, "n": 1})
    # in the quick tier a range lo..hi spans unobserved code points: split at form boundaries the
    # spec knows about is TLC's job (it quantifies over the whole range), so restrict the claim
    # to observed points by emitting singleton/contiguous ranges only where sampling is dense
    cprecs = []
    for rg in ranges:
        cprecs.append({"op": "cprange", "q": [], "lo": rg["lo"], "hi": rg["hi"], "form": rg["oc"][0], "exact": rg["oc"][1],
                       "requery": rg["oc"][2]})
    chk.notes["code_points_observed"] = len(cps)
    chk.notes["ranges"] = len(cprecs)
    chk.sample({"requery_record": {"query": core.dec_text(recs[5]["q"]), "path": core.dec_text(recs[5]["path"]), "rlocs": recs[5]["rlocs"]}})
    chk.sample({"cprange_records": [{k: v for k, v in r.items() if k not in ("q", "op")} for r in cprecs[:8]]})
    allrecs = recs + cprecs
    for r in cprecs:
        chk.nontrivial.add(("cprange", r["lo"], r["hi"]))

    def sig(rej, rec):
        s = {"clause": rej["clause"]}
        if rec["op"] == "cprange":
            s["form"] = rec["form"]
        return s

    def describe_case(rec):
        return rec

    rej, st = core.validate_records("Trace", allrecs, name="c08")
    chk.add_stats("Trace: requery and code-point range records vs NormPath.tla", st)
    chk.evaluations += n_nodes + len(cps)
    chk.traces += len(allrecs)
    for r in rej:
        rec = allrecs[r["id"]]
        case = {k: v for k, v in rec.items() if k not in ("doc",)}
        if "doc" in rec:
            case["doc"] = core.dec_value(rec["doc"])
            case["query"] = core.dec_text(rec["q"])
            case["path_text"] = core.dec_text(rec["path"])
        case["spec_clause"], case["spec_detail"] = r["clause"], r["detail"]
        chk.violation(sig(r, rec), case)
    chk.exhaustive = tier != "quick"
    chk.rule = (
        f"{n_nodes} nodes (up to 12 per query) from {n_q} seeded queries on documents with nasty member names; "
        f"{len(cps)} code points observed as member names (alone and embedded), compressed to {len(cprecs)} uniform ranges "
        "checked by TLC with a quantifier over each range; distinct = distinct (path, document) / range"
    )
    chk.assumptions = ["identity is demanded of containers only; an immutable scalar must be an equal value of the same JSON kind",
                       "in the quick tier code points between observed samples inherit the claim of their range (TLC quantifies over the whole range, so a wrong form inside a sampled range is still caught on the specification side)"]


def replay(path: str) -> int:
    import json  # noqa: PLC0415

    with open(path) as fh:
        v = json.load(fh)
    print(json.dumps(v["case"], indent=1, default=str)[:1500])
    return 0
