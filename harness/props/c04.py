"""C04  Every string outside the RFC 9535 grammar is rejected by compile().

MC     T1: the RFC grammar held as data (ABNF.tla, generic set-of-end-positions
       recogniser) and the recursive-descent parser (Syntax.tla) accept the same
       strings: all '$'+w with |w| <= 2 and a seeded sample of this run's texts.

TRACE  (1) every string '$' + w, w over a 27-symbol alphabet (one representative
           per lexical class), |w| <= 3 (quick) / 4 (thorough);
       (2) seeded sequences of up to 9 lexemes ($ .a ..a [ ] 'a' "a" 0 -1 01 -0 :
           , ? @ == < ! && || ( ) length( count( 1.5 1e1 true null * blank ...);
       (3) single-edit neighbours (delete, insert, substitute, transpose over the
           alphabet) of valid queries (seed list, repository test queries,
           generated queries): all of them for the seed list, seeded otherwise;
       (4) GEN: every text prefix u1..un suffix, n <= 3 (quick) / 5 (thorough), over
           five families of units (tokens and fragments) and templates, enumerated
           by TLC (MC_Parser.tla) - "every short token sequence";
       each compile() outcome is validated by TLC: a text outside the (lax)
       grammar must raise a JSONPathError.
"""
from __future__ import annotations

import itertools
import random

from .. import core, corpus, gen, impl
from . import common

ALPHA = list("$@.[]()*,:?!=<>&|'\"\\-+01eEa_ ") + ["\n", "é", "\x0c", "\xa0"]
LEXEMES = ["$", ".a", "..a", ".*", "..*", "..", ".", "[", "]", "'a'", '"a"', "0", "1", "-1", "01", "-0", "-", ":", ",", "?", "@", "==",
           "!=", "<", "<=", "=", "!", "&&", "||", "&", "|", "(", ")", "length(", "count(", "match(", "f(", "1.5", "1e1", "1.", ".5",
           "true", "null", "True", "NULL", "*", " ", "\n", "a", "'", "\\", "\\u", "#", "1:", "::", "@.a", "$.a", "@[0]", "'a', ", "\x0c", "\xa0",
           "\u2003", "\x0b", "\x85", "\ufeff"]
NEIGHBOUR_ALPHA = list("$@.[](),:?*!=<>&|'\"\\-+0 1eEaA_") + ["\n", "é", "😀", "\x01", "\x0c", "\x0b", "\xa0", "\u2003", "\x1f", "\x85", "\u2028", "\ufeff", "\x00"]


def run(chk: core.Check, tier: str, seed: int) -> None:
    jp = core.import_repo()
    rng = random.Random(seed)
    texts = []
    n = 3 if tier == "quick" else 4
    alpha = ALPHA if tier != "quick" else ALPHA
    for s in gen.short_strings(alpha, n):
        texts.append(s)
    n_short = len(texts)
    # strings not starting with '$'
    texts += ["", " $", "a", "@", "@.a", ".a", "[0]", "$$", "\n$", "$.a$", "x$"]
    texts += corpus.literal_queries() + corpus.skeletons(rng, 2 if tier != "quick" else 1) + corpus.SEEDS_INVALID_INTS
    n_seq = 15000 if tier == "quick" else 400000
    for _ in range(n_seq):
        k = rng.randint(1, 9)
        body = "".join(rng.choice(LEXEMES) for _ in range(k))
        texts.append(body if rng.random() < 0.1 else "$" + body)
    seeds = list(dict.fromkeys(corpus.SEEDS + corpus.repo_test_queries()))
    n_nb = 0
    for s in corpus.SEEDS:
        if tier == "quick" and len(s) > 14:
            nb = gen.neighbours(s, rng, 120)
        else:
            nb = list(gen.all_neighbours(s, NEIGHBOUR_ALPHA))
        texts += nb
        n_nb += len(nb)
    more = corpus.repo_test_queries() + corpus.valid_candidates(rng, 300 if tier == "quick" else 6000)
    for s in more:
        nb = gen.neighbours(s, rng, 25 if tier == "quick" else 120)
        texts += nb
        n_nb += len(nb)
    # (4) GEN: every text  prefix u1..un suffix  over five families of units (MC_Parser.tla, where TLC also checks
    #     T15: the implementation-shaped lexer + Pratt parser of Parser.tla rejects what the grammar rejects)
    from .. import parserconf  # noqa: PLC0415
    ugens, uruns = parserconf.unit_texts(tier, "c04_units", more={"logic": 4})
    for label, res in uruns:
        chk.add_tlc(label, res)
    texts += [core.dec_text(g["q"]) for g in ugens]
    chk.notes["unit_texts"] = len(ugens)
    texts = list(dict.fromkeys(texts))
    t1 = list(gen.short_strings(ALPHA, 2)) + rng.sample(texts, 1200 if tier == "quick" else 30000)
    common.t1_check(chk, [t for t in t1 if len(t) <= 60], "c04_t1")
    recs = [impl.rec_compile(jp, q) for q in texts]
    from .. import probes  # noqa: PLC0415
    bl = [("bl", ["L"], "L")]
    bl_env = probes.make_env(jp, bl, [])
    recs += [impl.rec_compile(jp, q, env=bl_env, extra={"reg": probes.reg_records(bl)}) for q in corpus.logical_param_skeletons(rng)]
    for r in recs:
        chk.nontrivial.add(tuple(r["q"]))
    chk.sample({"text": core.dec_text(recs[777]["q"]), "compile": recs[777]["out"]})
    chk.sample({"text": core.dec_text(recs[-1]["q"]), "compile": recs[-1]["out"]})
    common.judge(chk, recs, "c04", what="Trace: compile() outcomes vs Syntax (must-reject side)",
                 only=lambda c: c.startswith(("C04", "C13 compile raised")))      # "raise a JSONPathError": another exception is not a rejection
    chk.exhaustive = False
    chk.rule = (
        f"{n_short} strings '$'+w over {len(ALPHA)} symbols with |w|<={n} (complete), {n_seq} seeded lexeme sequences (<=9 of "
        f"{len(LEXEMES)} lexemes), {len(ugens)} unit texts enumerated by TLC (MC_Parser.tla), {n_nb} single-edit neighbours of {len(seeds)}+ valid queries; distinct = distinct text "
        f"({len(texts)})"
    )
    chk.assumptions = ["RFC 9535 Appendix A transcribed as Syntax.tla (cross-checked against the ABNF held as data, T1); "
                       "texts in the declared don't-care set are neither required to be accepted nor rejected"]


replay = common.replay_generic
