"""C19  Reported error positions are real positions in the query text.

MC     MC_ErrorPos.tla: T14 Offset(Position(text, off)) = off for all texts over
       {a, LF, CR} up to length 5 and every offset.
TRACE  every rejection produced by the C04 / C05 style corpora, and the same
       texts with LF / CR / CRLF / blanks injected at random positions (so the
       error lands on any line): (text, err.token.index, printed line, printed
       column) validated by TLC: 0 <= index <= Len(text) and (line, column) =
       Position(text, index).
"""
from __future__ import annotations

import random

from .. import core, corpus, gen, impl
from . import common
from .c04 import LEXEMES, NEIGHBOUR_ALPHA


def inject(text: str, rng: random.Random) -> str:
    out = []
    for ch in text:
        if ch == " " and rng.random() < 0.5:
            out.append(rng.choice(["\n", "\r\n", "\r", " \n ", "\n\n"]))
        elif ch in "[,?(" and rng.random() < 0.25:
            out.append(ch + rng.choice(["\n", "\r\n", "\n \n", "\r"]))
        elif ch in "])" and rng.random() < 0.2:
            out.append(rng.choice(["\n", "\n\n"]) + ch)
        else:
            out.append(ch)
    return "".join(out)


def run(chk: core.Check, tier: str, seed: int) -> None:
    jp = core.import_repo()
    rng = random.Random(seed)
    cfg = "SPECIFICATION Spec\nINVARIANT T14\nCHECK_DEADLOCK FALSE\n"
    res = core.require_ok(core.run_tlc("MC_ErrorPos", cfg, name="mc_errpos", heap="4g"), "MC_ErrorPos")
    chk.add_tlc("MC_ErrorPos: T14 Offset(Position(text, off)) = off", res)
    texts = []
    base = list(dict.fromkeys(corpus.SEEDS + corpus.repo_test_queries() + corpus.valid_candidates(rng, 400 if tier == "quick" else 8000)))
    for s in base:
        for nb in gen.neighbours(s, rng, 10 if tier == "quick" else 60):
            texts.append(nb)
            texts.append(inject(nb, rng))
        spaced = s.replace("[", "[ ").replace("]", " ]").replace(",", " , ").replace("==", " == ").replace("&&", " && ")
        for nb in gen.neighbours(inject(spaced, rng), rng, 6 if tier == "quick" else 30):
            texts.append(nb)
    for _ in range(3000 if tier == "quick" else 80000):
        k = rng.randint(1, 9)
        body = "".join(rng.choice(LEXEMES + ["\n", "\n", " \n"]) for _ in range(k))
        texts.append("$" + body)
    # typing / range errors on any line
    for q in ["$[?length(@.*) == 1]", "$[?count(1) == 1]", "$[?match(@.a, 'b') == true]", "$[?nosuch(@.a)]", "$[9007199254740992]",
              "$[?@.* == 1]", "$[?length(@.a)]", "$[?count(@.a, @.b) == 1]", "$[1:9007199254740992]", "$[?value(@..a)]"]:
        texts.append(q)
        for _ in range(6):
            pre = rng.choice(["$\n.a", "$ \n\n[0]", "$['a',\n'b']\n", "$\r\n.x"])
            texts.append(pre + inject(q[1:].replace("(", "( ").replace("==", " == "), rng))
    # wrong numbers of arguments, with the call at the very END of the query and arguments whose serialised form is longer than
    # their source text (shorthand names, no blanks): an offset computed from anything but the source runs past the text
    texts += corpus.typed_builtin_texts()
    args = ["@.a", "@.a.b", "$.a", "@['a']", "1", "'x'", "@.*", "@.a==1", "@..a", "true", "@"]
    for f in ("length", "count", "value", "match", "search"):
        for n in (0, 1, 2, 3):
            for _ in range(4):
                call = f + "(" + ",".join(rng.choice(args) for _ in range(n)) + ")"
                texts += [f"$[?{call}]", f"$[?{call}==1]", f"$.a[?!{call}]", f"$[?@.b&&{call}]", "$\n[?" + call + "]"]
    for t in corpus.literal_queries():
        texts.append(t)
        texts.append("$.a\n" + t[1:])
    for t in corpus.skeletons(rng):
        texts.append(t)
        texts.append(inject(t.replace("(", "( ").replace("==", " == ").replace("&&", " && "), rng))
    texts = list(dict.fromkeys(texts))
    recs = []
    rng.shuffle(texts)
    for t in texts:
        # a freshly built string object that is freed right after the call: anything the implementation
        # remembers about a query by identity is wrong for the next query that lands at the same address
        r = impl.rec_errpos(jp, (t + " ")[:-1])
        if r is not None:
            recs.append(r)
    held = [(t + " ")[:-1] for t in texts[:400]]
    for q in held:                       # and strings that stay alive
        r = impl.rec_errpos(jp, q)
        if r is not None:
            recs.append(r)
    # user-registered functions (a zero-parameter one, one- and two-parameter ones) called with every wrong number and kind of arguments:
    # the rejection must identify a position like any other
    from .. import probes  # noqa: PLC0415
    usigs = [("now", [], "V"), ("f0", [], "L"), ("f1", ["V"], "L"), ("g1", ["V"], "V"), ("n2", ["N", "V"], "N"), ("l2", ["L", "L"], "L")]
    uenv = probes.make_env(jp, usigs, [])
    uargs = ["@.a", "1", "'x'", "@.*", "@.a == 1", "g1(@.a)", "now()", "(@.a)", "!@.a", "@..a"]
    for name, params, ret in usigs:
        for n in range(0, 4):
            for _ in range(3 if n else 1):
                call = name + "(" + ", ".join(rng.choice(uargs) for _ in range(n)) + ")"
                for q in (f"$[?{call}]", f"$[?{call} > 1]", f"$.a\n[?!{call} || @.b]", f"$[?count({call}) == 1]", f"$[?\n {call} == {call}]"):
                    r = impl.rec_errpos(jp, q, env=uenv)
                    if r is not None:
                        recs.append(r)
    for r in recs:
        if 10 in r["q"]:
            chk.nontrivial.add(tuple(r["q"]))
    multi = [r for r in recs if 10 in r["q"] and r["line"] > 1]
    chk.notes["rejections_reported_beyond_line_1"] = len(multi)
    if multi:
        m = multi[len(multi) // 2]
        chk.sample({"text": core.dec_text(m["q"]), "index": m["index"], "line": m["line"], "col": m["col"], "cls": m["cls"]})
    chk.sample({"text": core.dec_text(recs[0]["q"]), "index": recs[0]["index"], "line": recs[0]["line"], "col": recs[0]["col"]})

    def sig(rej, rec):
        return {"clause": rej["clause"], "cls": rec.get("cls"), "has_token": rec["index"] >= 0}

    common.judge(chk, recs, "c19", what="Trace: error positions vs ErrorPos!Position", sig=sig)
    chk.rule = (
        f"{len(recs)} rejected texts out of {len(texts)} (single-edit neighbours of valid queries with LF/CR/CRLF injected "
        "at blank-space positions, lexeme sequences with newlines, typing/range errors after multi-line prefixes); "
        "non-trivial = distinct rejected text containing LF"
    )
    chk.assumptions = ["line 1-based, column 0-based, LF the only line terminator (the convention the repository's CLI tests pin)"]


replay = common.replay_generic
