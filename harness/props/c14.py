"""C14  Evaluation is pure and repeatable; queries and environments do not interfere.

GEN    System.tla: TLC enumerates every history of {compile, apply a compiled
       query, find via an environment / the module functions, register a function,
       create an environment subclass, the user
       editing a document in place} over three environments, six query texts
       (a '$'-rooted sub-query in a filter, a registry-dependent call, nested
       filter + descendant, match and search with the same pattern, an index out
       of the subclass's range, an invalid text) and four documents (two equal
       but distinct, one built from a shared sub-object), up to MaxOps operations (VIEW = abstract state + last
       operation), plus seeded random walks of 25 operations.  Each state carries
       the expected response of every operation, computed by Eval.tla.  The real
       objects are stepped along each history; after every operation: response =
       expected; every document deep-equal to its pristine snapshot; every
       environment's registry as the model says.
"""
from __future__ import annotations

import copy
import json
import multiprocessing as mp
import random

from .. import core


def _docs():
    d1 = {"x": 1, "k1": {"a": 1, "s": "ab"}, "k2": {"a": 2, "s": "xaby"}, "k3": [1, [1, 2], 2]}
    d3 = {"x": 2, "k1": {"a": 1}, "k2": {"a": 2, "s": "a"}, "k3": [2, [2], "a\n"]}
    shared = {"a": 1, "s": "ab"}
    d4 = {"x": 1, "k1": shared, "k2": shared, "k3": [shared, [shared], 1]}      # aliasing, no cycle
    return {"d1": d1, "d2": copy.deepcopy(d1), "d3": d3, "d4": d4}


def _d3(version):
    if version == "alt":
        return {"x": 1, "k1": {"a": 2}, "k2": {"a": 2, "s": "a"}, "k3": [2, [2], "a\n"]}
    return {"x": 2, "k1": {"a": 1}, "k2": {"a": 2, "s": "a"}, "k3": [2, [2], "a\n"]}


QTEXT = {"q1": "$[?@.a == $.x]", "q2": "$[?f(@.a)]", "q3": "$..[?@[?@ == $.x]]",
         "q4": "$[?match(@.s, 'a.') || search(@.s, 'a.')]", "q5": "$.k3[2]", "q6": "$[?@.a == ]", "q7": "$..s",
         "q8": "$[?f(@.a) == 1]", "q9": "$.k3[1]", "q10": "$.k3['1']"}


class World:
    def __init__(self, jp):
        from jsonpath_rfc9535.function_extensions import ExpressionType, FilterFunction  # noqa: PLC0415

        self.jp = jp

        class Const(FilterFunction):
            arg_types = [ExpressionType.VALUE]
            return_type = ExpressionType.LOGICAL

            def __init__(self, body):
                self.body = body

            def __call__(self, _arg):
                return self.body == "ct"

        class ConstV(FilterFunction):          # the subclass's own 'f': another signature under the same name
            arg_types = [ExpressionType.VALUE]
            return_type = ExpressionType.VALUE
            body = "v1"

            def __call__(self, _arg):
                return 1

        self.Const = Const
        self.ConstV = ConstV
        # reset what the model knows about the module-level environment
        jp.DEFAULT_ENV.function_extensions.pop("f", None)
        self.envs = {"mod": None, "e1": jp.JSONPathEnvironment(), "e2": None}
        self.docs = _docs()
        self.pristine = copy.deepcopy(self.docs)
        self.handles = []
        self.model_f = {"mod": "none", "e1": "none", "e2": None}

    def env(self, e):
        return self.jp.DEFAULT_ENV if e == "mod" else self.envs[e]

    def registry_view(self):
        out = {}
        for e in ("mod", "e1", "e2"):
            env = self.env(e)
            if env is None:
                out[e] = None
                continue
            f = env.function_extensions.get("f")
            out[e] = "none" if f is None else getattr(f, "body", "?")
            if sorted(k for k in env.function_extensions if k != "f") != ["count", "length", "match", "search", "value"]:
                out[e] = "builtins-changed"
        return out

    def step(self, k, entry):
        jp = self.jp
        op = entry["op"]
        if op == "compile":
            env = self.env(entry["e"])
            try:
                c = (jp.compile if entry["e"] == "mod" and k % 2 else env.compile)(QTEXT[entry["q"]])
                self.handles.append(c)
                return "ok"
            except jp.JSONPathError:
                return "error"
        if op == "apply":
            c = self.handles[entry["h"] - 1]
            doc = self.docs[entry["d"]]
            way = k % 3
            nodes = c.find(doc) if way == 0 else (c.apply(doc) if way == 1 else list(c.finditer(doc)))
            return [core.enc_loc(n.location) for n in nodes]
        if op == "applyone":
            c = self.handles[entry["h"] - 1]
            one = c.find_one(self.docs[entry["d"]])
            return [] if one is None else [core.enc_loc(one.location)]
        if op == "find":
            doc = self.docs[entry["d"]]
            try:
                if entry["e"] == "mod":
                    nodes = jp.find(QTEXT[entry["q"]], doc) if k % 2 else list(jp.finditer(QTEXT[entry["q"]], doc))
                else:
                    env = self.env(entry["e"])
                    nodes = env.find(QTEXT[entry["q"]], doc) if k % 2 else list(env.finditer(QTEXT[entry["q"]], doc))
                return [core.enc_loc(n.location) for n in nodes]
            except jp.JSONPathError:
                return ["error"]
        if op == "register":
            self.env(entry["e"]).function_extensions["f"] = self.Const(entry["b"])
            self.model_f[entry["e"]] = entry["b"]
            return None
        if op == "edit":
            # the user edits the document IN PLACE: same objects, new content
            new = _d3(entry["to"])
            doc = self.docs[entry["d"]]
            doc["x"] = new["x"]
            doc["k1"]["a"] = new["k1"]["a"]
            self.pristine[entry["d"]] = copy.deepcopy(doc)
            return None
        if op == "newsub":
            ConstV = self.ConstV

            class Sub(jp.JSONPathEnvironment):
                max_int_index = 1
                min_int_index = -1

                def setup_function_extensions(self):
                    super().setup_function_extensions()
                    self.function_extensions["f"] = ConstV()

            self.envs["e2"] = Sub()
            self.model_f["e2"] = "v1"
            return None
        raise core.MachineryError(f"unknown op {op}")


def _replay_many(items):
    jp = core.import_repo()
    out = []
    for g in items:
        hist = g["hist"]
        w = World(jp)
        bad = None
        for k, entry in enumerate(hist):
            try:
                got = w.step(k, entry)
            except Exception as err:  # noqa: BLE001
                got = f"raised {type(err).__name__}: {err}"
            want = entry.get("resp")
            if "resp" in entry and got != want:
                bad = {"clause": "response differs from Observable", "at": k, "op": entry["op"], "expected": want, "observed": got}
                break
            if w.docs != w.pristine or any(type(a) is not type(b) for a, b in zip(_flat(w.docs), _flat(w.pristine))):
                bad = {"clause": "a document was modified", "at": k, "op": entry["op"]}
                break
            view = w.registry_view()
            if any(view[e] != w.model_f[e] for e in view):
                bad = {"clause": "an environment's registry differs from the model", "at": k, "op": entry["op"],
                       "expected": w.model_f, "observed": view}
                break
        out.append(bad)
    return out


def _flat(v):
    if isinstance(v, dict):
        for k in v:
            yield k
            yield from _flat(v[k])
    elif isinstance(v, list):
        for x in v:
            yield from _flat(x)
    else:
        yield v


REPEAT_PATTERNS = ["a.*", "[a-c]+", "ab?c", "(a|b)c", "[^a]b", ".", "",
                   # valid I-Regexps whose VALUE the specification does not pin (reversed range, {n,m} with n > m, ...):
                   # whatever they select, they select it every time
                   "[z-a]", "a{2,1}", "x{3,2}y", "[b-a]*", "a{7}", "[c-a]b", "\\p{Lu}a"]


def _run_cli_inprocess(rng) -> None:
    """One run of the command-line tool inside this process (as the repository's own tests drive it)."""
    import io  # noqa: PLC0415
    import sys  # noqa: PLC0415

    from jsonpath_rfc9535 import cli  # noqa: PLC0415

    old = sys.argv, sys.stdin, sys.stdout, sys.stderr
    sys.argv = ["jsonpath-rfc9535", "-q", rng.choice(["$..a", "$.a", "$[?@.a]", "$..[?match(@, 'a.*')]"])]
    sys.stdin = io.TextIOWrapper(io.BytesIO(b'{"a": [1, {"a": "ab"}]}'), encoding="utf-8")
    sys.stdout, sys.stderr = io.StringIO(), io.StringIO()
    try:
        cli.main()
    except BaseException:  # noqa: BLE001, S110 - SystemExit included
        pass
    finally:
        sys.argv, sys.stdin, sys.stdout, sys.stderr = old


def history_independence(chk: core.Check, tier: str, seed: int) -> None:
    """The same (query, document) on a fresh environment and in the middle of a long history on a long-lived
    one (other patterns, other queries, failed compilations in between): TLC checks that all outcomes coincide
    (and equal Eval!Find where the specification pins the value)."""
    from . import common  # noqa: PLC0415

    jp = core.import_repo()
    rng = random.Random(seed)
    doc = {"d": {"1": 1, "0": "1", "-1": "m", "x": "0"}, "t": [{"s": "abc"}, {"s": "aab"}, {"s": "b"}, {"s": "xxxy"}, {"s": "zz"}, {"s": "Aa"}, {"s": 1}, {"z": 0}], "p": "a.*", "n": 2,
           # equal data: the same members in another order, the same number as int and float
           "u": [{"x": {"a": 1, "b": [2, {"c": 3, "d": 4}]}, "y": {"b": [2, {"d": 4, "c": 3}], "a": 1.0}}, {"x": {"a": 1}, "y": {"a": 1, "b": 2}},
                 {"x": [1, 2], "y": [1, 2, 3]}, {"x": {"a": 1, "b": 2}, "y": {"a": 2, "b": 1}}]}
    battery = []
    for p in REPEAT_PATTERNS:
        lit = "'" + p + "'"
        battery += [f"$.t[?match(@.s, {lit})]", f"$.t[?search(@.s, {lit})]", f"$.t[?!match(@.s, {lit}) && @.s]"]
    battery += ["$.t[?match(@.s, $.p)]", "$.t[?search(@.s, $.p)]", "$.t[?length(@.s) > $.n]", "$.t[?@.s == $.t[0].s]", "$..[?@.s]", "$.t[*].s",
                "$.u[?@.x == @.y]", "$.u[?@.x != @.y]", "$.u[?@.y == $.u[0].x]", "$.u[?value(@.x) == value(@.y)]",
                "$.t[?count(@.*) == 1]", "$.t[?value(@.*) == 'b']", "$.t[1:5:2]", "$.t[?@.s < 'b']",
                # an index and the member name spelled with the same digits, literals spelled alike in different roles
                "$.t[1]", "$.t['1']", "$.d[1]", "$.d['1']", "$.d['-1', -1, '0', 0]", "$.t[-1]", "$.t['-1']", "$.t[0, '0'].s", "$.d[?@ == '1']", "$.d[?@ == 1]",
                "$.t[?@.s == 'b']", "$.t[?@['s'] == \"b\"]", "$.t[?@.s == 'abc' || @.s == 'b']"]
    docs = [doc, dict(doc, p="[z-a]"), dict(doc, p="a{2,1}")]
    edocs = [core.enc_value(d) for d in docs]

    def outcome(env, q, d):
        try:
            return ["ok", [core.enc_loc(n.location) for n in env.find(q, d)]]
        except Exception as err:  # noqa: BLE001
            return ["raise", type(err).__name__]

    results = {}
    for k, d in enumerate(docs):
        for q in battery:
            results[(q, k)] = [outcome(jp.JSONPathEnvironment(), q, d)]
    # data nested 150 deep (beyond the default limit of 100): raising is part of the outcome that must not depend on history
    deep = 0
    for _ in range(150):
        deep = [deep]
    deep_qs = ["$..*", "$[0]..[0]", "$[?@..*]", "$[0][0]"]
    for q in deep_qs:
        results[(q, "deep")] = [outcome(jp.JSONPathEnvironment(), q, deep)]
    long_lived = [jp.JSONPathEnvironment(), jp]
    for env in long_lived:
        for _ in range(3 if tier == "quick" else 12):
            order = [(q, k) for q in battery for k in range(len(docs))]
            rng.shuffle(order)
            for q, k in order:
                results[(q, k)].append(outcome(env, q, docs[k]))
                if rng.random() < 0.1:
                    outcome(env, "$[?match(@.s, ", docs[k])          # a failed compilation in between
                if rng.random() < 0.03:
                    _run_cli_inprocess(rng)                            # the command-line front end used in the same process
            for q in deep_qs:
                results[(q, "deep")].append(outcome(env, q, deep))
    recs = [{"op": "repeat", "q": core.enc_text(q), "doc": edocs[k], "results": res} for (q, k), res in results.items() if k != "deep"]
    recs += [{"op": "repeat", "q": core.enc_text(q), "doc": core.enc_value([]), "nospec": True, "results": res}
             for (q, k), res in results.items() if k == "deep"]
    recs += common.stream_records(jp, rounds=12 if tier == "quick" else 100)
    # "the same nodelist every time it is applied to equal data": one compiled query, the same document OBJECT edited in place between
    # applications - what it answers must be what it answers on any equal document (the specification's value for the content now)
    recs += common.inplace_edit_records(jp, common.ROOT_QUERIES + ["$.items[?count($.items[*]) == 5]", "$[?count($..*) > 12]"], rounds=6)
    for r in recs:
        chk.nontrivial.add(("repeat", tuple(r["q"]), str(r["doc"])[-40:]))
    chk.notes["history_independence_records"] = len(recs)
    common.judge(chk, recs, "c14_repeat", what="Trace: the same call on a fresh environment and inside long histories")


def run(chk: core.Check, tier: str, seed: int) -> None:
    core.import_repo()
    maxops = 3 if tier == "quick" else 4
    base = ("SPECIFICATION Spec\nCONSTANTS\n  QText <- MCQText\n  DocVal <- MCDocVal\n  DocAlt <- MCDocAlt\n  MaxOps = {m}\n  MaxHandles = {h}\n"
            "INVARIANT Repeatable\nINVARIANT {exp}\nCHECK_DEADLOCK FALSE\n")
    res = core.require_ok(core.run_tlc("MC_System", base.format(m=maxops, h=2, exp="ExportAll") + "VIEW View\n",
                                       name="mc_system", heap="12g", timeout=3000), "MC_System")
    chk.add_tlc(f"MC_System exhaustive MaxOps={maxops} MaxHandles=2 (VIEW abstract state + last op)", res)
    gens = [json.loads(json.loads(line.strip())[4:]) for line in res.out.splitlines() if line.strip().startswith('"GEN ')]
    n_exh = len(gens)
    nsim = 4 if tier == "quick" else 400
    sim = core.run_tlc("MC_System", base.format(m=(16 if tier == "quick" else 25), h=4, exp="ExportFinal"), name="mc_system_sim", heap="6g", timeout=3000,
                       simulate=f"num={nsim}", depth=30, seed=seed, workers=8)
    if "Error:" in sim.out and "violated" in sim.out:
        raise core.MachineryError("System.tla invariant violated in simulation:\n" + sim.out[-1500:])
    chk.add_tlc(f"MC_System simulation: {nsim} walks per worker (8 workers) of 25 operations, every successor of every visited state exported at depth 25", sim)
    walks = [json.loads(json.loads(line.strip())[4:]) for line in sim.out.splitlines() if line.strip().startswith('"GEN ')]
    gens += walks
    if n_exh < 100 or not walks:
        raise core.MachineryError(f"too few generated histories: {n_exh} exhaustive, {len(walks)} walks")
    chunks = [gens[i:i + 500] for i in range(0, len(gens), 500)]
    with mp.Pool(core.NCPU) as pool:
        verdicts = [v for ch in pool.map(_replay_many, chunks) for v in ch]
    for g, bad in zip(gens, verdicts):
        chk.evaluations += 1
        ops = tuple((e["op"], e.get("e"), e.get("q"), e.get("h"), e.get("d"), e.get("b"), e.get("to")) for e in g["hist"])
        if any(e["op"] in ("apply", "applyone", "find") and e.get("resp") not in ([], ["error"]) for e in g["hist"]):
            chk.nontrivial.add(ops)
        if bad:
            chk.violation({"clause": bad["clause"], "op": bad["op"]},
                          {"history": g["hist"], "failure": bad, "queries": QTEXT})
    chk.traces += len(gens)
    history_independence(chk, tier, seed)
    chk.sample({"history": gens[len(gens) // 2]["hist"]})
    chk.sample({"walk_prefix": walks[0]["hist"][:6], "walk_length": len(walks[0]["hist"])})
    chk.exhaustive = True
    chk.rule = (
        f"{n_exh} histories = every reachable (abstract state, last operation) of System.tla up to {maxops} operations over 3 "
        f"environments x 6 queries x 3 documents x register/subclass, + {len(walks)} random walks of 25 operations; each replayed "
        "on the real objects with response, document snapshots and registries compared after every operation; non-trivial = "
        "history with a non-empty evaluation result"
    )
    chk.assumptions = ["between histories the module-level environment is reset only in what the model knows (function 'f'); "
                       "hidden state surviving across histories shows up as a response mismatch",
                       "function lookup at call time against the query's own environment is modelled as the implementation does it"]


def replay(path: str) -> int:
    with open(path) as fh:
        v = json.load(fh)
    bad = _replay_many([{"hist": v["case"]["history"]}])[0]
    print("history:", json.dumps(v["case"]["history"])[:1500])
    print("replayed verdict:", bad or "accepted (does not reproduce)")
    return 1 if bad else 0
