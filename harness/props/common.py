"""Helpers shared by the trace-validated property checks."""
from __future__ import annotations

import json
from typing import Any, Callable, Dict, List, Optional

from .. import core


def char_class(text: str, at: int) -> str:
    """Class of the character at 1-based position `at` (cause-oriented signature)."""
    if at < 1 or at > len(text):
        return "eof"
    c = text[at - 1]
    if c in " \t\n\r":
        return "blank"
    if c.isascii() and c.isdigit():
        return "digit"
    if c.isascii() and c.isalpha():
        return "alpha"
    if ord(c) < 0x20 or ord(c) == 0x7F:
        return "control"
    if not c.isascii():
        return "nonascii"
    return c


def last_token(text: str, at: int) -> str:
    """Class of the last non-blank character before position `at`."""
    i = at - 2
    while i >= 0 and text[i] in " \t\n\r":
        i -= 1
    return char_class(text, i + 1) if i >= 0 else "start"


def describe(rec: Dict[str, Any]) -> Dict[str, Any]:
    out = {"query": core.dec_text(rec["q"]), "out": rec.get("out"), "cls": rec.get("cls")}
    if "events" in rec:
        out["events"] = rec["events"][:40]
        out["raised"] = rec.get("raised")
    if "doc" in rec:
        out["doc"] = core.dec_value(rec["doc"])
        out["doc_json"] = json.dumps(out["doc"], ensure_ascii=True)
    if "locs" in rec:
        out["observed_locs"] = [[k.get("i", core.dec_text(k["n"]) if "n" in k else k) for k in loc] for loc in rec["locs"]]
    if "results" in rec:
        if rec.get("op") == "repeat":
            out["results (first: fresh environment)"] = rec["results"][:8]
        else:
            out["results"] = [(p["path"], p["out"], p["cls"], len(p["locs"])) for p in rec["results"]]
    for k in ("reg", "lo", "hi", "s", "s2", "recompiles", "index", "line", "col", "maxdepth"):
        if k in rec:
            out[k] = rec[k]
    return out


def default_sig(rej: Dict[str, Any], rec: Dict[str, Any]) -> Dict[str, Any]:
    clause = rej["clause"]
    sig: Dict[str, Any] = {"clause": clause}
    text = core.dec_text(rec["q"]) if "q" in rec else ""
    d = rej.get("detail") or []
    if clause.startswith("C04"):
        sig["why"] = d[0]
        sig["found"] = char_class(text, d[1])
        sig["after"] = last_token(text, d[1])
    elif clause.startswith("C03") or clause.startswith("C13"):
        sig["cls"] = rec.get("cls")
        sig["msg"] = rec.get("msg")
    elif clause.startswith("C05"):
        sig["why"] = d[0] if d else None
    elif clause == "find raised on a valid query":
        sig["cls"] = rec.get("cls")
    return sig


def judge(chk: core.Check, recs: List[Dict[str, Any]], name: str, *,
          sig: Callable[[Dict[str, Any], Dict[str, Any]], Dict[str, Any]] = default_sig,
          only: Optional[Callable[[str], bool]] = None, what: str = "") -> List[Dict[str, Any]]:
    """Validate records with Trace.tla; report rejections whose clause passes `only`."""
    rej, st = core.validate_records("Trace", recs, name=name)
    chk.add_stats(what or f"Trace: {name}", st)
    chk.evaluations += len(recs)
    chk.traces += len(recs)
    mine = []
    for r in rej:
        if only is not None and not only(r["clause"]):
            chk.notes.setdefault("observations_for_other_properties", {})
            key = r["clause"]
            chk.notes["observations_for_other_properties"][key] = \
                chk.notes["observations_for_other_properties"].get(key, 0) + 1
            continue
        rec = recs[r["id"]]
        case = describe(rec)
        case["spec_clause"] = r["clause"]
        case["spec_detail"] = r["detail"]
        chk.violation(sig(r, rec), case)
        mine.append(r)
    return mine


def replay_generic(path: str) -> int:
    """Re-execute a replay file's case against the current tree and re-validate it."""
    from .. import impl  # noqa: PLC0415

    jp = core.import_repo()
    with open(path) as fh:
        v = json.load(fh)
    case = v["case"]
    q = case["query"]
    if "doc" in case:
        rec = impl.rec_find(jp, q, case["doc"], paths=True)
    else:
        rec = impl.rec_compile(jp, q)
    rej, _ = core.validate_records("Trace", [rec], name="replay")
    print("query:", repr(q))
    if "doc" in case:
        print("doc:", case.get("doc_json"))
    print("observed:", rec.get("out"), rec.get("cls"), describe(rec).get("observed_locs"))
    if rej:
        print("spec verdict: REJECTED", rej[0]["clause"], rej[0]["detail"])
        return 1
    print("spec verdict: accepted (does not reproduce)")
    return 0


def t1_check(chk: core.Check, texts, name: str) -> None:
    """Theorem T1 on the given texts: ABNF.tla (the RFC grammar held as data, generic recogniser) and
    Syntax.tla (recursive-descent parser, strict mode) accept the same strings.  A disagreement means
    the specification itself cannot be trusted: machinery failure, not a verdict about the code."""
    texts = list(dict.fromkeys(texts))
    recs = [{"op": "t1", "q": core.enc_text(t)} for t in texts]
    rej, st = core.validate_records("Trace", recs, name=name, timeout=3000)
    chk.add_stats(f"T1 (ABNF-as-data recogniser = Syntax!Parse) on {len(texts)} texts", st)
    chk.notes["T1_texts"] = len(texts)
    if rej:
        bad = [(texts[r["id"]], r["detail"]) for r in rej[:5]]
        raise core.MachineryError(f"T1 fails: the two formulations of the RFC 9535 syntax disagree on {len(rej)} texts, e.g. {bad}")


def inplace_edit_records(jp, queries, env=None, extra=None, rounds: int = 6):
    """One compiled query (rec_find caches by text) applied again and again to the SAME document object,
    which the caller edits in place between applications: whatever the implementation remembered about
    the object from an earlier application (keyed by identity) is now stale."""
    from .. import impl  # noqa: PLC0415

    recs = []
    for q in queries:
        doc = {"want": 0, "ref": [1], "cfg": {"lim": 1}, "items": [{"v": 0, "s": "ab"}, {"v": 1, "s": "b"}, {"v": 2, "s": "abc"}, [0, 1]]}
        for k in range(rounds):
            recs.append(impl.rec_find(jp, q, doc, env=env, extra=extra))
            # edit in place: same objects, new content
            doc["want"] = (doc["want"] + 1) % 3
            doc["ref"].append(k)
            doc["cfg"]["lim"] = k % 3
            if k == 2:
                del doc["cfg"]["lim"]
            if k == 3:
                doc["cfg"]["lim"] = 2
                doc["items"].append({"v": doc["want"], "s": "a" * k})
    return recs


ROOT_QUERIES = ["$.items[?@.v == $.want]", "$.items[?@.v >= $.cfg.lim]", "$.items[?count($.ref[*]) > @.v]", "$.items[?length($.ref) == @.v]",
                "$.items[?value($.cfg[*]) == @.v]", "$.items[?length(@.s) == length($.ref)]", "$.items[?$.cfg.lim]",
                "$.items[?@.v == $.cfg.lim || @.v == $.want]", "$..[?@ == $.want]", "$.items[?match(@.s, 'a.*') && @.v != $.want]",
                # '$' is the root of the query argument also below a descendant segment that does not start at the root
                "$.items..[?@ == $.want]", "$.cfg..[?@ == $.want]", "$[?@..[?@ == $.want]]", "$.items[*]..[?@ == $.cfg.lim]",
                "$.items..[?@.v == $.want]"]


def stream_records(jp, env=None, rounds: int = 12):
    """One compiled query applied to a STREAM of short-lived documents (the JSON-lines pattern): each document is
    decoded, an iterator over it is created, the document is dropped, the iterator exhausted (or abandoned after
    one item), and the next document is decoded - very likely at the address of the dead one.  Whatever the
    implementation remembered about a document by identity is now about another document."""
    import json  # noqa: PLC0415

    from .. import core  # noqa: PLC0415

    recs = []
    e = env or jp
    lines = ['{"items": [{"v": 1}, {"v": 5}, {"v": 9}], "note": "no threshold"}',
             '{"items": [{"v": 1}, {"v": 5}, {"v": 9}], "threshold": 3}',
             '{"items": [{"v": 1}, {"v": 5}, {"v": 9}, {"v": 2}, {"v": 8}], "threshold": 7}',
             '{"items": [{"v": 7}, {"v": 5}], "thresholx": 0}']
    for q, wrap in (("$.items[?@.v > $.threshold]", False), ("$[0].items[?@.v > $[0].threshold]", True),
                    ("$.items[?count($.threshold) == 1 && @.v > 1]", False), ("$..[?@.v >= $.threshold]", False),
                    ("$.items[?!$.threshold]", False), ("$[0].items[?$..threshold]", True),
                    # arrays of different lengths through one compiled query with negative indices / slices
                    ("$.items[-1]", False), ("$.items[-2, 0].v", False), ("$.items[?@.v > $.items[-2].v]", False), ("$.items[-2:]", False),
                    ("$..[-1]", False)):
        c = e.compile(q)
        for k in range(rounds):
            line = lines[(k * 7 + k // 3) % len(lines)]
            text = "[" + line + "]" if wrap else line
            doc = json.loads(text)
            it = iter(c.finditer(doc))
            del doc
            if k % 4 == 3:
                first = next(it, None)          # abandoned after one item
                got = [] if first is None else [first]
                partial = True
            else:
                got = list(it)
                partial = False
            del it
            locs = [core.enc_loc(n.location) for n in got]
            del got
            rec = {"op": "find", "q": core.enc_text(q), "doc": core.enc_value(json.loads(text)), "out": "ok", "stage": "find",
                   "jp": True, "cls": "", "locs": locs}
            if partial:
                rec["op"] = "findfirst"
            recs.append(rec)
    return recs
