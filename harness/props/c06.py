"""C06  Comparison operators implement the RFC 9535 comparison table.

MC     MC_Compare.tla: T5 on the comparand universe: Eq is an equivalence, Lt a
       strict order inside numbers and inside strings and empty elsewhere,
       <= is Lt or Eq, != is ~Eq, > is flipped Lt.
TRACE  all ordered pairs over ~45 comparands x 6 operators x every producer of
       each side (literal where one exists, '@.l'/'@.r' relative singular query,
       '$.c[i]' absolute singular query, value() function result), as
       find('$.t[?L op R]', doc) records validated by TLC against JsonVal!Cmp;
       and all comparands as SIBLINGS under one array / object with the child
       itself as a comparand ('$.t[?@ op x]'), in several orders.
"""
from __future__ import annotations

import itertools
import random

from .. import core, gen, impl
from . import common

NOTHING = object()
COMPARANDS = [
    0, 1, -1, 2, 10, 1.0, 1.5, -0.0, 0.1, 100, 1e2, -1.5, 2.5e-3,
    # integers beyond 2^53 (exact in Python and in the model): neighbours that round to the same double
    9007199254740992, 9007199254740993, 9007199254740994, -9007199254740993, 10**25, 10**25 + 1, 123456789012345.5, 10**400,
    "", "a", "b", "ab", "A", "é", "￿", "𐀀", "😀", "1", "true", "\U00020000", "\U0010ffff", "\U000f0000z",
    True, False, None,
    [], [1], [True], [1.0], [0], [False], [1, [True]], [1, [1]], [[]], ["a"], [None],
    {}, {"a": 1}, {"a": True}, {"a": 1.0}, {"a": 1, "b": 2}, {"b": 2, "a": 1}, {"a": {"b": [1]}}, {"a": {"b": [True]}},
    {"a": None}, {"b": 1},
    NOTHING,
]
OPS = ["==", "!=", "<", "<=", ">", ">="]


def lit(sp: gen.Speller, v):
    if v is None:
        return "null"
    if v is True:
        return "true"
    if v is False:
        return "false"
    if isinstance(v, str):
        return sp.string(v)
    if isinstance(v, float) and v == 0.0:
        return "-0.0"
    if isinstance(v, int) and abs(v) >= 10**15:
        return str(v)
    return sp.number(v)


def run(chk: core.Check, tier: str, seed: int) -> None:
    jp = core.import_repo()
    rng = random.Random(seed)
    cfg = "SPECIFICATION Spec\nINVARIANT T5\nCHECK_DEADLOCK FALSE\n"
    res = core.require_ok(core.run_tlc("MC_Compare", cfg, name="mc_compare", heap="6g"), "MC_Compare")
    chk.add_tlc("MC_Compare: T5 (equivalence / strict order / derived operators) on all pairs and triples", res)
    sp = gen.Speller(rng, 1)
    recs = []
    pairs = list(itertools.product(range(len(COMPARANDS)), repeat=2))
    if tier == "quick":
        rng.shuffle(pairs)
        keep = set(pairs[:600])
        # always keep the pairs that mix kinds at depth
        for i, j in pairs:
            a, b = COMPARANDS[i], COMPARANDS[j]
            if isinstance(a, (list, dict)) and type(a) is type(b) and len(keep) < 1100:
                keep.add((i, j))
        pairs = sorted(keep)
    for i, j in pairs:
        a, b = COMPARANDS[i], COMPARANDS[j]
        member = {}
        if a is not NOTHING:
            member["l"] = a
        if b is not NOTHING:
            member["r"] = b
        member["n"] = rng.choice([1, True, None, 2.5])          # something without a length
        doc = {"t": [member], "c": [x for x in (a, b) if x is not NOTHING]}
        try:
            edoc = core.enc_value(doc)
        except core.Unrepresentable:
            chk.skipped += 1
            continue
        prods_l = ["@.l", "value(@.l)"]
        prods_r = ["@.r", "value(@.r)"]
        # Nothing from a function: length() of something without a length, on either side
        if a is NOTHING:
            prods_l += ["length(@.l)", "length(@.n)"]
        if b is NOTHING:
            prods_r += ["length(@.r)", "length(@.n)", "length($.c[5])"]
        if a is not NOTHING:
            prods_l.append("$.c[0]")
            if not isinstance(a, (list, dict)):
                prods_l.append(lit(sp, a))
        else:
            prods_l.append("$.nope")
        if b is not NOTHING:
            prods_r.append("$.c[-1]")
            if not isinstance(b, (list, dict)):
                prods_r.append(lit(sp, b))
        else:
            prods_r.append("$.c[7]")
        combos = list(itertools.product(prods_l, prods_r))
        if tier == "quick":
            combos = rng.sample(combos, min(3, len(combos)))
        for pl, pr in combos:
            for op in (OPS if tier != "quick" else rng.sample(OPS, 3)):
                recs.append(impl.rec_find(jp, f"$.t[?{pl}{sp.S()}{op}{sp.S()}{pr}]", doc, edoc=edoc))
    # systematic floor under the sampling: every comparand through every producer, against itself and
    # against its neighbour in the list, all six operators
    for i, a in enumerate(COMPARANDS):
        # ... and against Nothing on either side (an empty singular query looks like an empty list to the host language)
        for b in (a, COMPARANDS[(i + 1) % len(COMPARANDS)], NOTHING, "nothing-left"):
            if b == "nothing-left":
                a, b = NOTHING, COMPARANDS[i]
            member = {}
            if a is not NOTHING:
                member["l"] = a
            if b is not NOTHING:
                member["r"] = b
            member["q"] = 7                                      # length(@.q) is Nothing
            doc = {"t": [member], "c": [x for x in (a, b) if x is not NOTHING]}
            try:
                edoc = core.enc_value(doc)
            except core.Unrepresentable:
                continue
            for pl, pr in (("@.l", "@.r"), ("value(@.l)", "@.r"), ("@.l", "value(@.r)"), ("value(@.l)", "value(@.r)"),
                           ("$.t[0].l", "$.t[0].r"), ("length(@.q)", "@.r"), ("@.l", "length(@.q)"), ("length(@.q)", "value(@.r)"),
                           ("length(@.q)", "length(@.zz)")):
                for op in OPS:
                    recs.append(impl.rec_find(jp, f"$.t[?{pl} {op} {pr}]", doc, edoc=edoc))
            if a is not NOTHING and not isinstance(a, (list, dict)):
                for op in OPS:
                    recs.append(impl.rec_find(jp, f"$.t[?value(@.r) {op} {lit(sp, a)}]", doc, edoc=edoc))
                    recs.append(impl.rec_find(jp, f"$.t[?{lit(sp, a)} {op} value(@.l)]", doc, edoc=edoc))
                if isinstance(a, str) and a:
                    # the literal spelled entirely with \uXXXX escapes (surrogate pairs beyond the BMP), both quote styles
                    esc = "".join(f"\\u{ord(c):04x}" if ord(c) < 0x10000 else
                                  f"\\u{0xD800 + ((ord(c) - 0x10000) >> 10):04X}\\u{0xDC00 + ((ord(c) - 0x10000) & 0x3FF):04x}" for c in a)
                    for op in OPS:
                        q = "'" if op in ("==", "<", ">=") else '"'
                        recs.append(impl.rec_find(jp, f"$.t[?@.l {op} {q}{esc}{q}]", doc, edoc=edoc))
    # siblings: all comparands as the children of ONE array / object, the child itself ('@') being the comparand:
    # each child is judged on its own, whatever was tested before it (equal-but-different kinds next to each other:
    # 1, 1.0, true; 0, -0.0, false; "1"; [1], [true]; ...), in several orders
    sibs = [c for c in COMPARANDS if c is not NOTHING and not (isinstance(c, int) and not isinstance(c, bool) and abs(c) > 10**30)]
    def _ok(v):
        try:
            core.enc_value(v)
            return True
        except core.Unrepresentable:
            return False

    sibs = [c for c in sibs if _ok(c)]
    scal = [c for c in sibs if not isinstance(c, (list, dict))]
    n_before = len(recs)
    for rnd in range(2 if tier == "quick" else 8):
        order = list(sibs)
        rng.shuffle(order)
        for c in (rng.sample(scal, 12) if tier == "quick" else scal) + [1, True, 0, False, 1.0, -0.0]:
            doc = {"t": order, "o": {f"k{i}": v for i, v in enumerate(order)}, "ref": c, "refs": [c]}
            try:
                edoc = core.enc_value(doc)
            except core.Unrepresentable:
                continue
            for op in (OPS if tier != "quick" else rng.sample(OPS, 2)):
                for q in (f"$.t[?@ {op} {lit(sp, c)}]", f"$.o[?{lit(sp, c)} {op} @]", f"$.t[?@ {op} $.ref]", f"$.o[?value(@) {op} $.refs[0]]",
                          f"$.t[?@ {op} @]", f"$..[?@ {op} {lit(sp, c)}]",
                          # a relative query with a segment against a function result: on scalar children both are Nothing
                          f"$.t[?@.zz {op} value(@.yy)]", f"$.o[?length(@.zz) {op} @[0]]", f"$.t[?value(@.a) {op} @.a]", f"$.t[?@.a {op} length(@)]"):
                    if tier != "quick" or rng.random() < 0.5:
                        recs.append(impl.rec_find(jp, q, doc, edoc=edoc))
    # equality at depth: the same shape 40 levels down, differing (or not) only in the innermost leaf
    def _nest(n, leaf, obj):
        d = leaf
        for i in range(n):
            d = {"k": d} if (obj and i % 2) else [d]
        return d

    for n in (5, 40):
        for la, lb in ((1, 1), (1, 1.0), (1, True), (1, 2), ("a", "a"), (None, False), ([], {}), (0, -0.0)):
            for obj in (False, True):
                doc = {"t": [{"l": _nest(n, la, obj), "r": _nest(n, lb, obj)}]}
                edoc = core.enc_value(doc)
                for op in ("==", "!=", "<="):
                    recs.append(impl.rec_find(jp, f"$.t[?@.l {op} @.r]", doc, edoc=edoc))
    chk.notes["sibling_records"] = len(recs) - n_before
    if len(recs) - n_before < 50:
        raise core.MachineryError("the sibling documents produced no records")
    recs += common.inplace_edit_records(jp, common.ROOT_QUERIES)
    # "numbers by numeric value": a literal against the document number a JSON decoder makes of the SAME text - also beyond the
    # range where the value model is exact (there the model abstains from values, but same text = same number is still pinned)
    import json as _json  # noqa: PLC0415
    from .. import probes as _probes  # noqa: PLC0415
    wide_env = _probes.make_env(jp, [], [], lo=-(2 ** 70), hi=2 ** 70)
    narrow_env = _probes.make_env(jp, [], [], lo=-5, hi=5)
    for text in ("1e23", "3e25", "7e100", "1e308", "12345678901234567e3", "1E+23", "5e22", "1e16", "9007199254740993", "123e20", "1.5e300",
                 "0.30000000000000004", "1e-7", "5e-324", "2.5e-300", "123456789012345678901234567890", "1.0e15", "4.35", "1e22", "1e21"):
        for sign in ("", "-"):
            t = sign + text
            doc = [_json.loads(t)]
            for cmp_ in ("==", "!=", "<", "<=", ">", ">="):
                q = f"$[?@ {cmp_} {t}]"
                # (the environment's integer range is about indices and slices: a wider or narrower one changes no comparison)
                for e_ in (jp, wide_env, narrow_env):
                    rec = {"op": "sametext", "q": core.enc_text(q), "t": core.enc_text(t), "cmp": cmp_, "sel": False, "out": "ok", "cls": ""}
                    try:
                        rec["sel"] = len(e_.find(q, doc)) == 1
                    except Exception as err:  # noqa: BLE001
                        rec["out"], rec["cls"] = "raise", type(err).__name__
                    recs.append(rec)
    for r in recs:
        chk.nontrivial.add((tuple(r["q"]), str(r.get("doc"))[:300]))
    chk.sample({"query": core.dec_text(recs[5]["q"]), "doc": core.dec_value(recs[5]["doc"]), "locs": recs[5]["locs"]})
    common.judge(chk, recs, "c06", what="Trace: comparison records vs JsonVal!Cmp",
                 only=lambda c: c.startswith(("C13 find", "C03")) or not c.startswith(("C03", "C04", "C05", "C13")))
    chk.exhaustive = tier != "quick"
    chk.rule = (
        f"ordered pairs over {len(COMPARANDS)} comparands (numbers incl. equal int/float and -0.0, strings incl. non-BMP, "
        "true/false/null, arrays and objects differing only by bool-vs-number leaves at depth 1-2, permuted members, "
        "nothing) x 6 operators x producers (literal, '@.x', '$.c[i]', value(@.x)); quick samples 3 operators and 3 "
        "producer pairs per pair; distinct = distinct (query, doc)"
    )
    chk.assumptions = ["the transcription of the RFC 9535 comparison table in JsonVal.tla, anchored by tests/test_ietf_comparison rows (selftest)"]


replay = common.replay_generic
