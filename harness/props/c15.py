"""C15  All entry points agree: find, finditer, find_one, compile().apply, module-level.

TRACE  for each (query, document): the outcome of the 11 public call paths
       (module find / finditer / find_one, environment find / finditer /
       find_one, compiled-by-module and compiled-by-environment find / apply /
       finditer / find_one) is recorded as one event; TLC checks that every path
       realises the same (items, tail): find = apply = list(finditer) =
       Eval!Find(query, doc), find_one = first-or-None, and for invalid queries
       that every path raises the same JSONPathError class.  Inputs: valid
       queries, invalid ones of every error class, evaluation-time errors under
       a recursion limit.
"""
from __future__ import annotations

import random

from .. import core, corpus, gen, impl, probes
from . import common

INVALID = ["$[?@.a ==]", "$.", "$[", "$[?length(@.*) == 1]", "$[?count(1) == 1]", "$[?nosuch(@)]", "$[9007199254740992]", "a", "",
           "$[?match(@.a, 'b') == true]", "$['\\x']", "$[01]", "$[?@.* == 1]", "$[1:2:3:4]", "$ ", "$[?!]"]


def _variant(doc):
    """A document of the same shape with different scalar content (what '$' sees differs)."""
    if isinstance(doc, dict):
        return {k: _variant(v) for k, v in reversed(list(doc.items()))}
    if isinstance(doc, list):
        return [_variant(v) for v in doc] + [0]
    if isinstance(doc, bool) or doc is None:
        return 1
    if isinstance(doc, (int, float)):
        return doc + 1
    return doc + "x"


def record(jp, env, q, doc, edoc, extra=None, kept=None, kept_label="query compiled before the environment was reconfigured"):
    def run(path, kind, fn):
        res = {"path": path, "kind": kind, "locs": [], "none": False, "cls": "", "jp": True}
        try:
            out = fn()
            res["out"] = "ok"
            if kind == "list":
                res["locs"] = [core.enc_loc(n.location) for n in out]
            else:
                res["none"] = out is None
                res["locs"] = [] if out is None else [core.enc_loc(out.location)]
        except Exception as err:  # noqa: BLE001
            res["out"] = "raise"
            res["cls"] = type(err).__name__
            res["jp"] = isinstance(err, jp.JSONPathError)
        return res

    # another instance of the same class, configured differently ON THE INSTANCE, uses the text first - through every entry point
    if len(q) < 300:
        impl._sibling_first(jp, env, q)
    results = []
    mod_is_env = env is None
    e = jp.DEFAULT_ENV if mod_is_env else env
    if mod_is_env:
        results.append(run("module.find", "list", lambda: jp.find(q, doc)))
        results.append(run("module.finditer", "list", lambda: list(jp.finditer(q, doc))))
        results.append(run("module.find_one", "first", lambda: jp.find_one(q, doc)))
        results.append(run("module.compile.find", "list", lambda: jp.compile(q).find(doc)))
        results.append(run("module.compile.apply", "list", lambda: jp.compile(q).apply(doc)))
        results.append(run("module.compile.finditer", "list", lambda: list(jp.compile(q).finditer(doc))))
        results.append(run("module.compile.find_one", "first", lambda: jp.compile(q).find_one(doc)))
    def interleaved():
        c = e.compile(q)
        other = _variant(doc)
        a, b = iter(c.finditer(doc)), iter(c.finditer(other))
        out = []
        done_a = done_b = False
        while not done_a:
            try:
                out.append(next(a))
            except StopIteration:
                done_a = True
            if not done_b:
                try:
                    next(b)
                except StopIteration:
                    done_b = True
        return out

    results.append(run("env.compile.finditer(interleaved with a sibling iterator)", "list", interleaved))
    results.append(run("env.find", "list", lambda: e.find(q, doc)))
    results.append(run("env.finditer", "list", lambda: list(e.finditer(q, doc))))
    results.append(run("env.find_one", "first", lambda: e.find_one(q, doc)))
    results.append(run("env.compile.find", "list", lambda: e.compile(q).find(doc)))
    results.append(run("env.compile.apply", "list", lambda: e.compile(q).apply(doc)))
    results.append(run("env.compile.finditer", "list", lambda: list(e.compile(q).finditer(doc))))
    results.append(run("env.compile.find_one", "first", lambda: e.compile(q).find_one(doc)))
    if kept is not None:
        results.append(run(kept_label + " .find", "list", lambda: kept.find(doc)))
        results.append(run(kept_label + " .find_one", "first", lambda: kept.find_one(doc)))
    rec = {"op": "entry", "q": core.enc_text(q), "doc": edoc, "results": results}
    if extra:
        rec.update(extra)
    return rec


def run(chk: core.Check, tier: str, seed: int) -> None:
    jp = core.import_repo()
    rng = random.Random(seed)
    recs = []
    fresh = jp.JSONPathEnvironment()
    n = 1500 if tier == "quick" else 40000
    queries = corpus.SEEDS + corpus.repo_test_queries() + INVALID + corpus.valid_candidates(rng, n)
    for k, q in enumerate(queries):
        d = gen.rand_doc(rng, depth=rng.randint(1, 3), width=3, names=gen.PLAIN_NAMES, p_container=0.8)
        try:
            ed = core.enc_value(d)
        except core.Unrepresentable:
            continue
        recs.append(record(jp, None if k % 2 else fresh, q, d, ed))
    # documents that are strings containing JSON text, through every entry point (none of them decodes its argument)
    for sdoc in gen.JSON_TEXT_STRINGS:
        for q in ("$", "$[0]", "$.a", "$..*", "$[?@ > 0]", "$[*]"):
            recs.append(record(jp, None if len(recs) % 2 else fresh, q, sdoc, core.enc_value(sdoc)))
    for q in INVALID:
        for nb in gen.neighbours(q, rng, 4):
            recs.append(record(jp, None, nb, [1], core.enc_value([1])))
    # a result or compiled-query cache keyed too coarsely: on ONE environment, a valid query is used first,
    # then texts that differ from it only by blank space, case or one character (most of them invalid)
    shared = jp.JSONPathEnvironment()
    d = {"a": [1, {"b": 2}], "b": {"a": 1}, "A": 0}
    ed = core.enc_value(d)
    for q in ["$.a", "$..b", "$.a[?@.b == 2]", "$['a']", "$[?@ == 1]", "$.a[1].b", "$.b.a"] + rng.sample(corpus.SEEDS, 10):
        for env in (shared, None):
            recs.append(record(jp, env, q, d, ed))
            for v in (q + " ", " " + q, q + "\n", "\t" + q, q.upper(), q.replace("a", "A"), q + "\x0c", q.strip("$"), q + q[1:]):
                recs.append(record(jp, env, v, d, ed))
            for nb in gen.neighbours(q, rng, 5):
                recs.append(record(jp, env, nb, d, ed))
            recs.append(record(jp, env, q, d, ed))
    for q in ["$.items[?@.v == $.want]", "$..[?@ == $.want]", "$.items[?$.on]", "$.items[?@.v != $.want && $.items[0]]"]:
        for want in (0, 1, 2):
            d = {"want": want, "on": want, "items": [{"v": 0}, {"v": 1}, {"v": 2}, {"v": 1}]}
            recs.append(record(jp, fresh, q, d, core.enc_value(d)))
    # indices and slices that have to be normalised, on arrays of every small length, through every entry point (a shortcut for
    # singular queries in one entry point must do the arithmetic of the others)
    for n_el in range(0, 4):
        arr = list("abc"[:n_el])
        for d in (arr, {"a": arr}, [arr, "xy"]):
            ed = core.enc_value(d)
            for q in ("$[-3]", "$[-1]", "$[-4]", "$[2]", "$[-2]", "$.a[-3]", "$.a[-1]", "$[0][-3]", "$[0][-1]", "$[1][0]", "$[1][-1]", "$[-2][-2]"):
                recs.append(record(jp, fresh if n_el % 2 else None, q, d, ed))
    # a compiled query that is KEPT while the caller edits the document in place between uses is one more entry point: it must
    # answer for the document as it is now, like the module functions, the environment and a freshly compiled query do
    for env in (fresh, None):
        for q in common.ROOT_QUERIES:
            e = jp.DEFAULT_ENV if env is None else env
            try:
                kept_q = e.compile(q)
            except Exception as err:  # noqa: BLE001 - the battery's queries are valid: an environment that refuses one has a past that shows
                chk.violation({"clause": "C15 a valid query is refused by one entry point (an environment with a history)", "cls": type(err).__name__},
                              {"query": q, "environment": "module default" if env is None else "fresh at the start of this check", "error": str(err)[:200]})
                continue
            d = {"want": 0, "ref": [1], "cfg": {"lim": 1}, "items": [{"v": 0, "s": "ab"}, {"v": 1, "s": "b"}, {"v": 2, "s": "abc"}, [0, 1]]}
            for k in range(5):
                recs.append(record(jp, env, q, d, core.enc_value(d), kept=kept_q, kept_label="compiled query kept across in-place edits of the document"))
                d["want"] = (d["want"] + 1) % 3
                d["ref"].append(k)
                d["cfg"]["lim"] = k % 3
                if k == 2:
                    d["items"].append({"v": d["want"], "s": "aaa"})
    # evaluation-time errors: recursion limit
    deep = [[[[[[1]]]]], {"a": {"a": {"a": {"a": 1}}}}, [1, [2, [3, [4]]], {"a": [[[]]]}], [[1], [2]]]
    for lim in (1, 2, 3, 5):
        env = probes.make_env(jp, [], [], max_depth=lim)
        for d in deep:
            for q in ("$..*", "$..a", "$..[?@]", "$[0]..*", "$.*", "$..[0]"):
                recs.append(record(jp, env, q, d, core.enc_value(d), extra={"maxdepth": lim}))
        # the environment's configuration is read when a query is applied: a query compiled earlier, under another
        # limit / integer range / mode set on the same environment object, is one more entry point that must agree
        env2 = probes.make_env(jp, [], [], max_depth=lim + 2)
        qs = ("$..*", "$..a", "$..[?@]", "$[0]..*", "$[?@..a]", "$..[0]")
        kept = {q: env2.compile(q) for q in qs}
        env2.max_recursion_depth = lim
        for d in deep:
            for q in qs:
                recs.append(record(jp, env2, q, d, core.enc_value(d), extra={"maxdepth": lim}, kept=kept[q]))
    for r in recs:
        chk.nontrivial.add((tuple(r["q"]), str(r["doc"])[:100], len(r["results"])))
    ex = recs[5]
    chk.sample({"query": core.dec_text(ex["q"]), "paths": [(p["path"], p["out"], len(p["locs"])) for p in ex["results"]]})
    bad = [r for r in recs if r["results"][0]["out"] == "raise"][:1]
    if bad:
        chk.sample({"query": core.dec_text(bad[0]["q"]), "paths": [(p["path"], p["out"], p["cls"]) for p in bad[0]["results"]]})

    def sig(rej, rec):
        return {"clause": rej["clause"]}

    common.judge(chk, recs, "c15", what="Trace: entry-point agreement records", sig=sig,
                 only=lambda c: c.startswith("C15"))
    chk.rule = (
        f"{len(recs)} (query, document) events x 7-14 call paths each: {len(queries)} queries (valid corpus, repository tests, "
        f"{len(INVALID)} invalid of every error class and their neighbours) on seeded documents, alternately through the module "
        "functions and a fresh environment; recursion-limit environments on deep documents; distinct = distinct (query, doc)"
    )
    chk.assumptions = ["where the document is deeper than the configured limit only agreement between entry points is demanded here "
                       "(C18 decides the outcome itself)"]


def replay(path: str) -> int:
    import json  # noqa: PLC0415

    with open(path) as fh:
        v = json.load(fh)
    print(json.dumps(v["case"], indent=1, default=str)[:2500])
    return 0
