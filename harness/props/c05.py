"""C05  Validity rules: function well-typedness, singular comparands, integer range.

TRACE  a fresh environment per signature: the five built-ins plus probe 'f' whose
       signature ranges over all 39 of {V,L,N}^n -> {V,L,N} (n <= 2) and helpers
       kv: V->V, gl: V->L, hn: N->N, gv: N->V; argument shapes (literal, singular
       / non-singular query, call of each result kind, comparison, &&, !,
       parenthesised) x positions (test, either comparand, nested argument,
       under '!', either side of && / ||, in parentheses), unknown names, wrong
       arity; index / slice integers spelled at lo-1, lo, lo+1, hi-1, hi, hi+1 for
       the default +-(2^53-1) and configured ranges.  TLC decides Valid
       (Typing.tla); compile() must agree, raise a JSONPathError otherwise, and
       no function body may run during compile().
"""
from __future__ import annotations

import itertools
import random

from .. import core, gen, impl, probes
from . import common

HELPERS = [("kv", ["V"], "V"), ("gl", ["V"], "L"), ("hn", ["N"], "N"), ("gv", ["N"], "V"),
           # function names that start with a keyword of the filter grammar
           ("nullable", ["V"], "L"), ("truex", ["N"], "N"), ("false_", ["V"], "V"), ("null0", ["L"], "L")]
SHAPES = ["1", "'s'", "null", "@.a", "$.x[0]", "@", "@.*", "@..a", "@[0,1]", "$[*]", "@[0:1]", "@[1:2]", "@[0:1:1]", "$[2:3]", "@.a[0:1].b", "@[:1]", "@[-1:]", "kv(@.a)", "gl(@.a)", "hn(@.*)", "gv(@.*)",
          "length(@)", "count(@.*)", "match(@.a, 'b')", "@.a == 1", "1 == 1", "@.a && @.b", "@.a || gl(@)", "!@.a", "!gl(@.a)",
          "(@.a)", "(@.a == 1)", "!(@.a)", "@[?@.a]", "@.a == kv(@.b)", "gl(@.a) && hn(@.*)", "kv(@.a) == 1 || @.b", "zz(@.a)",
          "nullable(@.a)", "truex(@.*)", "false_(@.a)", "null0(@.a)", "true", "false", "nullable(true)", "truex", "nullx(@.a)", "false_(false)"]
POSITIONS = ["$[?{c}]", "$[?{c} == 1]", "$[?1 == {c}]", "$[?{c} != @.a]", "$[?kv({c}) == 1]", "$[?gl({c})]", "$[?count({c}) == 1]",
             "$[?hn({c})]", "$[?!{c}]", "$[?{c} && @.a]", "$[?@.a || {c}]", "$[?({c})]", "$[?!({c})]", "$[?@[?{c}]]",
             "$[?{c} == {c}]", "$[?length({c}) == 1]", "$[?match({c}, 'a')]", "$[?gl2({c})]", "$[?@.a && ({c} || @.b)]"]


def run(chk: core.Check, tier: str, seed: int) -> None:
    jp = core.import_repo()
    rng = random.Random(seed)
    recs = []
    sigs = []
    for n in (0, 1, 2):
        for params in itertools.product("VLN", repeat=n):
            for ret in "VLN":
                sigs.append((list(params), ret))
    per_sig = 14 if tier == "quick" else 400
    worlds = []
    for params, ret in sigs:
        full = [("f", params, ret)] + HELPERS + [("gl2", ["L"], "L")]
        log = []
        # every third registry is installed by assigning a new mapping to env.function_extensions
        worlds.append((params, ret, probes.reg_records(full), log, probes.make_env(jp, full, log, rebind=(len(worlds) % 3 == 1))))
    jobs = []
    for w, (params, ret, reg, log, env) in enumerate(worlds):
        for _ in range(per_sig):
            k = rng.random()
            nargs = len(params) if k < 0.9 else rng.choice([0, 1, 2, 3])
            call = "f(" + ", ".join(rng.choice(SHAPES) for _ in range(nargs)) + ")"
            if rng.random() < 0.05:
                call = "zz" + call[1:]
            jobs.append((w, rng.choice(POSITIONS).format(c=call)))
    rng.shuffle(jobs)
    for w, q in jobs:
        params, ret, reg, log, env = worlds[w]
        del log[:]
        rec = impl.rec_compile(jp, q, env=env, extra={"reg": reg})
        rec["ncalls"] = len(log)
        recs.append(rec)
    # the module-level default environment knows none of the probes
    for q in ["$[?f(@.a)]", "$[?kv(@.a) == 1]", "$[?gl(@.a)]", "$[?hn(@.*)]", "$[?length(@.a) == 1]"]:
        recs.append(impl.rec_compile(jp, q))
    # built-ins only, default environment
    for sh in SHAPES:
        for pos in POSITIONS:
            if rng.random() < (0.25 if tier == "quick" else 1.0):
                for fn in ("length", "count", "value"):
                    q = pos.format(c=f"{fn}({sh})")
                    recs.append(impl.rec_compile(jp, q, extra={"reg": probes.reg_records(HELPERS + [("gl2", ["L"], "L")])},
                                                 env=probes.make_env(jp, HELPERS + [("gl2", ["L"], "L")], [])))
    # GEN: all texts over the "calls" unit family (built-in functions in every argument / operand position)
    from .. import parserconf  # noqa: PLC0415
    ugens, uruns = parserconf.unit_texts(tier, "c05_units", sets=["calls"])
    for label, res in uruns:
        chk.add_tlc(label, res)
    recs += [impl.rec_compile(jp, core.dec_text(g["q"])) for g in ugens if g["why"] != "syntax"]
    chk.notes["unit_texts_calls"] = sum(1 for g in ugens if g["why"] != "syntax")
    from .. import corpus  # noqa: PLC0415
    recs += [impl.rec_compile(jp, q) for q in corpus.typed_builtin_texts()]
    bl = [("bl", ["L"], "L")]
    bl_env = probes.make_env(jp, bl, [])
    recs += [impl.rec_compile(jp, q, env=bl_env, extra={"reg": probes.reg_records(bl)}) for q in corpus.logical_param_skeletons(rng)]
    # one long-lived environment whose configuration changes between compiles of the SAME texts: what was
    # decided for a text under an earlier configuration must not be remembered
    texts = ["$[?f(@.a)]", "$[?f(@.*)]", "$[?f(@.a) == 1]", "$[?count(f(@.*)) > 0]", "$[5]", "$[-5:]", "$[?@[4] == 1]", "$[?g(@.a)]"]
    lived = probes.make_env(jp, [], [])
    stages = [([("f", ["V"], "L")], None, None), ([("f", ["N"], "N")], None, None), ([("f", ["V"], "V")], None, None),
              ([("f", ["V"], "L"), ("g", ["V"], "L")], -3, 3), ([("g", ["N"], "L")], -10, 10), ([("f", ["L"], "L")], None, None)]
    for sigs_now, lo, hi in stages:
        for name in ("f", "g"):
            lived.function_extensions.pop(name, None)
        helper = probes.make_env(jp, sigs_now, [])
        for name, _p, _r in sigs_now:
            lived.function_extensions[name] = helper.function_extensions[name]
        for attr, val in (("min_int_index", lo), ("max_int_index", hi)):
            if val is None:
                lived.__dict__.pop(attr, None)
            else:
                setattr(lived, attr, val)          # narrowed on the INSTANCE
        extra = {"reg": probes.reg_records(sigs_now)}
        if lo is not None:
            extra.update({"lo": probes.int_lit(lo), "hi": probes.int_lit(hi)})
        for _ in range(2):
            for q in texts:
                recs.append(impl.rec_compile(jp, q, env=lived, extra=extra))
    n_typing = len(recs)
    # integer range
    for lo, hi in [(None, None), (-(2**53) + 1, 2**53 - 1), (-10, 10), (0, 3), (-2**31, 2**31), (-(10**20), 10**20)]:
        if lo is None:
            # the library's OWN default range (nothing configured): RFC 9535 2.1's I-JSON range, on the module-level
            # functions and on a plain environment alternately
            lo, hi = -(2**53) + 1, 2**53 - 1
            env = None if rng.random() < 0.5 else jp.JSONPathEnvironment()
            extra = {}
        else:
            env = probes.make_env(jp, [], [], lo=lo, hi=hi)
            extra = {"lo": probes.int_lit(lo), "hi": probes.int_lit(hi)}
        pts = sorted({lo - 1, lo, lo + 1, hi - 1, hi, hi + 1, 0, 1, -1, lo * 10, hi * 10 + 1, lo - 10**6, hi + 10**6})
        for v in pts:
            for q in (f"$[{v}]", f"$[{v}:]", f"$[:{v}]", f"$[::{v}]", f"$[0,{v}]", f"$..[{v}:{v}:{v}]", f"$[?@[{v}] == 1]",
                      f"$[?count(@[1:{v}]) == 1]", f"$.a[?@.b][{v}]", f"$[?@[?@[{v}]]]"):
                recs.append(impl.rec_compile(jp, q, env=env, extra=extra))
    for r in recs:
        chk.nontrivial.add((tuple(r["q"]), str(r.get("reg", ""))[:80], str(r.get("lo"))))
    chk.sample({"query": core.dec_text(recs[10]["q"]), "f": recs[10]["reg"][0], "compile": recs[10]["out"], "cls": recs[10]["cls"]})
    chk.sample({"query": core.dec_text(recs[-1]["q"]), "lo_hi": [recs[-1].get("lo"), recs[-1].get("hi")], "compile": recs[-1]["out"]})
    common.judge(chk, recs, "c05", what="Trace: compile() outcomes vs Typing.tla (well-typedness, integer range)",
                 only=lambda c: c.startswith(("C05", "C03", "C13")))
    chk.rule = (
        f"{n_typing} typing records ({len(sigs)} signatures x {per_sig} seeded (argument shapes x position) + built-ins x "
        f"{len(SHAPES)} shapes x {len(POSITIONS)} positions sampled) + {len(recs) - n_typing} integer-range records (the default range + 5 configured ranges x "
        "13 boundary points x 10 syntactic positions); distinct = distinct (query, registry, range)"
    )
    chk.assumptions = ["RFC 9535 2.4.3 transcribed in Typing.tla, anchored by the 16 rows of the RFC's well-typedness table (selftest)"]


replay = common.replay_generic
