"""C01  Structural selection (segments, name/index/slice/wildcard) follows RFC 9535.

TRACE filter-free queries (every selector kind, selector lists with repeats,
      child/descendant mixes, shorthand/bracket/quote/escape/blank spellings,
      nasty member names) x documents (all small trees + seeded deep ones);
      every find() is validated by TLC against Eval.tla: same nodes, same order,
      duplicates kept, values at their locations, normalized paths.
"""
from __future__ import annotations

import random

from .. import core, gen, impl
from . import common

FIXED_TAILS = [
    "", ".a", ".b", "['a']", "[0]", "[1]", "[-1]", "[-2]", "[2]", "[*]", ".*", "[:]", "[1:]", "[::-1]", "[::2]", "[-1:0:-1]",
    "..a", "..b", "..*", "..[0]", "..[-1]", "..[*]", "..[0,1]", "..['a','b']", "[0,0]", "[*,*]", "['a','a']", "[0,'a']",
    "['b','a']", "[1,0]", "[-1,0,-1]", "[::-1,0]", "[*,0]", ".a.b", ".a[0]", "[0].a", "[0][0]", ".*.*", "[*][*]", "..*.*",
    "..a..b", "..*..*", "[*]..a", "..a[*]", "..[*,*]", ".a..[0]", "[0,1][0,1]", "..a.*", ".*..*",
]


def run(chk: core.Check, tier: str, seed: int) -> None:
    jp = core.import_repo()
    rng = random.Random(seed)
    recs = []
    # (1) all small trees x a fixed battery of queries
    docs = gen.all_docs(2, 2, [0, "a"], ["a", "b"])
    if tier == "quick":
        small = [d for d in docs if not isinstance(d, (int, str))]
        rng.shuffle(small)
        docs = small[:260] + [0, "a"]
    for d in docs:
        ed = core.enc_value(d)
        for t in (FIXED_TAILS if tier != "quick" else rng.sample(FIXED_TAILS, 14)):
            recs.append(impl.rec_find(jp, "$" + t, d, paths=True, edoc=ed))
    # every nasty member name in every spelling a string literal allows (raw, two-character escapes, \uXXXX
    # in both hex cases, surrogate-pair escapes), alone and followed / preceded by other characters
    sp2 = gen.Speller(rng, 2)
    for name in gen.NASTY_NAMES + ["x😀", "😀", "a\u0000b", "\ud7ff\ue000"]:
        d = {name: 1, name + "x": 2, "x" + name: 3, "z": {name: [4]}}
        ed = core.enc_value(d)
        spellings = {sp2.string(name) for _ in range(8)}
        q = "'"
        spellings.add(q + "".join(f"\\u{ord(c):04x}" if ord(c) < 0x10000 else
                                  f"\\u{0xD800 + ((ord(c) - 0x10000) >> 10):04X}\\u{0xDC00 + ((ord(c) - 0x10000) & 0x3FF):04x}"
                                  for c in name) + q)
        for lit in spellings:
            for t in (f"[{lit}]", f"[{lit[0]}x{lit[1:]}]", f"[{lit[:-1]}x{lit[-1]}]", f"..[{lit}]", f".z[{lit}, {lit}][0]"):
                recs.append(impl.rec_find(jp, "$" + t, d, paths=True, edoc=ed))
    # a root that is a string containing JSON text is a string (and so is such a string anywhere inside a document)
    for sdoc in gen.JSON_TEXT_STRINGS:
        for d in (sdoc, [sdoc], {"a": sdoc}):
            ed = core.enc_value(d)
            for t in ("", "[0]", ".a", "..*", "[*]", "[0][0]", ".a.a", "..[0]", "[:]"):
                recs.append(impl.rec_find(jp, "$" + t, d, paths=True, edoc=ed))
    # each selector kind on the WRONG kind of value: index / slice selectors on objects whose member names read like indices,
    # name selectors that read like indices on arrays, every selector on strings (a Python str can be subscripted and iterated)
    confusable = [{"0": "zero", "1": [1, 2], "-1": {"0": 5, "1": 6}, "2": 7, "a": "xyz"}, [{"0": 1, "1": 2, "-1": 3}, "str", ["0", "1"]],
                  {"a": {"0": {"0": 1}}, "b": "0"}, "xyz", ["ab", "c", ""]]
    conf_tails = FIXED_TAILS + ["['0']", "['1']", "['-1']", "[0,'0']", "['0',0]", "..[1]", "..['1']", "[-1]['0']", "['-1'][0]", ".a[0]", ".a[-1]",
                                ".a[:]", ".a[::-1]", ".a.*", ".a..*", "[1][0]", "[1][-1:]", "[0][0]", "[0][-1]", "..[0][0]", "[*][0]", "[*][-1:]",
                                ".a['0']['0']", ".a[0][0]", ".b[0]", "[2]['0']", "[2][0]"]
    for d in confusable:
        ed = core.enc_value(d)
        for t in conf_tails:
            recs.append(impl.rec_find(jp, "$" + t, d, paths=True, edoc=ed))
    # the configured limits are about HOW DEEP the data may be, never about what is selected: environments with raised, lowered and
    # late-changed max_recursion_depth (and other integer ranges) give the same nodelists on data within them
    from .. import probes  # noqa: PLC0415
    lim_docs = [[[1], [2], [3, [4]]], {"a": [{"b": 1}, {"b": [2]}, [3, [4, {"a": 5}]]], "b": {"a": [[6], [7]]}}, [{"a": [0, [1]]}, [[2]], 3]]
    late = probes.make_env(jp, [], [])
    late.max_recursion_depth = 700
    for lenv in (probes.make_env(jp, [], [], max_depth=201), probes.make_env(jp, [], [], max_depth=5000), probes.make_env(jp, [], [], max_depth=6),
                 probes.make_env(jp, [], [], lo=-3, hi=3), probes.make_env(jp, [], [], lo=-(2 ** 70), hi=2 ** 70), late):
        for d in lim_docs:
            ed = core.enc_value(d)
            for t in ("..*", "..[0]", "..a", "..[*]", "..[-1]", "..[1:]", "[*]..[0]", "..[0, 1]", "..['a', 0]", "..[*, 'a']", ".a..b", "..[::-1]"):
                recs.append(impl.rec_find(jp, "$" + t, d, env=lenv, paths=True, edoc=ed))
    n_fixed = len(recs)
    # (2) seeded random queries over deeper documents, plain and nasty names
    n_rand = 6000 if tier == "quick" else 120000
    for k in range(n_rand):
        nasty = k % 3 == 0
        names = gen.NASTY_NAMES if nasty else gen.PLAIN_NAMES
        d = gen.rand_doc(rng, depth=rng.randint(1, 4), width=rng.randint(1, 4), names=names)
        dn = sorted(gen.names_in(d)) or list(names[:2])
        qg = gen.QueryGen(rng, dn + [rng.choice(list(names))], level=rng.choice([0, 1, 2]))
        q = qg.query(depth=0, allow_filter=False)
        try:
            recs.append(impl.rec_find(jp, q, d, paths=True))
        except core.Unrepresentable:
            chk.skipped += 1
    for r in recs:
        if r.get("locs"):
            chk.nontrivial.add((tuple(r["q"]), str(r["doc"])))
    chk.sample({"query": core.dec_text(recs[3]["q"]), "doc": core.dec_value(recs[3]["doc"]), "locs": recs[3]["locs"]})
    chk.sample({"query": core.dec_text(recs[-1]["q"]), "doc": core.dec_value(recs[-1]["doc"]), "locs": recs[-1]["locs"]})
    common.judge(chk, recs, "c01", what="Trace: filter-free find() records vs Eval.tla",
                 only=lambda c: c.startswith(("C13 find", "C03")) or not c.startswith(("C03", "C13")))
    chk.rule = (
        f"{n_fixed} records = small trees (height<=2, width<=2, names a/b, scalars 0/'a') x fixed query battery; "
        f"{n_rand} seeded records = random filter-free queries (1-4 segments, selector lists, all spellings) on random "
        "documents of depth<=4 (1/3 with nasty member names); non-trivial = distinct (query, doc) with a non-empty result"
    )
    chk.assumptions = ["the transcription of RFC 9535 2.3/2.5 in Eval.tla, anchored by the RFC example tables (./check selftest)"]


replay = common.replay_generic
