"""C02  Filter selection follows RFC 9535 (existence, logic, scoping, iteration).

TRACE  filter queries built from ~45 atoms (tests on '@'/'$' queries of every
       shape, comparisons, function calls, nested filters to depth 3) combined
       with ! && || and parentheses, in minimal and fully parenthesised form,
       applied to an array and an object whose children cover 21 value kinds
       (0, false, "", null, [], {}, ...), to scalars, and seeded random filter
       queries on random documents; every find() validated by TLC (Eval.tla).
"""
from __future__ import annotations

import itertools
import random

from .. import core, gen, impl
from . import common

KINDS = [0, 1, 1.5, "", "a", True, False, None, [], [0], [[]], {}, {"a": 0}, {"a": None}, {"a": {"b": 1}}, {"b": 1},
         [{"b": 2}, 1], {"a": [1, {"b": 0}], "b": False},
         # strings where a multi-segment '@' query puts an index or a slice (a Python str can be subscripted; a JSON string has no elements)
         {"a": "xyz"}, ["xy", "z"], "xyz"]

ATOMS = [
    "@", "@.a", "@[0]", "@.*", "@..b", "@.a.b", "@[0][0]", "@['a','b']", "@[::-1]", "$.x", "$.nope", "$.y[0]", "$.z", "$..b",
    "@ == 0", "@ == false", "@ == null", "@ == ''", "@ == 'a'", "@ == 1.5", "@.a == null", "@.a == 0", "@ == $.x", "@ != $.nope",
    "@.a != @.b", "@ < 1", "@ <= 1", "@ >= 'a'", "@ > ''", "1 == @", "$.x == @", "@.a == @.a", "@.nope == @.nada", "@[0] == 0",
    "count(@.*) > 0", "count(@..*) == 1", "length(@) == 0", "length(@) >= 1", "length(@.a) == 1", "value(@.*) == 0",
    "value(@..b) == 1", "match(@, 'a')", "search(@, 'a|0')", "@[?@.b]", "@[?@ == 0]", "@[?$.x == 1]", "@[?@ == $.x]",
    "@[?@[?$.x]]", "@.*[?@]", "@[?!@]", "@[?@[?@ == $.x]]", "$.y[?@ == 1]", "$.arr[?@ == 0]", "$[?@]",
    # singular queries of two segments whose LAST index lands on a string
    "@.a[0]", "@[0][1]", "@[0][-1]", "@.a[-1] == 'z'", "@[0][0] == 'x'", "@.a[0:2]", "@[1][0]", "$.y[1][0]", "$.y[1][0] == 'a'",
]


def combos(rng: random.Random, n: int):
    out = list(ATOMS)
    out += ["!" + a if not any(op in a for op in ("==", "!=", "<", ">")) else "!(" + a + ")" for a in ATOMS]
    pick = lambda: rng.choice(ATOMS)  # noqa: E731
    templates = [
        "{a} && {b}", "{a} || {b}", "{a} || {b} && {c}", "{a} && {b} || {c}", "({a} || {b}) && {c}", "{a} && ({b} || {c})",
        "!({a} && {b})", "!({a} || {b})", "!({a}) || {b}", "({a})", "(({a}))", "!(!({a}))", "{a} && !({b}) || {c} && {d}",
        "({a} || {b}) && ({c} || {d})", "{a} || {b} || {c}", "{a} && {b} && {c}", "!({a} || {b} && {c})",
    ]
    for _ in range(n):
        t = rng.choice(templates)
        out.append(t.format(a=pick(), b=pick(), c=pick(), d=pick()))
    return out


def full_parens(expr: str) -> str:
    return "(" + expr + ")"


def run(chk: core.Check, tier: str, seed: int) -> None:
    jp = core.import_repo()
    rng = random.Random(seed)
    arr = list(KINDS)
    obj = {f"k{i}": v for i, v in enumerate(KINDS)}
    root = {"arr": arr, "o": obj, "x": 1, "y": [1, "a"], "z": None, "b": {"b": 1}}
    root_arr = arr + [{"x": 1}]
    recs = []
    exprs = combos(rng, 250 if tier == "quick" else 6000)
    e_root, e_arr = core.enc_value(root), core.enc_value(root_arr)
    for e in exprs:
        for form in (e, full_parens(e)):
            recs.append(impl.rec_find(jp, f"$.arr[?{form}]", root, edoc=e_root))
            recs.append(impl.rec_find(jp, f"$.o[?{form}]", root, edoc=e_root))
        recs.append(impl.rec_find(jp, f"$[?{e}]", root_arr, edoc=e_arr))
        recs.append(impl.rec_find(jp, f"$..[?{e}]", root_arr, edoc=e_arr) if rng.random() < 0.3
                    else impl.rec_find(jp, f"$.arr[?{e}, ?{rng.choice(ATOMS)}]", root, edoc=e_root))
    # filters applied to scalars select nothing
    for e in rng.sample(ATOMS, 12):
        for sc in (0, "abc", None, True, 1.5):
            recs.append(impl.rec_find(jp, f"$[?{e}]", sc))
            recs.append(impl.rec_find(jp, f"$.s[?{e}]", {"s": sc, "x": 1}))
    # one compiled query (rec_find caches by text) applied to a run of short-lived documents that differ
    # only in what '$' sees: anything remembered about the previous document's root shows up here
    for q in ["$.items[?@.k == $.want]", "$.items[?$.on]", "$.items[?@.k == $.want || $.all]", "$..[?@ == $.want]",
              "$.items[?@[?@ == $.want]]", "$.items[?count($.items[?@.k == $.want]) == 1]", "$.items[?@.k != $.nope]"]:
        for k in range(24):
            d = {"want": k % 3, "on": (k % 4 == 0) or None, "all": k % 5 == 0, "items": [{"k": 0}, {"k": 1}, {"k": 2}, [k % 3], k % 3]}
            if d["on"] is None:
                del d["on"]
            recs.append(impl.rec_find(jp, q, d))
            del d
    # a nondeterministic environment may reorder object members only: filters on ARRAYS keep their order
    from .. import probes  # noqa: PLC0415
    nd_env = probes.make_env(jp, [], [], nondeterministic=True)
    for e in rng.sample(exprs, 60 if tier == "quick" else 1500):
        for _ in range(3):
            recs.append(impl.rec_find(jp, f"$.arr[?{e}]", root, env=nd_env, edoc=e_root))
        recs.append(impl.rec_find(jp, f"$[?{e}]", root_arr, env=nd_env, edoc=e_arr))
        recs.append(impl.rec_find(jp, f"$.arr[?{e}, 0, ?{e}]", root, env=nd_env, edoc=e_root))
    recs += common.inplace_edit_records(jp, common.ROOT_QUERIES)
    n_sys = len(recs)
    n_rand = 3000 if tier == "quick" else 80000
    for k in range(n_rand):
        names = gen.NASTY_NAMES if k % 5 == 0 else gen.PLAIN_NAMES
        d = gen.rand_doc(rng, depth=rng.randint(1, 4), width=rng.randint(1, 4), names=names, p_container=0.7)
        dn = sorted(gen.names_in(d)) or list(names[:2])
        qg = gen.QueryGen(rng, dn + [rng.choice(list(names))], level=rng.choice([0, 1, 2]))
        q = qg.filter_query(depth=rng.choice([1, 2, 2, 3]))
        if rng.random() < 0.3:
            q += qg.segments(1, True, 1)
        try:
            recs.append(impl.rec_find(jp, q, d))
        except core.Unrepresentable:
            chk.skipped += 1
    for r in recs:
        if r.get("locs"):
            chk.nontrivial.add((tuple(r["q"]), str(r["doc"])[:200]))
    chk.sample({"query": core.dec_text(recs[40]["q"]), "locs": recs[40]["locs"]})
    chk.sample({"query": core.dec_text(recs[-1]["q"]), "doc": core.dec_value(recs[-1]["doc"]), "locs": recs[-1]["locs"]})
    common.judge(chk, recs, "c02", what="Trace: filter find() records vs Eval.tla",
                 only=lambda c: c.startswith(("C13 find", "C03")) or not c.startswith(("C03", "C04", "C05", "C13")))
    chk.rule = (
        f"{n_sys} systematic records ({len(ATOMS)} atoms and their negations, {len(exprs) - 2 * len(ATOMS)} seeded "
        f"and/or/not/paren combinations, minimal and fully parenthesised, on an array and an object with {len(KINDS)} child kinds, "
        f"under child/descendant segments and selector lists, and on scalars) + {n_rand} seeded random filter queries; "
        "non-trivial = distinct (query, doc) selecting at least one node"
    )
    chk.assumptions = ["the transcription of RFC 9535 2.3.5 in Eval.tla, anchored by the RFC example tables"]


replay = common.replay_generic
