"""C13  compile() and find() are total: they return or raise a JSONPathError.

TRACE  outcome class of compile() for: the C03/C04 corpora (valid, almost valid,
       garbage), random Unicode strings, and long inputs up to 1,024 characters
       with bracket / parenthesis / filter nesting up to 32 ('!' runs, digit
       runs, exponent runs, long names and string literals, deep nestings);
       every query that compiles is evaluated on every JSON kind as root and as
       the child under test, under a wall-clock guard.  TLC validates each
       record: outcome in {return, raise(c) with c derived from JSONPathError},
       the error's string form can be produced, no timeout; for texts the
       specification judges valid the full find() result is checked as well.
"""
from __future__ import annotations

import random

from .. import core, corpus, gen, impl
from . import common
from .c04 import LEXEMES

ROOTS = [None, True, False, 0, 1.5, "", "ab", [], {}, [0, False, "", None, [], {}, 1, "a", [1], {"a": 1}, "ax", "a\r", "aa", "food", "a{2}", ".", "x\n"],
         {"a": 0, "b": False, "c": "", "d": None, "e": [], "f": {}, "g": [1, {"a": [1]}], "h": {"a": {"a": 1}}}]


def long_inputs(rng: random.Random):
    out = []
    for n in (2, 31, 32, 33, 200, 1000):
        out += ["$[?" + "!" * n + "@.a]", "$[?" + "!(" * min(n, 32) + "@.a" + ")" * min(n, 32) + "]",
                "$[?@.a == " + "1" * n + "]", "$[?@.a == 1e" + "9" * n + "]", "$[?@.a == 1." + "0" * n + "e-" + "0" * n + "1]",
                "$[" + "1" * n + "]", "$[?@.a == -" + "0" * n + "]", "$." + "a" * n, "$['" + "\\u0041" * (n // 6 + 1) + "']",
                "$['" + "\\" * n + "']", "$" + "[0]" * min(n, 340), "$" + ".a" * min(n, 500), "$" + "..a" * min(n, 340),
                "$" + "[?@" * min(n, 32) + "]" * min(n, 32), "$[?" + "(" * min(n, 32) + "@.a" + ")" * min(n, 32) + "]",
                "$[?" + "count(" * min(n, 32) + "@.*" + ")" * min(n, 32) + " == 1]", "$[?" + "@.a && " * min(n, 140) + "@.b]",
                "$[?" + "@.a || " * min(n, 140) + "@.b]", "$[" + "0," * min(n, 500) + "0]", "$[?" + "@[?" * min(n, 32) + "@.a" + "]" * min(n, 32) + "]",
                "$[?@.a == '" + "x" * n + "']", "$[" + " " * n + "0]", "$" + "[" * n, "$" + "]" * n, "$[?" + "(" * n, "$[?" + ")" * n,
                # MALFORMED string literals with a long run of ordinary characters before the defect (a scanner that backtracks over
                # the run is exponential in its length): unclosed, unknown escape, the other quote escaped, a raw control character
                "$['" + "x" * n, "$['" + "x" * n + "\\q']", "$['" + "x" * n + "\\\"']", "$[\"" + "x y" * (n // 3 + 1) + "\\'\"]", "$['" + "x" * n + "\t']",
                "$[?@.a == '" + "ab" * (n // 2 + 1) + "\n']", "$[?@ == \"" + "x" * n + "\\u12\"]", "$['" + "x" * n + "\\ud800']", "$['" + "é😀" * (n // 2 + 1) + "\\",
                "$[?length(" * min(n, 32) + "@" + ")" * min(n, 32) + " == 1]", "$[?match(@, '" + "(" * min(n, 32) + "a" + ")" * min(n, 32) + "')]",
                "$[?match(@, '" + "a*" * min(n, 400) + "b')]", "$[?search(@, '" + "[" * n + "')]", "$[?@ == " + "-" * n + "1]"]
    return [s[:1024] for s in out]


def run(chk: core.Check, tier: str, seed: int) -> None:
    jp = core.import_repo()
    rng = random.Random(seed)
    texts = list(corpus.SEEDS) + corpus.repo_test_queries() + long_inputs(rng) + corpus.literal_queries() + corpus.skeletons(rng)
    texts += corpus.valid_candidates(rng, 1500 if tier == "quick" else 40000)
    base = list(texts)
    for s in base[: (400 if tier == "quick" else 5000)]:
        texts += gen.neighbours(s, rng, 6)
    for _ in range(3000 if tier == "quick" else 100000):
        texts.append("$" + "".join(rng.choice(LEXEMES) for _ in range(rng.randint(1, 12))))
    uni = [chr(c) for c in (0, 1, 9, 10, 13, 31, 32, 34, 36, 39, 46, 63, 64, 91, 92, 93, 127, 128, 255, 0x2028, 0xD7FF, 0xE000, 0xFFFF,
                             0x10000, 0x1F600, 0x10FFFF)] + list("$.[]?@*'\"\\(),:!=<>&|-01eEax_ ")
    for _ in range(2000 if tier == "quick" else 60000):
        texts.append("".join(rng.choice(uni) for _ in range(rng.randint(0, 24))))
        texts.append("$" + "".join(rng.choice(uni) for _ in range(rng.randint(0, 24))))
    from .c19 import inject  # noqa: PLC0415
    for t in list(base[:600]):
        texts.append(inject(t, rng) + "\n")
        texts.append(t + "\n\n")
        texts.append(inject(t.replace("[", "[\n"), rng))
    for t in gen.neighbours("$.a\n.b\n[?@.c ==\n1]\n", rng, 60):
        texts.append(t)
    texts += corpus.typed_builtin_texts() + corpus.SEEDS_INVALID_INTS
    # regular expressions of every shape are evaluated too (the pattern's last / first character, quantified dots, ...)
    from .c11 import ATOMS, DONTCARE, INVALID as RE_INVALID, QUANTS  # noqa: PLC0415
    res = ["a.", ".", "..", "a.*.", "(a|x).*.", "[.]", "a\\.", ".a", "a|.", "(.)", ".?", ".{2}", "a{2}", "ab{1,3}", "x{0}y", "a{2,}", "a|b", "foo|bar|baz"]
    res += [a + q for a in ATOMS[:30] for q in QUANTS[:6]] + DONTCARE + RE_INVALID[:20]
    sp0 = gen.Speller(rng, 0)
    for pat in dict.fromkeys(res):
        texts.append(f"$[?match(@, {sp0.string(pat)})]")
        texts.append(f"$[?search(@.a, {sp0.string(pat)}) || match(@, {sp0.string(pat)})]")
    texts = list(dict.fromkeys(texts))
    recs = []
    compiled = 0
    # the long inputs first, in a child process that can be killed: a scanner that backtracks exponentially over a long run of
    # characters never comes back to the interpreter, and no in-process guard could end it
    longs = [t for t in dict.fromkeys(long_inputs(rng)) if len(t) > 24]
    lrecs, ltimeouts = impl.isolated_compile_records(longs, per_text=10.0)
    recs += lrecs
    chk.notes["long_inputs_in_a_killable_child"] = len(lrecs)
    chk.notes["long_inputs_not_run_after_repeated_timeouts"] = len(longs) - len(lrecs)
    slow = set()
    if ltimeouts:
        # the tree does not terminate on some long input: the in-process corpus below keeps to short texts
        slow = {core.dec_text(r["q"]) for r in lrecs if r.get("timeout")}
        texts = [t for t in texts if len(t) <= 24]
    for q in texts:
        if q in slow:
            continue
        timed_out, rec = impl.with_timeout(20.0, impl.rec_compile, jp, q)
        if timed_out:
            rec = {"op": "compile", "q": core.enc_text(q), "out": "raise", "jp": True, "cls": "timeout", "timeout": True}
        recs.append(rec)
        if rec["out"] == "ok":
            compiled += 1
            for doc in (ROOTS if len(q) < 200 and rng.random() < 0.15 else rng.sample(ROOTS, 2)):
                if len(q) <= 120:
                    try:
                        recs.append(impl.rec_find(jp, q, doc))
                        continue
                    except core.Unrepresentable:
                        pass
                recs.append(impl.rec_total(jp, q, doc))
    # comparisons and function calls on DEEP data, without any descendant segment (the library's own limit is not
    # involved): values as deep as a JSON decoder produces them
    def _deep(n, leaf, kind):
        d = leaf
        for i in range(n):
            d = [d] if (kind == "arr" or (kind == "mix" and i % 2)) else {"a": d}
        return d

    for n in (400, 600, 900, 2000, 3500):
        for kind in ("arr", "obj", "mix"):
            doc = [{"a": _deep(n, 1, kind), "b": _deep(n, 1, kind), "c": _deep(n, 2, kind), "d": _deep(n, 1.0, kind)}, {"a": _deep(n, 1, kind)}]
            for q in ("$[?@.a == @.b]", "$[?@.a != @.c]", "$[?@.a == @.d]", "$[?value(@.a) == value(@.b)]", "$[?length(@.a) >= 1]", "$[?count(@.*) > 1]",
                      "$[?@.a <= @.b]", "$[?@.a == $[1].a]", "$[?match(@.a, 'a')]", "$[?value(@.a) != 1]", "$[0].a", "$[?@.a]", "$[0]['a', 'b']"):
                recs.append(impl.rec_total(jp, q, doc))
            del doc
    # evaluation-time errors must be JSONPathErrors whose string form can be produced (descendant segments over data
    # deeper than the default limit, cyclic data)
    cyc = {"a": []}
    cyc["a"].append(cyc)
    for doc in (_deep(150, 1, "arr"), _deep(150, 1, "mix"), [_deep(150, 1, "obj")], cyc):
        for q in ("$..*", "$[0]..*", "$[?count(@..*) > 0]", "$..[?@..a]", "$.a..a", "$\n..\n*"):
            recs.append(impl.rec_total(jp, q, doc))
    # regular expressions that keep a backtracking engine busy for a second or so, and then finish: slow is not an error
    # ((a|a)*b against a^22 bc: about a second of backtracking here, about 3 s for a^24)
    for pat, n in (("(a|a)*b", 22), ("(a|a)*b", 23), ("(a|aa)*b", 30)):
        recs.append(impl.rec_total(jp, f"$[?match(@, '{pat}')]", ["a" * n + "bc", "ab"]))
    # strings as a JSON decoder really produces them: json.loads('"\\ud800"') is a str with an unpaired surrogate - as the
    # pattern, the subject, a member name, a comparand (outside the value model, so only totality is judged)
    import json as _json  # noqa: PLC0415
    lone = [_json.loads(s) for s in ('"\\ud800"', '"a\\udfffb"', '"\\udc00\\ud800"', '"[\\ud83d]"', '"\\ud800*"', '"a|\\udbff"')]
    for s in lone:
        doc = [s, "a", {"p": s, "s": "a"}, {"p": "a", "s": s}, {s: 1, "p": "a", "s": "b"}, [s, s]]
        for q in ("$[?match(@, $[0])]", "$[?search(@, $[0])]", "$[?match(@.s, @.p)]", "$[?search(@.s, @.p)]", "$[?match($[0], 'a')]",
                  "$[?search($[0], '.')]", "$[?@ == $[0]]", "$[?@ < $[0]]", "$[?@.p >= @.s]", "$[?length(@) == 1]", "$[4].*", "$[4][?@]",
                  "$..*", "$[?@[0] == @[1]]", "$[?value(@.p) != $[0]]", "$[?count(@.*) == 3]"):
            recs.append(impl.rec_total(jp, q, doc))
            recs.append(impl.rec_total(jp, q, doc, paths=True))
    # number literals with huge exponents: compile, evaluate and serialise (accepted or refused, but never another exception)
    for lit in ("1e400", "1e4300", "12e4299", "-1e5000", "1e309", "9e307", "1.5e308", "1.0e4300", "1e-400", "1e-5000", "123456789e4290", "1E+4300"):
        for q in (f"$[?@ == {lit}]", f"$[?@.a < {lit} || @ > {lit}]", f"$[?length(@) >= {lit}]"):
            for doc in ([1, 1e308, 10 ** 400, {"a": 0}], [float("inf"), -1.0]):
                recs.append(impl.rec_total(jp, q, doc))
    # user-registered functions (classes without docstrings, a zero-parameter one among them) called with every number of arguments,
    # compared and uncompared: whatever a diagnostic says about a function, building it must not fail
    from .. import probes as _probes  # noqa: PLC0415
    usigs = [("f0", [], "L"), ("f1", ["V"], "L"), ("g1", ["V"], "V"), ("n2", ["N", "V"], "N"), ("l2", ["L", "L"], "L")]
    uenv = _probes.make_env(jp, usigs, [])
    uextra = {"reg": _probes.reg_records(usigs)}
    uargs = ["@.a", "1", "'x'", "@.*", "@.a == 1", "g1(@.a)", "f0()", "(@.a)", "!@.a"]
    for name, params, _ret in usigs:
        for n in range(0, 4):
            for _ in range(3 if n else 1):
                call = name + "(" + ", ".join(rng.choice(uargs) for _ in range(n)) + ")"
                for q in (f"$[?{call}]", f"$[?{call} == 1]", f"$[?!{call} || @.b]", f"$[?count({call}) == 1]"):
                    recs.append(impl.rec_compile(jp, q, env=uenv, extra=uextra))
    # environments configured with an integer range far beyond the host's machine words (2^70): indices, slice bounds and steps
    # around 2^31, 2^63, 2^64 - on arrays, objects, strings - evaluate or raise a JSONPathError like any other
    from .. import probes  # noqa: PLC0415
    for nd_flag in (False, True):
        wide = probes.make_env(jp, [], [], lo=-(2 ** 70), hi=2 ** 70, nondeterministic=nd_flag)
        big = [2 ** 31 - 1, 2 ** 31, 2 ** 63 - 1, 2 ** 63, 2 ** 64, 2 ** 64 + 1, 2 ** 70]
        for b in big:
            for q in (f"$[{b}]", f"$[-{b}]", f"$[{b}:]", f"$[:{b}]", f"$[::{b}]", f"$[::-{b}]", f"$[-{b}:]", f"$[:-{b}]", f"$[1:{b}:2]", f"$[{b}:0:-1]",
                      f"$..[{b}:]", f"$[?@[:{b}]]", f"$[0, {b}, 1:{b}]", f"$[?count(@[::{b}]) == 1]"):
                for doc in ([1, 2, 3], [[1, 2], "ab", {"a": 1}], {"a": [1, 2, 3]}, "abc", []):
                    recs.append(impl.rec_total(jp, q, doc, env=wide, paths=True))
    # the nondeterministic mode is total as well
    nd = probes.make_env(jp, [], [], nondeterministic=True)
    for q in corpus.SEEDS + ["$..[?@]", "$[?@.a]", "$..[?@.a == 1]", "$.*[?@]", "$[?count(@[?@]) > 0]", "$..*", "$[*]", "$..[*, ?@]"]:
        for doc in ROOTS:
            recs.append(impl.rec_total(jp, q, doc, env=nd))
    # evaluation on comparisons whose BOTH sides come from the data, over every pair of kinds
    from .c06 import COMPARANDS, NOTHING  # noqa: PLC0415
    vals = [c for c in COMPARANDS if c is not NOTHING]
    pairs = [(a, b) for a in vals for b in vals]
    for a, b in (rng.sample(pairs, 500) if tier == "quick" else pairs):
        doc = {"t": [{"l": a, "r": b}, {"l": b}, {"r": [a, b]}], "ref": b}
        for q in ("$.t[?@.l == @.r]", "$.t[?@.l <= $.ref]", "$.t[?value(@.l) != value(@.r)]", "$.t[?@.r[0] >= @.r[1]]",
                  "$.t[?match(@.l, @.r) || search(@.r, @.l)]", "$.t[?length(@.l) == length(@.r)]"):
            recs.append(impl.rec_total(jp, q, doc))
    for r in recs:
        chk.nontrivial.add((tuple(r["q"]), r["op"], str(r.get("doc"))[:60]))
    longest = max(recs, key=lambda r: len(r["q"]))
    chk.sample({"text_prefix": core.dec_text(longest["q"])[:80], "length": len(longest["q"]), "outcome": longest["out"], "cls": longest["cls"]})
    chk.sample({"text": core.dec_text(recs[-1]["q"]), "outcome": recs[-1]["out"], "cls": recs[-1]["cls"]})
    chk.notes["texts"] = len(texts)
    chk.notes["compiled"] = compiled
    common.judge(chk, recs, "c13", what="Trace: outcome classes of compile()/find()",
                 only=lambda c: c.startswith("C13"))
    chk.rule = (
        f"{len(texts)} distinct texts (valid corpus, single-edit neighbours, lexeme sequences, random Unicode strings, "
        f"{len(long_inputs(rng))} long/deep inputs up to 1,024 characters and nesting 32); {compiled} compiled and were evaluated on "
        f"roots of every JSON kind ({len(ROOTS)} documents); distinct = distinct (text, call, document)"
    )
    chk.assumptions = ["termination of Python code is observed through a 20 s wall-clock guard per call, not proved"]


replay = common.replay_generic
