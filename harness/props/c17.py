"""C17  Nondeterministic mode only ever produces orderings RFC 9535 allows (and all of them).

MC     Descent.tla: LinExts / AllowedResults (what the RFC permits, as sets) and the
       randomised visitor RndVisit (queue + order-preserving random merge) as a state
       machine with every random choice an explicit \\E: T8a pre-order is permitted;
       T8b every completed run is a permitted order (invariant on all branches); T8c
       the set of completed runs EQUALS LinExts on the witness shapes (root with three
       container children: size alone does not reach them); cardinalities 72 / 3
       cross-checked against an independent brute-force enumeration.
TRACE  the implementation's own choice tree is explored exhaustively by rebinding
       the name `random` in segments/selectors to an enumerating chooser (no repo
       change): for each (query, document) the set of distinct results over ALL
       outcomes is validated by TLC: subset of AllowedResults (validity) and, when
       the tree was explored completely, equal to it (exhaustiveness).  Larger
       documents: seeded random outcomes, validity only.
"""
from __future__ import annotations

import json
import random

from .. import chooser, core, gen, impl, probes
from . import common

WITNESSES = [
    {"a": {"x": {"w": 0}}, "b": {"y": 0}, "c": {"z": 0}},
    [[[0]], [0], [0]],
    [{"a": 0, "b": [0, 0]}, [0]],
    {"a": [0, [0]], "b": 0},
    [0, [0, 0], {"a": 0}],
    {"a": [[0], 0], "b": {"c": []}},
    {"a": {"b": 1}, "c": [1, {"a": 2}], "d": 1},
    [[1, 2], {"a": [3]}, 4],
    {"a": 1, "b": 2, "c": 3},
    [{"a": 1, "b": 2}, {"a": 3}],
    0, [], {},
]
QUERIES = ["$..*", "$..[?@]", "$..a", "$..[0]", "$..[*, 0]", "$[*]", "$.*", "$[?@]", "$..*.*", "$.*..*", "$..[?@ == 0]", "$..[0, 'a']",
           "$[*, *]", "$..[?@.a]", "$.*[*]", "$..[-1]", "$..[::-1]", "$[?@ > 0].*" if False else "$[?@].*"]


SINGLE_SEGMENT = ["$..*", "$..[?@]", "$..a", "$..[0]", "$..[*, 0]", "$[*]", "$.*", "$[?@]", "$..[?@ == 0]", "$..[0, 'a']", "$..[-1]"]


def allowed_upper_bound(doc) -> int:
    """An upper bound on the number of results RFC 9535 permits for a one-segment query on doc:
    n! / prod(subtree sizes) visit orders (array order only lowers it) x member permutations."""
    import math  # noqa: PLC0415

    sizes = []
    perms = 1

    def size(v):
        nonlocal perms
        kids = list(v.values()) if isinstance(v, dict) else (v if isinstance(v, list) else [])
        if isinstance(v, dict):
            perms *= math.factorial(len(kids))
        n = 1 + sum(size(x) for x in kids)
        sizes.append(n)
        return n

    n = size(doc)
    bound = math.factorial(n)
    for sz in sizes:
        bound //= sz
    return bound * perms


_TIMEOUTS = [0]
DISTURB = [[1, {"a": 1}], [2, {"a": [2]}], {"a": [3, [4]]}]


def outputs_of(jp, env, q, doc, cap, late_flag=False, depth_limit=None, late_policy="first"):
    from .. import impl  # noqa: PLC0415

    if late_flag:
        # compile first, switch nondeterminism on afterwards, on the instance
        env = jp.JSONPathEnvironment()
        jp.DEFAULT_ENV.compile(q)          # the (deterministic) default environment has seen the text before
        c = env.compile(q)
        env.nondeterministic = True
    else:
        # another instance of the same class, deterministic on the instance, has seen the text before
        impl._sibling_first(jp, env, q)
        c = env.compile(q)

    def go():
        # the compiled query has a past: evaluations over ANOTHER document abandoned after a few nodes, with siblings still pending
        # (their random choices are muted: the explored tree is the tree of the evaluation under test)
        with chooser.muted():
            try:
                it = iter(c.finditer(DISTURB))
                for _ in range(4):
                    next(it, None)
                del it
                c.find_one(DISTURB)
            except Exception:  # noqa: BLE001
                pass
        try:
            return tuple(tuple(n.location) for n in c.find(doc))
        except Exception as err:  # noqa: BLE001
            return ("raised", type(err).__name__)

    def one():
        # an evaluation that does not finish is reported as ("raised", "timeout") and ends the exploration of this case
        timed_out, res = impl.with_timeout(20.0 if _TIMEOUTS[0] < 2 else 3.0, go)
        if timed_out:
            _TIMEOUTS[0] += 1
            return ("raised", "did not finish within the time limit")
        return res

    results, complete, runs = chooser.explore(jp, one, cap=cap, stop=lambda r: r == ("raised", "did not finish within the time limit"),
                                              depth_limit=depth_limit, late_policy=late_policy)
    return results, complete, runs


def run(chk: core.Check, tier: str, seed: int) -> None:
    jp = core.import_repo()
    rng = random.Random(seed)
    # ---- MC: the design ------------------------------------------------------------
    thm_cfg = "SPECIFICATION DSpec\nCONSTANTS\n  Graphs <- MCGraphs\n  Limits = {1}\n  Modes = {\"det\"}\nCHECK_DEADLOCK FALSE\n"
    thm = "MC_DescentThmQ" if tier == "quick" else "MC_DescentThm"
    res0 = core.require_ok(core.run_tlc(thm, thm_cfg, name="mc_descent_thm", heap="8g", timeout=3000, workers=4), thm)
    chk.add_tlc(f"{thm}: T8a pre-order is permitted; |LinExts(W1)|=210, |AllowedResults($..*)|=72 / 3", res0)
    res1 = core.require_ok(core.run_tlc("MC_DescentLE", thm_cfg, name="mc_descent_le", heap="8g", timeout=3000, workers=4), "MC_DescentLE")
    module = "MC_DescentW" if tier == "quick" else "MC_DescentT"
    cfg = ("SPECIFICATION DSpec\nCONSTANTS\n  Graphs <- MCGraphs\n  Limits = {100}\n  Modes = {\"det\", \"rnd\"}\n"
           "INVARIANT T8b_Valid\nINVARIANT T8d_Outcome\nINVARIANT ExportDone\nPROPERTY T8d_Terminates\nPROPERTY T8d_Progress\n"
           "CHECK_DEADLOCK FALSE\n")
    res = core.require_ok(core.run_tlc(module, cfg, name="mc_descent", heap="12g", timeout=6000), module)
    chk.add_tlc(f"{module}: RndVisit / DetVisit on tree-shaped graphs: T8b (all branches), T8d", res)
    res.out = res1.out + "\n" + res.out
    linext = None
    done = {}
    for line in res.out.splitlines():
        line = line.strip()
        if line.startswith('"LINEXT '):
            linext = json.loads(json.loads(line)[7:])
        elif line.startswith('"GEN '):
            g = json.loads(json.loads(line)[4:])
            if g["mode"] == "rnd" and g["status"] == "done":
                key = json.dumps([g["kids"], g["obj"]])
                done.setdefault(key, set()).add(tuple(g["ids"]))
    if not linext:
        raise core.MachineryError("MC_Descent did not print the permitted orders")
    for w in linext:
        key = json.dumps([w["g"]["kids"], w["g"]["obj"]])
        want = {tuple(le) for le in w["le"]}
        got = done.get(key, set())
        if got != want:
            raise core.MachineryError(f"T8c fails in the specification itself: RndVisit reaches {len(got)} of {len(want)} orders on {key}")
    chk.notes["T8c_witness_graphs"] = len(linext)
    chk.notes["T8c_orders_compared"] = sum(len(w["le"]) for w in linext)

    # ---- TRACE: the implementation's own choice tree ------------------------------------
    env = probes.make_env(jp, [], [], nondeterministic=True)
    docs = list(WITNESSES)
    small = gen.all_docs(2, 2, [0], ["a", "b"])
    if tier == "quick":
        rng.shuffle(small)
        small = small[:40]
    docs += small
    recs = []
    cap = 6000 if tier == "quick" else 200000
    total_runs = 0
    for d in docs:
        ed = core.enc_value(d)
        if allowed_upper_bound(d) > 20000:
            chk.skipped += 1
            continue
        for q in (QUERIES if (tier != "quick" or d in WITNESSES[:8]) else rng.sample(QUERIES, 5)):
            results, complete, runs = outputs_of(jp, env, q, d, cap, late_flag=(len(recs) % 2 == 1))
            total_runs += runs
            outs = sorted(set(results), key=repr)
            if any(o and o[0] == "raised" for o in outs):
                chk.violation({"clause": "nondeterministic find raised"}, {"query": q, "doc": d, "outputs": [repr(o) for o in outs][:5]})
                continue
            recs.append({"op": "nondet", "q": core.enc_text(q), "doc": ed, "complete": complete, "runs": runs,
                         "outputs": [[core.enc_loc(loc) for loc in o] for o in outs]})
    # WIDE documents: [A, B1 .. Bk] with A = [[0]] and Bi = [i] - a queue longer than any small tree produces.  The container below A
    # may be visited anywhere after A, so there are exactly k + 1 permitted results.  The whole choice tree is far out of reach; what
    # is explored exhaustively is the FIRST call into `random` that has a real choice, the later calls following a fixed policy.
    # That decides exhaustiveness only for an implementation whose result is a function of that first call alone - a premise that is
    # TESTED here, not assumed: the exploration is repeated with the later calls taking their first outcome, their last outcome and
    # seeded random outcomes, and only if all four give the same result leaf by leaf is equality with the permitted set demanded
    # (TLC computes it through the container formulation AllowedResultsC, T8e).  Otherwise the record asks for validity only.
    for k in ((40,) if tier == "quick" else (40, 64, 100)):
        d = [[[0]]] + [[i] for i in range(1, k + 1)]
        ed = core.enc_value(d)
        for q in ("$..*", "$..[0]"):
            by_policy = []
            for policy in ("first", "last", random.Random(seed + 1), random.Random(seed + 2)):
                results, _complete, runs = outputs_of(jp, env, q, d, cap, depth_limit=1, late_policy=policy)
                total_runs += runs
                by_policy.append(results)
            premise = all(r == by_policy[0] for r in by_policy[1:])
            outs = sorted({o for res in by_policy for o in res}, key=repr)
            if any(o and o[0] == "raised" for o in outs):
                chk.violation({"clause": "nondeterministic find raised"}, {"query": q, "doc": f"wide document k={k}", "outputs": [repr(o) for o in outs][:5]})
                continue
            recs.append({"op": "nondet", "q": core.enc_text(q), "doc": ed, "complete": premise, "wide": True, "runs": 4 * runs,
                         "outputs": [[core.enc_loc(loc) for loc in o] for o in outs]})
            chk.notes[f"wide_document_k{k}_{q}"] = (f"{len(outs)} results from {runs} outcomes of the first random call; the result "
                                                   + ("depends on that call alone (tested under four policies for the later calls): equality demanded"
                                                      if premise else "also depends on later calls: validity only"))
    # the recursion limit counts from the node the descendant segment is applied to, in this mode too:
    # data within the limit below that node must give permitted results, never an error
    for lim, d in [(3, {"a": {"a": {"a": {"b": 1}}}}), (2, [[[1], 2], [[3]]]), (3, {"a": [{"a": [0, {"b": 0}]}], "b": 0}),
                   (2, {"a": {"b": {"c": 0}}, "c": [[0]]}),
                   # beyond the limit: arrays only / objects only / mixed below the node the segment is applied to
                   (1, [[[[1]]]]), (2, {"a": [[[[0]]]], "b": 1}), (1, {"a": {"a": {"a": 1}}}), (2, [{"a": [[{"a": [1]}]]}, [[[[2]]]]])]:
        lenv = probes.make_env(jp, [], [], nondeterministic=True, max_depth=lim)
        ed = core.enc_value(d)
        for q in ["$.a..*", "$[0]..*", "$.*..*", "$[*]..[0]", "$.a.a..b", "$.a..[?@]", "$[?@..a]", "$[?@..*]", "$.a[?count(@..*) > 0]", "$.*"]:
            results, complete, runs = outputs_of(jp, lenv, q, d, cap)
            total_runs += runs
            outs = sorted(set(results), key=repr)
            if any(o and o[0] == "raised" for o in outs):
                det = probes.make_env(jp, [], [], max_depth=lim)
                try:
                    det.find(q, d)
                    chk.violation({"clause": "nondeterministic find raised where the deterministic mode completes"},
                                  {"query": q, "doc": d, "limit": lim, "outputs": [repr(o) for o in outs][:4]})
                except jp.JSONPathError:
                    # the deterministic mode raises too: then EVERY outcome of the random choices must raise
                    # ("exactly the nodes of the deterministic result": there is none)
                    if any(not (o and o[0] == "raised") for o in outs):
                        chk.violation({"clause": "nondeterministic find completes where the deterministic mode raises"},
                                      {"query": q, "doc": d, "limit": lim, "outputs": [repr(o) for o in outs][:4]})
                continue
            else:
                det = probes.make_env(jp, [], [], max_depth=lim)
                try:
                    det.find(q, d)
                except jp.JSONPathError as err:
                    chk.violation({"clause": "nondeterministic find completes where the deterministic mode raises"},
                                  {"query": q, "doc": d, "limit": lim, "deterministic": type(err).__name__, "outputs": [repr(o) for o in outs][:4]})
                    continue
            recs.append({"op": "nondet", "q": core.enc_text(q), "doc": ed, "complete": complete, "runs": runs,
                         "outputs": [[core.enc_loc(loc) for loc in o] for o in outs]})
        # ... and after whatever the evaluations above did (some raised), the environment is still nondeterministic:
        # every ordering of three members is still produced
        three = {"x": 1, "y": 2, "z": 3}            # nesting 1: within every limit used here
        for q in ("$.*", "$[?@]", "$..*"):
            results, complete, runs = outputs_of(jp, lenv, q, three, cap)
            total_runs += runs
            recs.append({"op": "nondet", "q": core.enc_text(q), "doc": core.enc_value(three), "complete": complete, "runs": runs,
                         "outputs": [[core.enc_loc(loc) for loc in o] for o in sorted(set(results), key=repr)]})
    # larger documents: seeded outcomes, validity only
    n_big = 60 if tier == "quick" else 3000
    k = -1
    made = 0
    while made < n_big:
        k += 1
        d = gen.rand_doc(rng, depth=3, width=3, names=["a", "b", "c"], p_container=0.75)
        # TLC enumerates the permitted results as a set: keep it enumerable
        if allowed_upper_bound(d) > 3000:
            continue
        made += 1
        q = rng.choice(SINGLE_SEGMENT)
        c = env.compile(q)
        outs = set()
        for s in range(12):
            with chooser.patched(jp, chooser.SeededChooser(seed * 1000003 + k * 101 + s)):
                try:
                    outs.add(tuple(tuple(n.location) for n in c.find(d)))
                except Exception as err:  # noqa: BLE001
                    outs.add(("raised", type(err).__name__))
        if any(o and o[0] == "raised" for o in outs):
            chk.violation({"clause": "nondeterministic find raised"}, {"query": q, "doc": d, "outputs": [repr(o) for o in outs][:5]})
            continue
        try:
            recs.append({"op": "nondet", "q": core.enc_text(q), "doc": core.enc_value(d), "complete": False, "runs": 12,
                         "outputs": [[core.enc_loc(loc) for loc in o] for o in sorted(outs, key=repr)]})
        except core.Unrepresentable:
            pass
    chk.notes["implementation_runs"] = total_runs
    for r in recs:
        if len(r["outputs"]) > 1:
            chk.nontrivial.add((tuple(r["q"]), str(r["doc"])[:150]))
    big = max(recs, key=lambda r: len(r["outputs"]))
    chk.sample({"query": core.dec_text(big["q"]), "doc": core.dec_value(big["doc"]), "distinct_results": len(big["outputs"]),
                "runs": big["runs"], "complete": big["complete"]})
    chk.sample({"query": core.dec_text(recs[0]["q"]), "doc": core.dec_value(recs[0]["doc"]),
                "first_result": recs[0]["outputs"][0] if recs[0]["outputs"] else None})

    def sig(rej, rec):
        return {"clause": rej["clause"]}

    rej, st = core.validate_records("Trace", recs, name="c17", timeout=6000, heap="6g")
    chk.add_stats("Trace: result sets over all random outcomes vs Descent!AllowedResults", st)
    chk.evaluations += total_runs + 12 * n_big
    chk.traces += len(recs)
    for r in rej:
        rec = recs[r["id"]]
        chk.violation(sig(r, rec), {"query": core.dec_text(rec["q"]), "doc": core.dec_value(rec["doc"]), "runs": rec["runs"],
                                    "complete": rec["complete"], "distinct_results": len(rec["outputs"]),
                                    "spec_clause": r["clause"], "spec_detail": r["detail"]})
    chk.exhaustive = True
    chk.rule = (
        f"{len(docs)} documents ({len(WITNESSES)} witness shapes incl. roots with three container children, small trees of height<=2) "
        f"x up to {len(QUERIES)} queries: the implementation's choice tree explored completely ({total_runs} runs, cap {cap} per "
        f"case) and the result set compared with AllowedResults for equality; {n_big} larger seeded documents x 12 random outcomes "
        "for validity; non-trivial = (query, document) with more than one distinct result"
    )
    chk.assumptions = ["the enumerating chooser covers shuffle/choice/sample/randrange/randint/random; any other source of randomness is a machinery failure",
                       "AllowedResults: parent before descendants, array elements in index order, object members in any order, selector results for one visited node contiguous"]


def replay(path: str) -> int:
    jp = core.import_repo()
    with open(path) as fh:
        v = json.load(fh)
    case = v["case"]
    env = probes.make_env(jp, [], [], nondeterministic=True)
    results, complete, runs = outputs_of(jp, env, case["query"], case["doc"], 200000)
    print("query:", case["query"], "doc:", json.dumps(case["doc"]))
    print("runs:", runs, "complete:", complete, "distinct results:", len(set(results)))
    print("spec:", case.get("spec_clause"), case.get("spec_detail"))
    return 0
