"""EXTRA  coverage beyond the listed properties (not in MANIFEST.json).

TokenStream.tla: the parser's token stream as a state machine (next / peek / push /
expect / expect_peek over every token sequence up to a length); TLC checks PeekPure (peek
is observationally pure with at most one pushed-back token) and EofAbsorbing, and every
(state, last operation) with one witness operation sequence is replayed into the real
`tokens.TokenStream`, each return value compared (spec -> code).
"""
from __future__ import annotations

import json

from .. import core


def run(chk: core.Check, tier: str, seed: int) -> None:
    jp = core.import_repo()
    from jsonpath_rfc9535.tokens import Token, TokenStream, TokenType  # noqa: PLC0415

    maxlen, maxops = (3, 5) if tier == "quick" else (4, 6)
    cfg = (f"SPECIFICATION Spec\nCONSTANTS\n  Kinds = {{\"A\", \"B\"}}\n  MaxLen = {maxlen}\n  MaxOps = {maxops}\n"
           "INVARIANT EofAbsorbing\nINVARIANT Export\nPROPERTY PeekPure\nVIEW View\nCHECK_DEADLOCK FALSE\n")
    res = core.require_ok(core.run_tlc("TokenStream", cfg, name="mc_tokenstream", heap="8g"), "TokenStream")
    chk.add_tlc(f"TokenStream.tla MaxLen={maxlen} MaxOps={maxops}: PeekPure, EofAbsorbing", res)
    gens = [json.loads(json.loads(line.strip())[4:]) for line in res.out.splitlines() if line.strip().startswith('"GEN ')]
    kind = {"A": TokenType.WILD, "B": TokenType.COMMA, "EOF": TokenType.EOF}
    name = {v: k for k, v in kind.items()}

    def tok(k, i=0):
        return Token(kind[k], k, i, "q")

    for g in gens:
        stream = TokenStream([tok(k, i) for i, k in enumerate(g["toks"])] + [Token(TokenType.EOF, "", len(g["toks"]), "q")])
        bad = None
        for n, op in enumerate(g["ops"]):
            try:
                if op["op"] == "next":
                    got = name.get(stream.next_token().type_, "?")
                elif op["op"] == "peek":
                    got = name.get(stream.peek.type_, "?")
                elif op["op"] == "push":
                    stream.push(tok(op["arg"]))
                    got = ""
                elif op["op"] == "expect":
                    try:
                        stream.expect(kind[op["arg"]])
                        got = "ok"
                    except jp.JSONPathSyntaxError:
                        got = "raise"
                else:
                    try:
                        stream.expect_peek(kind[op["arg"]])
                        got = "ok"
                    except jp.JSONPathSyntaxError:
                        got = "raise"
            except Exception as err:  # noqa: BLE001
                got = f"raised {type(err).__name__}"
            if got != op["ret"]:
                bad = {"at": n, "op": op, "observed": got}
                break
        chk.evaluations += 1
        chk.nontrivial.add((tuple(g["toks"]), tuple((o["op"], o["arg"]) for o in g["ops"])))
        if bad:
            chk.violation({"clause": "TokenStream operation returned something else than the model", "op": bad["op"]["op"]},
                          {"tokens": g["toks"], "ops": g["ops"], "failure": bad})
    chk.traces += len(gens)
    chk.sample({"tokens": gens[len(gens) // 2]["toks"], "ops": gens[len(gens) // 2]["ops"]})
    chk.exhaustive = True
    chk.rule = (f"every reachable (state, last operation) of TokenStream.tla over token sequences of length <= {maxlen} and "
                f"<= {maxops} operations, one witness operation sequence each, replayed into tokens.TokenStream")


def replay(path: str) -> int:
    with open(path) as fh:
        print(fh.read()[:2000])
    return 0


# ------------------------------------------------------------------------------------------
# part 2: the repository's own test suite, observed at the API boundary and validated by TLC
# ------------------------------------------------------------------------------------------
RECORDER = r'''
import json, os, sys
sys.path.insert(0, os.environ["VERIF_DIR"])
from harness import core

OUT = open(os.environ["VERIF_TRACE_OUT"], "a")
_depth = [0]


def pytest_configure(config):
    import jsonpath_rfc9535 as jp
    from jsonpath_rfc9535.environment import JSONPathEnvironment
    from jsonpath_rfc9535.query import JSONPathQuery

    orig_compile = JSONPathEnvironment.compile
    orig_find = JSONPathQuery.find

    def is_plain(env):
        # only environments with exactly the built-in functions and default limits are comparable to the spec's defaults
        return (sorted(env.function_extensions) == ["count", "length", "match", "search", "value"]
                and env.max_int_index == 2**53 - 1 and env.min_int_index == -(2**53) + 1 and not env.nondeterministic)

    def compile_(self, query):
        if _depth[0] or not isinstance(query, str):
            return orig_compile(self, query)
        _depth[0] += 1
        rec = {"op": "compile", "q": [ord(c) for c in query]}
        try:
            try:
                res = orig_compile(self, query)
                rec.update(out="ok", jp=True, cls="")
                return res
            except BaseException as err:
                rec.update(out="raise", jp=isinstance(err, jp.JSONPathError), cls=type(err).__name__, strok=True)
                raise
        finally:
            _depth[0] -= 1
            if is_plain(self) and not any(0xD800 <= c <= 0xDFFF for c in rec["q"]):
                OUT.write(json.dumps(rec) + "\n")

    def find_(self, value):
        if _depth[0]:
            return orig_find(self, value)
        _depth[0] += 1
        try:
            text = str(self)
            try:
                nodes = orig_find(self, value)
                out = dict(out="ok", jp=True, cls="", locs=[core.enc_loc(n.location) for n in nodes])
            except BaseException as err:
                out = dict(out="raise", jp=isinstance(err, jp.JSONPathError), cls=type(err).__name__, locs=[])
                raise
            finally:
                try:
                    if is_plain(self.env) and self.env.max_recursion_depth == 100:
                        rec = {"op": "find", "q": [ord(c) for c in text], "doc": core.enc_value(value), "stage": "find", **out}
                        OUT.write(json.dumps(rec) + "\n")
                except Exception:
                    pass
            return nodes
        finally:
            _depth[0] -= 1

    JSONPathEnvironment.compile = compile_
    JSONPathQuery.find = find_
    JSONPathQuery.apply = find_


def pytest_unconfigure(config):
    OUT.flush()
'''


def suite_traces(chk: core.Check) -> None:
    """Run the repository's tests with compile()/find() observed at the API boundary (the recorder lives in
    the scratch directory; nothing in /repo changes) and validate every recorded event with Trace.tla.
    A find() event is keyed by str(query): it also exercises the str() round trip."""
    import os  # noqa: PLC0415
    import subprocess  # noqa: PLC0415

    from . import common  # noqa: PLC0415

    sdir = os.path.join(core.scratch(), "suite")
    os.makedirs(sdir, exist_ok=True)
    with open(os.path.join(sdir, "verif_recorder.py"), "w") as fh:
        fh.write(RECORDER)
    out = os.path.join(sdir, "events.ndjson")
    env = dict(os.environ, VERIF_DIR=core.VERIF, VERIF_TRACE_OUT=out, PYTHONPATH=sdir + os.pathsep + core.REPO,
               PYTHONDONTWRITEBYTECODE="1")
    p = subprocess.run(["/venv/bin/python", "-m", "pytest", "-q", "-p", "no:cacheprovider", "-p", "verif_recorder", "--timeout=900",
                        "--continue-on-collection-errors"], cwd=core.REPO, env=env, capture_output=True, text=True)
    tail = (p.stdout.strip().splitlines() or ["?"])[-1]
    chk.notes["repository_suite_under_recorder"] = tail
    recs = []
    if os.path.exists(out):
        with open(out) as fh:
            for line in fh:
                try:
                    recs.append(json.loads(line))
                except ValueError:
                    pass
    seen = set()
    uniq = []
    for r in recs:
        key = json.dumps(r, sort_keys=True)
        if key not in seen:
            seen.add(key)
            uniq.append(r)
    chk.notes["suite_events"] = len(recs)
    chk.notes["suite_events_distinct"] = len(uniq)
    if len(uniq) < 50:
        raise core.MachineryError(f"only {len(uniq)} events recorded from the repository's suite: {tail}")
    chk.sample({"suite_event": {"op": uniq[5]["op"], "q": core.dec_text(uniq[5]["q"]), "out": uniq[5]["out"]}})
    common.judge(chk, uniq, "suite", what="Trace: events of the repository's own test suite vs the specification")


# ------------------------------------------------------------------------------------------
# part 3: the lexer, step by step, through the env-guarded hook in Lexer.run
# ------------------------------------------------------------------------------------------
LEX_CHILD = r'''
import json, os, sys
sys.path.insert(0, os.environ["VERIF_REPO"])
from jsonpath_rfc9535 import lex
names = {getattr(lex, n): n for n in dir(lex) if n.startswith("lex_") and callable(getattr(lex, n)) and n not in ("lex_string_factory",)}
assert lex._VERIF, "hook guard is off"
texts = json.load(open(sys.argv[1]))
out = open(sys.argv[2], "w")
for t in texts:
    events = []
    def sink(lexer, fn, nxt, events=events):
        events.append({"fn": names.get(fn, "?"), "next": names.get(nxt, "none") if nxt is not None else "none",
                       "pos": lexer.pos, "start": lexer.start, "fd": lexer.filter_depth, "fs": list(lexer.func_call_stack),
                       "bs": [[ord(c), i] for c, i in lexer.bracket_stack], "ntoks": len(lexer.tokens)})
    lex._verif_sink = sink
    lexer, tokens = lex.lex(t)
    raised = False
    try:
        lexer.run()
    except Exception:
        raised = True
    lex._verif_sink = None
    out.write(json.dumps({"op": "lex", "q": [ord(c) for c in t], "events": events, "raised": raised,
                          "tokens": [{"t": tok.type_.name, "s": tok.index, "e": tok.index + len(tok.value)} for tok in tokens]}) + "\n")
out.close()
'''


def record_lexer(texts):
    """Run Lexer.run on each text in a child process started with the hook's guard on; one record per text."""
    import os  # noqa: PLC0415
    import subprocess  # noqa: PLC0415

    sdir = os.path.join(core.scratch(), "lexer")
    os.makedirs(sdir, exist_ok=True)
    inp, outp = os.path.join(sdir, "texts.json"), os.path.join(sdir, "events.ndjson")
    with open(inp, "w") as fh:
        json.dump(texts, fh)
    env = dict(os.environ, JSONPATH_RFC9535_VERIF="1", VERIF_REPO=core.REPO, PYTHONDONTWRITEBYTECODE="1")
    p = subprocess.run(["/venv/bin/python", "-c", LEX_CHILD, inp, outp], env=env, capture_output=True, text=True)
    if p.returncode != 0:
        raise core.MachineryError("lexer recorder failed: " + p.stderr[-800:])
    return [json.loads(line) for line in open(outp)]


def lexer_traces(chk: core.Check, tier: str, seed: int) -> None:
    """MC: Lexer.tla over all short texts (offset / token / bracket / call-stack invariants, progress).
    TRACE: every step of the real Lexer.run (hook: JSONPATH_RFC9535_VERIF=1 + a sink installed here) on the
    syntax corpora is replayed through LexerDefs!Step by TLC and compared field by field."""
    import os  # noqa: PLC0415
    import random  # noqa: PLC0415
    import subprocess  # noqa: PLC0415
    import sys  # noqa: PLC0415

    from .. import corpus, gen  # noqa: PLC0415
    from . import common  # noqa: PLC0415

    maxlen = 4 if tier == "quick" else 5
    cfg = ("SPECIFICATION LSpec\nCONSTANTS\n  Alphabet = {36, 46, 91, 93, 63, 64, 40, 41, 39, 97, 49, 32, 61, 44, 42}\n"
           f"  MaxLen = {maxlen}\nINVARIANT Inv_Offsets\nINVARIANT Inv_Tokens\nINVARIANT Inv_Brackets\nINVARIANT Inv_CallStack\n"
           "PROPERTY Prog\nCHECK_DEADLOCK FALSE\n")
    res = core.require_ok(core.run_tlc("Lexer", cfg, name="mc_lexer", heap="8g", timeout=3000), "Lexer")
    chk.add_tlc(f"Lexer.tla over all texts '$'+w, |w|<={maxlen}, 15 symbols: offsets, tokens, brackets, call stack, progress", res)
    # the hook is read at import time: record in a child process started with the guard on
    rng = random.Random(seed)
    texts = list(corpus.SEEDS) + corpus.repo_test_queries() + corpus.literal_queries() + corpus.skeletons(rng)
    texts += corpus.valid_candidates(rng, 600 if tier == "quick" else 20000)
    for s in list(texts[:300]):
        texts += gen.neighbours(s, rng, 4)
    texts = [t for t in dict.fromkeys(texts) if not any(0xD800 <= ord(c) <= 0xDFFF for c in t)]
    recs = record_lexer(texts)
    chk.notes["lexer_runs_recorded"] = len(recs)
    chk.notes["lexer_steps_recorded"] = sum(len(r["events"]) for r in recs)
    chk.sample({"lexer_run": {"q": core.dec_text(recs[30]["q"]), "steps": [(e["fn"], e["next"], e["pos"]) for e in recs[30]["events"]][:6]}})

    def sig(rej, rec):
        d = rej.get("detail") or []
        return {"clause": rej["clause"], "why": d[1] if len(d) > 1 else None}

    common.judge(chk, recs, "lexer", what="Trace: Lexer.run steps (hook) vs LexerDefs!Step", sig=sig)


# ------------------------------------------------------------------------------------------
# part 4: the parser: Parser.tla (implementation-shaped) refines Syntax/Typing (T15), and the real
# compile() conforms to Parser.tla in outcome, error class and the query it builds
# ------------------------------------------------------------------------------------------
def pcompile_record(jp, q: str, env=None, extra=None):
    from .. import parserconf  # noqa: PLC0415

    rec = {"op": "pcompile", "q": core.enc_text(q), "out": "ok", "kind": "", "ast": []}
    try:
        cq = (env or jp).compile(q)
        rec["ast"] = parserconf.project(cq)
    except core.Unrepresentable:
        return None
    except Exception as err:  # noqa: BLE001
        rec["out"], rec["kind"] = "raise", parserconf.kind_of(jp, err)
    if extra:
        rec.update(extra)
    return rec


def parser_conformance(chk: core.Check, tier: str, seed: int) -> None:
    """MC + GEN: MC_Parser.tla (T15) over every text of up to n units of five unit families; every exported
    text is compiled for real and outcome / error class / AST compared with what Parser.tla computed.
    TRACE: the syntax corpora compiled for real, each outcome / error class / AST validated by TLC against
    Parser!ImplCompile."""
    import random  # noqa: PLC0415

    from .. import corpus, gen, parserconf, probes  # noqa: PLC0415
    from . import common  # noqa: PLC0415

    jp = core.import_repo()
    gens, runs = parserconf.unit_texts(tier, "mc_parser", deep=True)
    for label, res in runs:
        chk.add_tlc(label, res)
    n_acc = 0
    for g in gens:
        q = core.dec_text(g["q"])
        rec = pcompile_record(jp, q)
        chk.evaluations += 1
        chk.nontrivial.add(("unit", q))
        if rec is None or (not g["ok"] and g["kind"] == "numbig"):
            continue
        n_acc += g["ok"]
        problem = None
        if g["ok"] != (rec["out"] == "ok"):
            problem = "outcome differs from Parser.tla"
        elif not g["ok"] and g["kind"] != rec["kind"] and not (g["kind"] == "lexer" and rec["kind"] == "syntax"):
            problem = "error class differs from Parser.tla"
        elif g["ok"] and g["ast"] != rec["ast"]:
            problem = "the query built differs from Parser.tla"
        if not problem and g["ok"] and g["rfc"] == "accept":
            # Evaluator.tla: the node lists the implementation-shaped evaluator computed on MC_Parser's documents
            cq = jp.compile(q)
            for k, doc in enumerate(parserconf.MC_DOCS):
                want = g["res"][k]
                if want == ["dc"]:
                    continue
                chk.evaluations += 1
                try:
                    got = [core.enc_loc(n.location) for n in cq.find(doc)]
                except Exception as err:  # noqa: BLE001
                    got = ["raised", type(err).__name__]
                if got != want:
                    chk.violation({"clause": "EVALUATOR find() differs from Evaluator.tla", "set": g["set"]},
                                  {"query": q, "document": doc, "model": want, "code": got})
                    break
            # Unparse.tla: the specification's own canonical text of the query is one more valid input: the
            # implementation accepts it and selects with it what it selects with the original text
            canon = core.dec_text(g["canon"])
            try:
                cc = jp.compile(canon)
                for doc in parserconf.MC_DOCS:
                    a = [tuple(n.location) for n in cq.find(doc)]
                    b = [tuple(n.location) for n in cc.find(doc)]
                    if a != b:
                        chk.violation({"clause": "UNPARSE the canonical text of the specification selects other nodes", "set": g["set"]},
                                      {"query": q, "canonical_text": canon, "document": doc, "original": a, "canonical": b})
                        break
            except Exception as err:  # noqa: BLE001
                chk.violation({"clause": "UNPARSE the canonical text of the specification is not accepted", "set": g["set"], "cls": type(err).__name__},
                              {"query": q, "canonical_text": canon, "error": str(err)[:200]})
        if problem:
            chk.violation({"clause": "PARSER " + problem, "set": g["set"], "model": g["kind"] or "ok", "code": rec["kind"] or "ok"},
                          {"query": q, "model": {"ok": g["ok"], "kind": g["kind"], "ast": g["ast"]},
                           "code": {"out": rec["out"], "kind": rec["kind"], "ast": rec["ast"]}, "rfc": g["rfc"]})
    chk.notes["parser_unit_texts"] = len(gens)
    chk.notes["parser_unit_texts_accepted"] = n_acc
    k = next((i for i, g in enumerate(gens) if g["ok"] and len(g["q"]) > 9), 0)
    chk.sample({"unit_text": core.dec_text(gens[k]["q"]), "model": "ok" if gens[k]["ok"] else gens[k]["kind"], "rfc": gens[k]["rfc"]})
    # TRACE
    rng = random.Random(seed)
    texts = list(corpus.SEEDS) + corpus.repo_test_queries() + corpus.literal_queries() + corpus.skeletons(rng)
    texts += corpus.valid_candidates(rng, 500 if tier == "quick" else 15000)
    for s in list(texts[:400]):
        texts += gen.neighbours(s, rng, 6 if tier == "quick" else 40)
    texts = [t for t in dict.fromkeys(texts) if not any(0xD800 <= ord(c) <= 0xDFFF for c in t) and len(t) <= 200]
    recs = [r for r in (pcompile_record(jp, t) for t in texts) if r is not None]
    # typed registries: the typing checks of the parser depend on the declared signatures
    sigs = [("bl", ["L"], "L"), ("vv", ["V"], "V"), ("ll", ["L"], "L"), ("nn", ["N"], "N"), ("vn", ["V", "N"], "L"), ("z", [], "V")]
    tenv = probes.make_env(jp, sigs, [])
    extra = {"reg": probes.reg_records(sigs)}
    typed = corpus.logical_param_skeletons(rng)
    for f in ("vv", "ll", "nn", "z"):
        for a in ("@", "@.a", "@.*", "1", "'s'", "(@.a)", "!@", "@ == 1", "vv(@)", "ll(@)", "nn(@)", "z()", "(ll(@))", "@ && @", ""):
            for ctx in ("$[?{}]", "$[?{} == 1]", "$[?!{}]", "$[?({})]", "$[?@ && {}]", "$[?ll({})]", "$[?vv({}) < 2]", "$[?count({}) == 1]"):
                typed.append(ctx.format(f"{f}({a})"))
    recs += [r for r in (pcompile_record(jp, t, env=tenv, extra=extra) for t in dict.fromkeys(typed)) if r is not None]
    chk.notes["parser_trace_records"] = len(recs)

    def sig(rej, rec):
        d = rej.get("detail") or []
        return {"clause": rej["clause"], "model": d[0] if d and rej["clause"].startswith("PARSER o") else None}

    common.judge(chk, recs, "parser", what="Trace: compile() outcome / error class / AST vs Parser!ImplCompile", sig=sig)


# ------------------------------------------------------------------------------------------
# part 5: the helper API: JSONPathNodeList.values / paths / items / empty, JSONPathNode.root,
# JSONPathQuery.singular_query / empty
# ------------------------------------------------------------------------------------------
def api_surface(chk: core.Check, tier: str, seed: int) -> None:
    import random  # noqa: PLC0415

    from .. import corpus, gen  # noqa: PLC0415
    from . import common  # noqa: PLC0415

    jp = core.import_repo()
    rng = random.Random(seed)
    docs = [gen.rand_doc(rng) for _ in range(12 if tier == "quick" else 60)] + [{"a": [1, {"b": 2}], "b": {"a": "x"}}, [[1, 2], [3]], 5, "s", None, {}, []]
    qs = list(dict.fromkeys(corpus.SEEDS + common.ROOT_QUERIES + corpus.valid_candidates(rng, 300 if tier == "quick" else 5000)))
    recs = []
    for q in qs:
        try:
            cq = jp.compile(q)
        except jp.JSONPathError:
            continue
        for doc in rng.sample(docs, 2):
            try:
                edoc = core.enc_value(doc)
            except core.Unrepresentable:
                continue
            rec = {"op": "api", "q": core.enc_text(q), "doc": edoc, "singular": bool(cq.singular_query()), "qempty": bool(cq.empty()),
                   "out": "ok", "lempty": True, "paths": [], "helpers_ok": True}
            try:
                nl = cq.find(doc)
                rec["lempty"] = bool(nl.empty())
                rec["paths"] = [core.enc_text(p) for p in nl.paths()]
                ok = nl.values() == [n.value for n in nl] and all(a is b for a, b in zip(nl.values(), [n.value for n in nl]))
                ok = ok and nl.items() == [(n.path(), n.value) for n in nl] and all(n.root is doc for n in nl)
                rec["helpers_ok"] = bool(ok)
            except jp.JSONPathError:
                rec["out"] = "raise"
            recs.append(rec)
    chk.notes["api_records"] = len(recs)
    common.judge(chk, recs, "api", what="Trace: node list / query helper API vs the specification")


_run_tokenstream = run


def run(chk: core.Check, tier: str, seed: int) -> None:  # noqa: F811
    _run_tokenstream(chk, tier, seed)
    suite_traces(chk)
    lexer_traces(chk, tier, seed)
    parser_conformance(chk, tier, seed)
    api_surface(chk, tier, seed)
