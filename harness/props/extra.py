"""EXTRA  coverage beyond the listed properties (not in MANIFEST.json).

TokenStream.tla: the parser's token stream as a state machine (next / peek / push /
expect / expect_peek over every token sequence up to a length); TLC checks PeekPure (peek
is observationally pure with at most one pushed-back token) and EofAbsorbing, and every
(state, last operation) with one witness operation sequence is replayed into the real
`tokens.TokenStream`, each return value compared (spec -> code).
"""
from __future__ import annotations

import json

from .. import core


def run(chk: core.Check, tier: str, seed: int) -> None:
    jp = core.import_repo()
    from jsonpath_rfc9535.tokens import Token, TokenStream, TokenType  # noqa: PLC0415

    maxlen, maxops = (3, 5) if tier == "quick" else (4, 6)
    cfg = (f"SPECIFICATION Spec\nCONSTANTS\n  Kinds = {{\"A\", \"B\"}}\n  MaxLen = {maxlen}\n  MaxOps = {maxops}\n"
           "INVARIANT EofAbsorbing\nINVARIANT Export\nPROPERTY PeekPure\nVIEW View\nCHECK_DEADLOCK FALSE\n")
    res = core.require_ok(core.run_tlc("TokenStream", cfg, name="mc_tokenstream", heap="8g"), "TokenStream")
    chk.add_tlc(f"TokenStream.tla MaxLen={maxlen} MaxOps={maxops}: PeekPure, EofAbsorbing", res)
    gens = [json.loads(json.loads(line.strip())[4:]) for line in res.out.splitlines() if line.strip().startswith('"GEN ')]
    kind = {"A": TokenType.WILD, "B": TokenType.COMMA, "EOF": TokenType.EOF}
    name = {v: k for k, v in kind.items()}

    def tok(k, i=0):
        return Token(kind[k], k, i, "q")

    for g in gens:
        stream = TokenStream([tok(k, i) for i, k in enumerate(g["toks"])] + [Token(TokenType.EOF, "", len(g["toks"]), "q")])
        bad = None
        for n, op in enumerate(g["ops"]):
            try:
                if op["op"] == "next":
                    got = name.get(stream.next_token().type_, "?")
                elif op["op"] == "peek":
                    got = name.get(stream.peek.type_, "?")
                elif op["op"] == "push":
                    stream.push(tok(op["arg"]))
                    got = ""
                elif op["op"] == "expect":
                    try:
                        stream.expect(kind[op["arg"]])
                        got = "ok"
                    except jp.JSONPathSyntaxError:
                        got = "raise"
                else:
                    try:
                        stream.expect_peek(kind[op["arg"]])
                        got = "ok"
                    except jp.JSONPathSyntaxError:
                        got = "raise"
            except Exception as err:  # noqa: BLE001
                got = f"raised {type(err).__name__}"
            if got != op["ret"]:
                bad = {"at": n, "op": op, "observed": got}
                break
        chk.evaluations += 1
        chk.nontrivial.add((tuple(g["toks"]), tuple((o["op"], o["arg"]) for o in g["ops"])))
        if bad:
            chk.violation({"clause": "TokenStream operation returned something else than the model", "op": bad["op"]["op"]},
                          {"tokens": g["toks"], "ops": g["ops"], "failure": bad})
    chk.traces += len(gens)
    chk.sample({"tokens": gens[len(gens) // 2]["toks"], "ops": gens[len(gens) // 2]["ops"]})
    chk.exhaustive = True
    chk.rule = (f"every reachable (state, last operation) of TokenStream.tla over token sequences of length <= {maxlen} and "
                f"<= {maxops} operations, one witness operation sequence each, replayed into tokens.TokenStream")


def replay(path: str) -> int:
    with open(path) as fh:
        print(fh.read()[:2000])
    return 0
