"""Parser.tla / MC_Parser.tla: the implementation-shaped lexer -> token stream -> Pratt parser pipeline.

unit_texts()   runs MC_Parser for every unit family (T15: the implementation-shaped pipeline refines the
               RFC-shaped grammar and validity rules over all texts  prefix u1..un suffix) and returns
               what TLC exported: the text, the verdict of the RFC-shaped model, the outcome and the
               AST of the implementation-shaped model.
project()      the AST of a compiled query, read off the real objects, in the shape of Syntax.tla.
"""
from __future__ import annotations

import json
from concurrent.futures import ThreadPoolExecutor
from typing import Any, Dict, List, Tuple

from . import core

UNIT_SETS = ["logic", "calls", "select", "lits", "strs", "singular"]


def _one(us: str, max_units: int, export_upto: int, name: str, workers: int):
    cfg = (f"SPECIFICATION Spec\nCONSTANT UnitSet = \"{us}\"\nCONSTANT MaxUnits = {max_units}\nCONSTANT ExportAllUpTo = {export_upto}\n"
           "INVARIANT T15_NoCrash\nINVARIANT T15_Accept\nINVARIANT T15_Reject\nINVARIANT T16\nINVARIANT T2\nINVARIANT Export\nCHECK_DEADLOCK FALSE\n")
    res = core.require_ok(core.run_tlc("MC_Parser", cfg, name=f"{name}_{us}", workers=workers, heap="6g", timeout=5400),
                          f"MC_Parser {us}")
    gens = []
    for line in res.out.splitlines():
        line = line.strip()
        if line.startswith('"GEN '):
            g = json.loads(json.loads(line)[4:])
            g["set"] = us
            gens.append(g)
    return us, res, gens


def unit_texts(tier: str, name: str, sets=UNIT_SETS, deep: bool = False, more=None) -> Tuple[List[Dict[str, Any]], List[Tuple[str, Any]]]:
    """All exported texts of MC_Parser for the given tier: (gens, [(label, TlcResult)]).  Every text of up to
    export_upto units is exported, longer ones unless the implementation-shaped model plainly says "syntax"."""
    if tier == "quick":
        max_units, export_upto = (4, 3) if deep else (3, 3)
    else:
        max_units, export_upto = (5, 3)
    workers = max(2, core.NCPU // len(sets))
    with ThreadPoolExecutor(len(sets)) as ex:
        more = more or {}
        futs = [ex.submit(_one, us, max(max_units, more.get(us, 0)), max(export_upto, more.get(us, 0)) if tier == "quick" else export_upto,
                          name, workers) for us in sets]
        done = [f.result() for f in futs]
    gens: List[Dict[str, Any]] = []
    runs = []
    for us, res, g in done:
        gens += g
        runs.append((f"MC_Parser.tla units={us} n<={max_units}: T15_NoCrash, T15_Accept, T15_Reject, T16, T2", res))
    return gens, runs


# ------------------------------------------------------------------------------------------
def _int_lit(x: int) -> Dict[str, Any]:
    return {"neg": x < 0, "ds": [int(c) for c in str(abs(x))]}


def _opt(x):
    return [] if x is None else [_int_lit(x)]


def project(query) -> List[Dict[str, Any]]:
    """query.segments -> the AST of Syntax.tla (no "paren" nodes: the code does not keep parentheses)."""
    from jsonpath_rfc9535 import filter_expressions as fe  # noqa: PLC0415
    from jsonpath_rfc9535 import segments as sg  # noqa: PLC0415
    from jsonpath_rfc9535 import selectors as sl  # noqa: PLC0415

    def expr(e):
        if isinstance(e, fe.FilterExpressionLiteral):
            return {"t": "lit", "v": core.enc_value(e.value)}
        if isinstance(e, fe.PrefixExpression):
            return {"t": "not", "e": expr(e.right)}
        if isinstance(e, fe.LogicalExpression):
            return {"t": "and" if e.operator == "&&" else "or", "l": expr(e.left), "r": expr(e.right)}
        if isinstance(e, fe.ComparisonExpression):
            return {"t": "cmp", "op": e.operator, "l": expr(e.left), "r": expr(e.right)}
        if isinstance(e, fe.FilterQuery):
            return {"t": "query", "abs": isinstance(e, fe.RootFilterQuery), "segs": segs(e.query)}
        if isinstance(e, fe.FunctionExtension):
            return {"t": "call", "f": core.enc_text(e.name), "args": [expr(a) for a in e.args]}
        raise core.MachineryError(f"unknown expression node {type(e).__name__}")

    def sel(s):
        if isinstance(s, sl.NameSelector):
            return {"t": "name", "n": core.enc_text(s.name)}
        if isinstance(s, sl.IndexSelector):
            return {"t": "idx", "i": _int_lit(s.index)}
        if isinstance(s, sl.SliceSelector):
            return {"t": "slice", "s": _opt(s.slice.start), "e": _opt(s.slice.stop), "st": _opt(s.slice.step)}
        if isinstance(s, sl.WildcardSelector):
            return {"t": "wild"}
        if isinstance(s, sl.FilterSelector):
            return {"t": "filter", "e": expr(s.expression.expression)}
        raise core.MachineryError(f"unknown selector {type(s).__name__}")

    def segs(q):
        return [{"desc": isinstance(s, sg.JSONPathRecursiveDescentSegment), "sels": [sel(x) for x in s.selectors]} for s in q.segments]

    return segs(query)


def has_numbig(ast) -> bool:
    if isinstance(ast, dict):
        return ast.get("k") == "numbig" or any(has_numbig(v) for v in ast.values())
    if isinstance(ast, list):
        return any(has_numbig(v) for v in ast)
    return False


def kind_of(jp, err: BaseException) -> str:
    """The model's error kinds for an exception of the implementation."""
    from jsonpath_rfc9535 import exceptions as ex  # noqa: PLC0415

    for cls, k in ((ex.JSONPathSyntaxError, "syntax"), (ex.JSONPathTypeError, "type"), (ex.JSONPathNameError, "name"),
                   (ex.JSONPathIndexError, "index"), (ex.JSONPathLexerError, "lexer")):
        if type(err) is cls:
            return k
    return "other:" + type(err).__name__


# the documents of MC_Parser!MCDocSeq, in order
MC_DOCS = [
    {"a": 1, "b": [1, {"a": "a"}], "c": None},
    [1, [0, 1], {"a": [1]}, "a", True],
    {"a": {"a": 1, "b": "c"}, "b": "b"},
    [{"a": 1}, {"a": 0, "b": 1}, {"a": "a"}, {"a": True}, {"a": None}, {"a": [1]}, 1, "c", [], {}],
    1,
    "a",
]
