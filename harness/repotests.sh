#!/bin/sh
# runs the repository's stable baseline (guard off) and prints the pass/fail counts
cd "${VERIF_REPO:-/repo}" && /venv/bin/python -m pytest -q -p no:cacheprovider --timeout=900 --continue-on-collection-errors 2>&1 | tail -4
