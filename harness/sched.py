"""A line-granularity thread scheduler for the code under test (C16).

CPython switches threads only at a few bytecodes (calls, backward jumps), so a race
whose window is two consecutive stores is unreachable by stress with a tiny switch
interval - although nothing in the language forbids the switch (a free-threaded or
future interpreter takes it).  Here the threads are serialised by hand: a trace
function counts every 'line' event inside the package, only the thread holding the
token runs, and at the chosen step numbers the token is handed to another thread.
A schedule is the set of step numbers at which a pre-emption happens; schedules are
enumerated / sampled by the caller, the results of every thread are judged by the
specification like any other find record (a solitary run is the expectation).
"""
from __future__ import annotations

import sys
import threading
from typing import Any, Callable, List, Optional, Sequence, Set, Tuple


class LineScheduler:
    def __init__(self, bodies: Sequence[Callable[[], Any]], preempt_at: Set[int], pkg_dir: str, max_steps: int = 2_000_000):
        self.bodies = list(bodies)
        self.n = len(self.bodies)
        self.preempt = set(preempt_at)
        self.pkg = pkg_dir
        self.sems = [threading.Semaphore(0) for _ in self.bodies]
        self.done = [False] * self.n
        self.started = [False] * self.n
        self.results: List[Optional[Tuple[str, Any]]] = [None] * self.n
        self.step = 0
        self.switches = 0
        self.max_steps = max_steps
        self.stuck = False
        self.free = False          # the controlled schedule was given up (a thread blocked on something a suspended thread holds)
        self.freed = 0

    # ---- token passing -----------------------------------------------------------
    def _next_runnable(self, after: int) -> Optional[int]:
        for k in range(1, self.n + 1):
            j = (after + k) % self.n
            if not self.done[j] and j != after:
                return j
        return None

    def _point(self, tid: int) -> None:
        if self.free:
            return
        self.step += 1
        if self.step > self.max_steps:
            self.stuck = True
            raise SystemExit("scheduler step bound exceeded")
        if self.step in self.preempt:
            nxt = self._next_runnable(tid)
            if nxt is not None:
                self.switches += 1
                self.sems[nxt].release()
                # Wait for the token.  If the thread that has it makes no progress (it blocks on a lock THIS thread holds - code that
                # locks is correct code, and a pre-emption inside its critical section must not be turned into a deadlock by the
                # scheduler), the controlled schedule ends here: every thread runs freely from now on.
                seen = self.step
                while not self.sems[tid].acquire(timeout=0.2):
                    if self.free:
                        break
                    if self.step == seen and not all(self.done[j] for j in range(self.n) if j != tid):
                        self.free = True
                        self.freed += 1
                        for sem in self.sems:
                            sem.release()
                        break
                    seen = self.step

    def _make_trace(self, tid: int):
        pkg = self.pkg

        def local(frame, event, arg):
            if event == "line":
                self._point(tid)
            return local

        def glob(frame, event, arg):
            if event == "call" and frame.f_code.co_filename.startswith(pkg):
                return local
            return None

        return glob

    def _run(self, tid: int) -> None:
        while not self.sems[tid].acquire(timeout=0.2):
            if self.free:
                break
        self.started[tid] = True
        sys.settrace(self._make_trace(tid))
        try:
            self.results[tid] = ("ok", self.bodies[tid]())
        except BaseException as err:  # noqa: BLE001 - the outcome of the thread, whatever it is
            self.results[tid] = ("raise", err)
        finally:
            sys.settrace(None)
            self.done[tid] = True
            nxt = self._next_runnable(tid)
            if nxt is not None:
                self.sems[nxt].release()

    def run(self, timeout: float = 60.0) -> List[Optional[Tuple[str, Any]]]:
        ths = [threading.Thread(target=self._run, args=(t,), daemon=True) for t in range(self.n)]
        for th in ths:
            th.start()
        self.sems[0].release()
        for th in ths:
            th.join(timeout)
            if th.is_alive():
                self.stuck = True
        return self.results


def count_steps(bodies: Sequence[Callable[[], Any]], pkg_dir: str) -> int:
    """Number of line events of the bodies run one after the other (no pre-emption)."""
    s = LineScheduler(bodies, set(), pkg_dir)
    s.run()
    return s.step
