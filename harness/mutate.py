"""Classical (token-level) mutation sampling of the library, as a measurement of the checks' detection power.

  python -m harness.mutate survivors OUT.json         enumerate single-token mutants of jsonpath_rfc9535/*.py,
                                                        keep those the repository's 352 tests do not kill
  python -m harness.mutate judge OUT.json N SEED      run the quick checks of the properties the mutated file
                                                        is an anchor of against a seeded sample of N survivors

Nothing is ever changed in /repo: each worker has its own scratch worktree (removed afterwards).
Operators: comparison boundary / negation (< <= > >= == !=), and <-> or, dropped `not`, True <-> False,
integer literal +1 / 0 <-> 1, + <-> -, break <-> continue, `is` <-> `is not`.
"""
from __future__ import annotations

import io
import json
import multiprocessing as mp
import os
import random
import re
import shutil
import subprocess
import sys
import tempfile
import tokenize

VERIF = os.path.dirname(os.path.dirname(os.path.abspath(__file__)))
REPO = "/repo"
PKG = "jsonpath_rfc9535"
CHECKS = {
    "lex.py": ["C03", "C04", "C09", "C19", "C13"],
    "parse.py": ["C03", "C04", "C05", "C09", "C12", "C19"],
    "tokens.py": ["C03", "C04", "C19"],
    "selectors.py": ["C01", "C02", "C07", "C17"],
    "segments.py": ["C01", "C17", "C18"],
    "filter_expressions.py": ["C02", "C06", "C10", "C12"],
    "environment.py": ["C05", "C14", "C15"],
    "node.py": ["C08", "C01"],
    "query.py": ["C15", "C01", "C05"],
    "serialize.py": ["C08", "C12"],
    "cli.py": ["C20"],
    "exceptions.py": ["C19", "C13"],
    "function_extensions/_pattern.py": ["C11"],
    "function_extensions/match.py": ["C11", "C10"],
    "function_extensions/search.py": ["C11", "C10"],
    "function_extensions/length.py": ["C10"],
    "function_extensions/count.py": ["C10"],
    "function_extensions/value.py": ["C10"],
    "function_extensions/filter_function.py": ["C10", "C05"],
}
SWAP = {"<": ["<="], "<=": ["<"], ">": [">="], ">=": [">"], "==": ["!="], "!=": ["=="], "+": ["-"], "-": ["+"]}
NAMES = {"and": ["or"], "or": ["and"], "True": ["False"], "False": ["True"], "break": ["continue"], "continue": ["break"]}


def sh(cmd, **kw):
    return subprocess.run(cmd, capture_output=True, text=True, **kw)


def sites(path: str):
    """(line, col, end_col, old, new) for every single-token mutation of the file."""
    src = open(path).read()
    out = []
    toks = list(tokenize.generate_tokens(io.StringIO(src).readline))
    depth_annot = 0
    for k, t in enumerate(toks):
        line = t.line.strip()
        if line.startswith(("from ", "import ", "@", "__slots__", "__all__")) or "TYPE_CHECKING" in line or "# noqa: mut" in line:
            continue
        if t.type == tokenize.OP and t.string in SWAP:
            prev = toks[k - 1] if k else None
            if t.string in "+-" and (prev is None or prev.type == tokenize.OP and prev.string not in (")", "]", "}")):
                continue            # unary
            if t.string == ">" and prev is not None and prev.string == "-":
                continue            # '->'
            for new in SWAP[t.string]:
                out.append((t.start[0], t.start[1], t.end[1], t.string, new))
        elif t.type == tokenize.NAME and t.string in NAMES:
            for new in NAMES[t.string]:
                out.append((t.start[0], t.start[1], t.end[1], t.string, new))
        elif t.type == tokenize.NAME and t.string == "not":
            nxt = toks[k + 1] if k + 1 < len(toks) else None
            prev = toks[k - 1] if k else None
            if nxt is not None and nxt.string == "in":
                continue
            if prev is not None and prev.string == "is":
                out.append((prev.start[0], prev.start[1], t.end[1], "is not", "is"))
            else:
                out.append((t.start[0], t.start[1], t.end[1] + 1, "not ", ""))
        elif t.type == tokenize.NUMBER and re.fullmatch(r"\d+", t.string):
            n = int(t.string)
            out.append((t.start[0], t.start[1], t.end[1], t.string, str(n + 1)))
            if n == 1:
                out.append((t.start[0], t.start[1], t.end[1], t.string, "0"))
        elif t.type == tokenize.NUMBER and re.fullmatch(r"0[xX][0-9a-fA-F]+", t.string):
            n = int(t.string, 16)
            out.append((t.start[0], t.start[1], t.end[1], t.string, hex(n + 1)))
            out.append((t.start[0], t.start[1], t.end[1], t.string, hex(max(0, n - 1))))
    return out


def apply(path: str, site) -> str:
    ln, c0, c1, old, new = site
    lines = open(path).read().split("\n")
    row = lines[ln - 1]
    assert row[c0:c0 + len(old.rstrip())] == old.rstrip(), (row, site)
    lines[ln - 1] = row[:c0] + new + row[c1:]
    return "\n".join(lines)


_WT = None


def _worker_init():
    global _WT
    _WT = tempfile.mkdtemp(prefix="mut-wt-")
    sh(["git", "-C", REPO, "worktree", "add", "-q", "--detach", _WT, "HEAD"], check=True)


def _try(job):
    rel, site = job
    path = os.path.join(_WT, PKG, rel)
    orig = open(path).read()
    try:
        new = apply(path, site)
        with open(path, "w") as fh:
            fh.write(new)
        c = sh(["/venv/bin/python", "-m", "py_compile", path])
        if c.returncode != 0:
            return None
        try:
            # a mutant that loops during collection is not stopped by pytest-timeout: the whole run is bounded
            t = sh(["/venv/bin/python", "-m", "pytest", "-q", "-p", "no:cacheprovider", "--timeout=20", "--continue-on-collection-errors"], cwd=_WT, timeout=150)
        except subprocess.TimeoutExpired:
            return None
        m = re.search(r"(\d+) passed", t.stdout)
        if m and int(m.group(1)) == 352 and "failed" not in t.stdout.splitlines()[-1]:
            d = sh(["git", "-C", _WT, "diff"])
            return {"file": rel, "site": list(site), "diff": d.stdout}
        return None
    finally:
        with open(path, "w") as fh:
            fh.write(orig)


def survivors(out_path: str) -> None:
    jobs = []
    for rel in CHECKS:
        p = os.path.join(REPO, PKG, rel)
        if os.path.exists(p):
            jobs += [(rel, s) for s in sites(p)]
    print(f"{len(jobs)} mutants", flush=True)
    with mp.Pool(14, initializer=_worker_init) as pool:
        res = pool.map(_try, jobs, chunksize=4)
    keep = [r for r in res if r]
    json.dump({"mutants": len(jobs), "survivors": keep}, open(out_path, "w"), indent=1)
    print(f"{len(keep)} survive the repository's tests")
    for d in os.listdir(tempfile.gettempdir()):
        if d.startswith("mut-wt-"):
            full = os.path.join(tempfile.gettempdir(), d)
            sh(["git", "-C", REPO, "worktree", "remove", "--force", full])
            shutil.rmtree(full, ignore_errors=True)
    sh(["git", "-C", REPO, "worktree", "prune"])


def judge(out_path: str, n: int, seed: int, stream: int = 0, streams: int = 1) -> None:
    data = json.load(open(out_path))
    rng = random.Random(seed)
    pool = list(data["survivors"])
    rng.shuffle(pool)
    sample = pool[:n][stream::streams]
    results = []
    for k, mu in enumerate(sample):
        wt = tempfile.mkdtemp(prefix="mutj-wt-")
        ev = tempfile.mkdtemp(prefix="mutj-ev-")
        try:
            sh(["git", "-C", REPO, "worktree", "add", "-q", "--detach", wt, "HEAD"], check=True)
            patch = os.path.join(ev, "m.diff")
            open(patch, "w").write(mu["diff"])
            if sh(["git", "-C", wt, "apply", patch]).returncode != 0:
                continue
            caught = {}
            for p in CHECKS[mu["file"]]:
                env = dict(os.environ, VERIF_REPO=wt, VERIF_EVIDENCE_DIR=ev)
                c = sh([os.path.join(VERIF, "check"), p, "--tier", "quick"], cwd=VERIF, env=env)
                caught[p] = c.returncode
                if c.returncode == 1:
                    break
            verdict = "caught" if 1 in caught.values() else ("machinery" if 2 in caught.values() else "not caught")
            results.append({"file": mu["file"], "site": mu["site"], "diff": mu["diff"], "checks": caught, "verdict": verdict})
            print(f"[{k + 1}/{len(sample)}] {mu['file']}:{mu['site'][0]} {mu['site'][3]!r}->{mu['site'][4]!r}  {verdict} {caught}", flush=True)
        finally:
            sh(["git", "-C", REPO, "worktree", "remove", "--force", wt])
            shutil.rmtree(wt, ignore_errors=True)
            shutil.rmtree(ev, ignore_errors=True)
        json.dump(results, open(out_path.replace(".json", f".judged{stream}.json"), "w"), indent=1)


if __name__ == "__main__":
    if sys.argv[1] == "survivors":
        survivors(sys.argv[2])
    else:
        judge(sys.argv[2], int(sys.argv[3]), int(sys.argv[4]), *(int(x) for x in sys.argv[5:7]))
